#!/bin/sh
# validates MANIFEST.json and all evidence files against the schemas
python3-vt - <<'PY'
import json,jsonschema,glob,sys
ok=True
try:
    jsonschema.validate(json.load(open('/verif/MANIFEST.json')),json.load(open('/root/.vp/MANIFEST.schema.json'))); print('MANIFEST ok')
except Exception as e:
    ok=False; print('MANIFEST INVALID',str(e)[:500])
sch=json.load(open('/root/.vp/EVIDENCE.schema.json'))
for f in sorted(glob.glob('/verif/evidence/*.json')):
    try:
        jsonschema.validate(json.load(open(f)),sch); print(f,'ok')
    except Exception as e:
        ok=False; print(f,'INVALID',str(e)[:500])
sys.exit(0 if ok else 1)
PY
