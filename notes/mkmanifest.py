#!/usr/bin/env python3
# regenerates /verif/MANIFEST.json from the table below
import json
P = {
 'C01': ('exploration','real tool on seeded random setup files of every generator profile plus a fixed list of the faulty inputs of C14; every exit-0 output judged by a gofmt fixpoint monitor and go/types in its package','E2 toolrun + E3 outmon'),
 'C02': ('exploration','generated functions compiled with instrumented callbacks and executed on fixed + random valuations; destination compared leaf by leaf with a model built from the observed plan; static monitor for conversions without :typecast; operands dumped before/after; panics attributed','E5 execmon'),
 'C03': ('exploration','real tool on in-convention layout and broad scenarios plus a fixed corpus of valid uses of imported functions (dot import, blank import, same-named imports); oracle = exit 0 and function multiset equals the interface methods','E1 layout generator + E3'),
 'C04': ('exploration','independent reference matcher over go/types vs the observed plan per destination leaf, on the complete type-pair matrix (thorough) and random struct pairs; M3 opt-in monitor','E4 refmodel + E3'),
 'C05': ('exploration','covering-relation monitor over generated bodies (reachable leaves recomputed from go/types) + positioned stderr warning monitor','E4 leaves + E3'),
 'C06': ('exploration','reference model per notation-governed leaf vs observed plan, and dynamic provenance: generated code executed, stored value compared with the model\'s source evaluated on the inputs','E4 + E5'),
 'C07': ('fault_enumeration','every error-capable call site of every executed function is made to fail (1st and 2nd occurrence); returned error identity and call-trace prefix checked against the fault-free reference trace; static err-wiring monitor','E5 with fault plans'),
 'C08': ('exploration','complete enumeration of the 2048 signature shapes; go/types signature of each generated function compared with the documented shape; illegal shapes must be rejected; legal ones executed for copy direction','E1 shapes + E3 + E5'),
 'C09': ('exploration','metamorphic monitors over related runs: R1 effective-settings-at-method-level equivalence, R2 deletion of all other methods/interfaces, R3 reference model with effective settings','E2 + E4'),
 'C10': ('exploration','instrumented hooks record call order, operand identities and snapshots and mutate the destination; offline checker over the recorded traces; acceptance monitors over fixed valid and ill-fitting hook corpora (incl. :reverse in both parameter orders)','E5 with mutating hooks'),
 'C12': ('fault_enumeration','histories of (edit, damage output, run) steps and every truncation point / corruption class of the output left in place, over ten invocation forms (incl. $GOFILE, -out elsewhere, -out without extension, through a symbolic link, -dry -print, -log); exit status and bytes compared with the clean-path run; disagreements confirmed by an identical second run','E2 histories'),
 'C13': ('exploration','repeated fresh processes with varied environment (incl. TMPDIR on another file system), cwd and path spelling (incl. through a symbolic link), spaced in time for -log runs, serial and concurrent; byte-wise comparison of exit status, diagnostics and output within and across groups','E2 repetition'),
 'C15': ('fault_enumeration','whole-tree snapshot diff + strace-attributed write-class syscalls of the tool itself, over inputs x flags x output-path states (absent, present, immutable, directory, missing parent, unwritable)','E6 fsmon'),
 'C16': ('exploration','slice headers and elements observed after execution, mutation of source/destination elements to expose aliasing, a type-directed walk of both operands comparing backing arrays, nil/empty/shared-backing-array values; static form monitor','E5 with slice mutation'),
 'C18': ('exploration','complete enumeration of flag combinations x input spellings x -out targets on accepted inputs, plus failing-run pairs with/without -log on rejected inputs; stdout/files/exit observed at the process boundary','E2 enumeration'),
 'C19': ('exploration','in-process probe of the exported matcher API against the standard library as oracle: exhaustive small scope, grammar-generated regexps, query histories on one matcher; plus :skip patterns end to end through the real tool, skip decision per destination path of the generated functions','E7 optprobe'),
 'C11': ('exploration','structural diff monitor between setup file and output (declarations, imports, unique-id comments, directives)','E3 file structure'),
 'C14': ('exploration','grammar-based fuzzing of notations, referenced callbacks and method signatures; process-boundary oracle: terminated, exit in {0,1}, no runtime crash text, positioned diagnostic, no dropped method','E2 fuzz'),
 'C17': ('exploration','generated mixes of marked/unmarked/Convergen-named interfaces and sibling files; function multiset and surviving interface declarations compared with the selection predicate','E1 layout + E3'),
}
import os,sys
built = [p for p in sorted(P) if os.path.exists('/verif/harness/checks/%s.go' % p.lower())]
m = {
 "version": 1,
 "setup_cmd": "cd harness && GOFLAGS=-mod=mod GOPROXY=off GOSUMDB=off GOTOOLCHAIN=local go build -o ../bin/vcheck ./cmd/vcheck",
 "hooks": {"guard": "verif", "enable": "every build of /repo made by the checks passes -tags verif (go build -tags verif); no hook is needed so far: all observation points are at the process boundary or in generated code",
           "baseline_off_cmd": "cd /repo && GOFLAGS=-mod=mod GOPROXY=off GOSUMDB=off GOTOOLCHAIN=local go test -vet=off -count=1 ./...", "source_commits": [], "add_only": True},
 "engines": [{"name": "vcheck", "path": "harness", "serves_properties": built,
   "kind_free_text": "Go harness (stdlib only): seeded scenario generators; runs the real convergen binary rebuilt from /repo's working tree per check; output monitors (gofmt, go/types, plan extraction); independent reference matcher; execution engine that compiles generated code with instrumented callbacks and a reflect-based driver runtime; file-system/strace monitor; in-process matcher probe"}],
 "checks": [], "not_applicable": [],
 "notes": "Exit codes: 0 = held on everything explored (known findings printed as KNOWN-FINDING lines), 1 = VIOLATION, 2 = INCONCLUSIVE (infrastructure trouble, never a pass). VERIF_SEED selects the case lists. See DESIGN.md."
}
props = [json.loads(l)['id'] for l in open('/verif/properties.jsonl')]
for p in props:
    if p in built:
        lvl, tech, eng = P[p]
        m["checks"].append({"property_id": p, "quick_cmd": f"bin/vcheck run {p} --tier quick", "thorough_cmd": f"bin/vcheck run {p} --tier thorough",
          "evidence_file": f"evidence/{p}.json", "replay_cmd_template": f"bin/vcheck replay {p} {{path}}", "engine": "vcheck",
          "level_claimed": {"category": lvl, "text": "runtime monitoring: the property held on every execution observed (counts, feature coverage and samples are in the evidence file); it says nothing about inputs the workload did not drive", "design_ref": "DESIGN.md §4 " + p},
          "level_note": "trusted base: Go toolchain (go/types, gofmt, compiler, reflect), strace where used, the harness generators and oracles; scenario generators define the explored space (" + eng + ")",
          "technique": "runtime monitoring: " + tech})
    else:
        m["not_applicable"].append({"property_id": p, "reason": "monitor designed in DESIGN.md §4 but not yet built/validated in this tree; not claimed until it is"})
json.dump(m, open('/verif/MANIFEST.json', 'w'), indent=1)
print("claimed:", built)
