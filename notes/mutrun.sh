#!/bin/sh
# usage: mutrun.sh <name> <patch-or-"revert:SHA"> <prop> [<prop>...]; runs quick checks against a scratch copy of /repo with the change applied
name=$1; change=$2; shift 2
d=/tmp/mut-$name
rm -rf $d && cp -r /repo $d || exit 2
case "$change" in
 revert:*) git -C $d revert --no-commit ${change#revert:} >/dev/null 2>&1 || { echo "revert failed"; rm -rf $d; exit 2; } ;;
 *) git -C $d apply $change || { echo "patch failed"; rm -rf $d; exit 2; } ;;
esac
mkdir -p /tmp/mut-$name-verif && cp /verif/known_findings.json /tmp/mut-$name-verif/
for p in "$@"; do
  VERIF_REPO=$d VERIF_ROOT=/tmp/mut-$name-verif ${VCHECK:-/verif/bin/vcheck} run $p --tier quick > /tmp/mut-$name-$p.log 2>&1
  echo "$name $p exit=$? $(grep -c '^VIOLATION' /tmp/mut-$name-$p.log) violations; $(tail -1 /tmp/mut-$name-$p.log)"
done
rm -rf $d /tmp/mut-$name-verif
