#!/bin/sh
# builds bin/vcheck from a copy of harness without files that a helper agent is still editing
export GOFLAGS=-mod=mod GOPROXY=off GOSUMDB=off GOTOOLCHAIN=local
rm -rf /tmp/hb && cp -r /verif/harness /tmp/hb && rm -f /tmp/hb/scen/fuzz*.go /tmp/hb/checks/c14*.go && cd /tmp/hb && go build -o /verif/bin/vcheck ./cmd/vcheck; rc=$?; rm -rf /tmp/hb; exit $rc
