#!/bin/sh
# usage: seedcheck.sh <srcdir with patch.diff run.sh ...> <seeded-id> <prop> [more props]
# 1) confirms the seeded change in a scratch worktree of /repo HEAD (applies, builds, suite passes, demo fails with / passes without)
# 2) copies it to /verif/seeded/<id>/  3) runs the given checks against a scratch copy with the change applied
export GOFLAGS=-mod=mod GOPROXY=off GOSUMDB=off GOTOOLCHAIN=local
src=$1; id=$2; shift 2
wt=/tmp/seedwt-$id
git -C /repo worktree remove --force $wt 2>/dev/null; rm -rf $wt
git -C /repo worktree add -q $wt HEAD || exit 2
res=""
if ! git -C $wt apply $src/patch.diff; then echo "$id: PATCH DOES NOT APPLY to /repo HEAD"; git -C /repo worktree remove --force $wt; exit 3; fi
(cd $wt && go build ./... ) >/dev/null 2>&1 && res="$res build=ok" || res="$res build=FAIL"
suite=$(/verif/notes/repotest.sh $wt | head -1); res="$res suite=[$suite]"
(cd $src && bash ./run.sh $wt) >/tmp/seed-$id-with.log 2>&1; res="$res demo_with_change=exit$?"
git -C $wt checkout -q -- . ; git -C $wt clean -fdq
(cd $src && bash ./run.sh $wt) >/tmp/seed-$id-without.log 2>&1; res="$res demo_without=exit$?"
git -C /repo worktree remove --force $wt; rm -rf $wt
echo "$id:$res"
mkdir -p /verif/seeded/$id && cp -r $src/. /verif/seeded/$id/
for p in "$@"; do /verif/notes/mutrun.sh seed-$id $src/patch.diff $p; done
