#!/bin/sh
# usage: r7.sh <prop> <a|b> <newid> [extra props...] ; confirms a round-7 delivery and runs the checks against it
p=$1; x=$2; id=$3; shift 3
src=/tmp/r7-out/$p/$x
[ -f $src/patch.diff ] || { echo "no delivery $src"; exit 2; }
rm -f $src/convergen /tmp/r7-out/$p/convergen
/verif/notes/seedcheck.sh $src $id $p "$@"
