#!/usr/bin/env python3
# rewrites DESIGN.md §10.5 from /verif/seeded/*/meta.json
import json,glob
rows=[]
for f in sorted(glob.glob('/verif/seeded/*/meta.json')):
    m=json.load(open(f))
    rows.append((m['id'],m['needs_to_manifest'],", ".join(m['caught_by']),m['note']))
tbl="| id | needs, in short | caught by | note |\n|---|---|---|---|\n"
for id,needs,caught,note in rows:
    short=needs[:230]+('…' if len(needs)>230 else '')
    tbl+=f"| {id} | {short.replace('|','/')} | {caught} | {note.replace('|','/')} |\n"
n_first=sum(1 for r in rows if 'missed' not in r[3])
sec='''### 10.5 Seeded changes by independent sub-agents

Each sub-agent got only the text of one property and a scratch worktree of /repo (nothing
from /verif) and returned two patches with a demonstration that fails with the patch and
passes without it. Every patch was confirmed with `notes/seedcheck.sh` (applies to /repo
HEAD, `go build ./...`, pinned suite 123/123, demo exit 1 with / 0 without) and then run
against the checks with `notes/mutrun.sh` (quick tier, seed 1). Kept under
`/verif/seeded/<id>/` (patch.diff, demo, run.sh, README.md, meta.json). "missed at first"
means the check was silent on the first try and the machinery was strengthened (generator
input class or monitor added) until it fired; no oracle was loosened.

'''+tbl+'''
Of the %d seeded changes (five rounds of two changes per property, a sixth round for eight properties, a seventh for all nineteen and an eighth for six; from round 2 on each
sub-agent was told which triggers were already taken), %d were caught by the machinery as it stood and
%d only after a strengthening; each strengthening widened an input class or added a monitor for every
later run, and several exposed further genuine defects of the pinned tree along the way (blank fields,
package names, dot imports, symbolic links, value getters, the acceptance defects found by C01's list
of faulty inputs - see 10.3). Where a repair in /repo touched the lines of a seeded patch delivered
against an older HEAD, the patch was rebased by hand and its demonstration re-confirmed (noted in the
row). A change is listed under every check that reports it; "caught by" a neighbouring check only (for
example a two-run history for C07 or C13 that C12 owns) is said so in the note.
''' % (len(rows), n_first, len(rows)-n_first)
p='/verif/DESIGN.md'
s=open(p).read()
s=s[:s.index('### 10.5 Seeded changes')].rstrip('\n')+'\n\n'+sec
open(p,'w').write(s)
print(len(rows),'rows')
