import json,sys
def meta(id,prop,needs,props,caught,note):
    m={"id":id,"breaks_property":prop,"needs_to_manifest":needs,
       "confirmed":{"how":"notes/seedcheck.sh: patch applied in a scratch worktree of /repo HEAD: go build ./... ok; pinned suite 123/123 pass; demo run.sh exits 1 with the change and 0 without"},
       "checks_run":f"notes/mutrun.sh seed-{id} /verif/seeded/{id}/patch.diff {props} (quick tier, VERIF_SEED=1)",
       "caught_by":caught,"note":note,
       "author":"independent sub-agent given only the property text and a scratch worktree (round 2, told which triggers were already taken)"}
    json.dump(m,open(f'/verif/seeded/{id}/meta.json','w'),indent=1)
A3="independent sub-agent given only the property text and a scratch worktree (round 3 or 4, told which triggers were already taken)"
def meta3(*a):
    meta(*a)
    import json
    p=f'/verif/seeded/{a[0]}/meta.json'; m=json.load(open(p)); m['author']=A3; json.dump(m,open(p,'w'),indent=1)

A5="independent sub-agent given only the property text and a scratch worktree (round 5, told which triggers were already taken)"
def meta5(*a):
    meta(*a)
    import json
    p=f'/verif/seeded/{a[0]}/meta.json'; m=json.load(open(p)); m['author']=A5; json.dump(m,open(p,'w'),indent=1)
