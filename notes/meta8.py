import json
A8="independent sub-agent given only the property text and a scratch worktree (round 8, six properties, told which triggers were already taken)"
def meta(id,prop,needs,caught,note):
    props=" ".join(dict.fromkeys([prop]+caught))
    m={"id":id,"breaks_property":prop,"needs_to_manifest":needs,
       "confirmed":{"how":"notes/seedcheck.sh: patch applied in a scratch worktree of /repo HEAD: go build ./... ok; pinned suite 123/123 pass; demo run.sh exits 1 with the change and 0 without"},
       "checks_run":f"notes/mutrun.sh seed-{id} /verif/seeded/{id}/patch.diff {props} (quick tier, VERIF_SEED=1)",
       "caught_by":caught,"note":note,"author":A8}
    json.dump(m,open(f'/verif/seeded/{id}/meta.json','w'),indent=1)
M=[
("C03-13","C03","a method that returns its destination struct BY VALUE with a hook of the documented shape func(dst *T, src *S) (or the mirror case): the hook's destination parameter must now match the result 'as declared', pointer-ness included",["C03"],"caught as generated (by-value results with pointer hooks in the broad profile: well-formed file rejected)"),
("C03-14","C03","the module lies below a directory whose name contains '.go' (acme.go/) and the input path handed to the tool contains that part, no -out: the default output is derived by replacing the FIRST '.go' of the path",["C18"],"caught by C18 as generated (scenario directories whose name ends in .go; absolute and nested spellings); C03 runs the tool inside the package directory with a relative name"),
("C07-13","C07","a method WITHOUT error result carrying BOTH hooks, :preprocess returning nothing and :postprocess returning error: the error-result check is done once per method and looks at the first hook only",["C07"],"missed at first: C07's corpus gained kc07twohooksposterr / kc07twohookspreerr"),
("C07-14","C07","a method without error result and ':conv F Src Dst' where F is func(*T) (U, error) and the source field an addressable T: the 'needs an error result' rejection sits only on the path where the value fits the parameter directly, not on the &src.Field path",["C07"],"missed at first: C07's corpus gained kc07addrconv"),
("C10-15","C10","an additional argument the setup file names `_` plus a hook that declares the extra parameter: the blank name is kept instead of being replaced by argN, the hook call passes `_`",["C10"],"missed at first: valid-uses corpus scenario kc10blankextra (acceptance + hook-call compile monitor)"),
("C10-16","C10",":recv <name> on a method that also has hooks: the source variable handed to the hook keeps the declared parameter name instead of the receiver's (undefined: src)",["C10"],"caught as generated (hooks on :recv methods)"),
("C14-13","C14","a :literal whose <dst> and <literal> are separated by a TAB (or NBSP / vertical tab) with no ASCII space in the rest: SplitN on ' ' yields one element, index out of range",["C14"],"caught as generated (Unicode/other white space between notation arguments, corpus of f8eeb17)"),
("C14-14","C14","a hook that declares MORE additional parameters than the method has arguments: the count check became '<', the loop indexes past the method's arguments and panics",["C14","C10"],"caught as generated (C14 systematic hook shapes; C10 ill-fitting corpus extrasmore)"),
("C15-13","C15","a setup file whose name has more than one dot (setup.v2.go), no -out: the default output keeps the text before the FIRST dot, setup.gen.go - the output of the sibling setup.go - is overwritten",["C15","C18"],"missed at first (every input was called setup.go): C15 has the hand input h-dotted-name next to a sibling's output, a third of C18's scenarios rename their setup file to setup.v2.go"),
("C15-14","C15","two converter interfaces, one that builds and one that passes the parser but is refused by the builder (destination not a struct), non-dry run: the loop no longer stops at the first builder error, the output is written and the error returned at the end",["C15"],"missed at first: hand inputs h-mixed-ifaces / h-mixed-ifaces-first"),
("C18-13","C18","an output from an earlier run exists and the new code differs from it in LETTER CASE only (identifier respelled): 'unchanged, skip the write' compares with bytes.EqualFold",["C12"],"missed at first: C12 gained the pre-state class casefold (old output in upper case / one letter flipped); C18 starts from clean output paths (stale, longer files only)"),
("C18-14","C18","-print and one generated source line longer than 64 KiB (an embedded asset carried over): the printing helper walks the code with bufio.Scanner and stops silently at that line",["C18"],"missed at first: a quarter of C18's selected scenarios carry a 72 KB one-line constant"),
]
for t in M: meta(*t)
print(len(M))
