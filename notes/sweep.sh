#!/bin/sh
# usage: sweep.sh <tier> <seeds...> ; runs every claimed check for every seed from the current directory's framework
export GOFLAGS=-mod=mod GOPROXY=off GOSUMDB=off GOTOOLCHAIN=local
tier=$1; shift
(cd harness && go build -o ../bin/vcheck ./cmd/vcheck) || exit 2
props=$(python3 -c "import json;print(' '.join(c['property_id'] for c in json.load(open('MANIFEST.json'))['checks']))")
for s in "$@"; do for p in $props; do
  out=$(VERIF_SEED=$s ./bin/vcheck run $p --tier $tier 2>&1); rc=$?
  echo "seed=$s $p rc=$rc $(echo "$out" | tail -1)"
  if [ $rc -ne 0 ]; then echo "$out" | grep -E "VIOLATION|fingerprint|detail|INCONCL" | head -20; fi
done; done
