#!/bin/sh
# usage: sweep-some.sh <tier> <seed> <props...> ; like sweep.sh for a chosen list of checks
export GOFLAGS=-mod=mod GOPROXY=off GOSUMDB=off GOTOOLCHAIN=local
tier=$1; s=$2; shift 2
(cd harness && go build -o ../bin/vcheck ./cmd/vcheck) || exit 2
for p in "$@"; do
  out=$(VERIF_SEED=$s ./bin/vcheck run $p --tier $tier 2>&1); rc=$?
  echo "seed=$s $p rc=$rc $(echo "$out" | tail -1)"
  if [ $rc -ne 0 ]; then echo "$out" | grep -E "VIOLATION|fingerprint|detail|INCONCL" | head -20; fi
done
