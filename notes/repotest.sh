#!/bin/sh
# runs the pinned suite of /repo (guard off) and prints the pass count
export GOFLAGS=-mod=mod GOPROXY=off GOSUMDB=off GOTOOLCHAIN=local
cd ${1:-/repo} && go test -vet=off -count=1 -json ./... 2>/dev/null | python3 -c "
import sys,json
p=f=0
fails=[]
for l in sys.stdin:
    try: e=json.loads(l)
    except: continue
    if e.get('Test'):
        if e['Action']=='pass': p+=1
        elif e['Action']=='fail': f+=1; fails.append(e['Package']+'::'+e['Test'])
print('pass',p,'fail',f); print('\n'.join(fails))"
