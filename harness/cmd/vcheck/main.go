// vcheck is the entry point of the verification framework.
//
//	vcheck run <property> [--tier quick|thorough]
//	vcheck replay <property> <path>
//	vcheck gen <profile> <n> <dir>     (debugging aid: materialise scenarios)
//
// Type aliases stay transparent in the go/types views of the harness (as they are for the tool,
// whose go.mod predates materialised alias nodes).
//
//go:debug gotypesalias=0
package main

import (
	"fmt"
	"os"
	"strings"

	"vh/checks"
	"vh/core"
)

func main() {
	if len(os.Args) < 2 {
		usage()
	}
	switch os.Args[1] {
	case "run":
		if len(os.Args) < 3 {
			usage()
		}
		prop := os.Args[2]
		tier := os.Getenv("VERIF_TIER")
		for i := 3; i < len(os.Args); i++ {
			if os.Args[i] == "--tier" && i+1 < len(os.Args) {
				tier = os.Args[i+1]
				i++
			} else if strings.HasPrefix(os.Args[i], "--tier=") {
				tier = strings.TrimPrefix(os.Args[i], "--tier=")
			}
		}
		if tier != "thorough" {
			tier = "quick"
		}
		f, ok := checks.Registry[prop]
		if !ok {
			fmt.Fprintln(os.Stderr, "unknown property", prop)
			os.Exit(2)
		}
		env, err := core.NewEnv(prop, tier)
		if err != nil {
			fmt.Println("INCONCLUSIVE: setup failed:", err)
			os.Exit(2)
		}
		code := func() (code int) {
			defer env.Close()
			return f(env)
		}()
		os.Exit(code)
	case "replay":
		if len(os.Args) < 4 {
			usage()
		}
		os.Exit(checks.Replay(os.Args[2], os.Args[3]))
	case "gen":
		os.Exit(checks.DebugGen(os.Args[2:]))
	case "plan":
		os.Exit(checks.DebugPlan(os.Args[2:]))
	default:
		usage()
	}
}

func usage() {
	fmt.Fprintln(os.Stderr, "usage: vcheck run <property> [--tier quick|thorough] | vcheck replay <property> <path> | vcheck gen ...")
	os.Exit(2)
}
