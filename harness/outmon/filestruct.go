package outmon

import (
	"bytes"
	"go/ast"
	"go/format"
	"go/parser"
	"go/printer"
	"go/token"
	"regexp"
	"sort"
	"strings"
)

// Decl is one top-level declaration of a file.
type Decl struct {
	Kind      string // import const var type func
	Names     []string
	Recv      string
	Canon     string // canonical print without comments
	Text      string // gofmt-ed source text incl. doc and trailing line comment
	IsIface   bool
	StartLine int // line of the doc comment (or the decl)
	DeclLine  int // line of the declaration keyword
	EndLine   int
	DocLines  []string
	Node      ast.Decl
}

// Key identifies the declaration.
func (d *Decl) Key() string {
	k := d.Kind + ":" + strings.Join(d.Names, ",")
	if d.Recv != "" {
		k = d.Kind + ":" + d.Recv + "." + strings.Join(d.Names, ",")
	}
	return k
}

// Comment is one comment with its unique id (if any) and placement.
type Comment struct {
	ID      string
	Text    string
	Line    int
	DeclKey string // declaration whose extent (doc .. last line) contains it ("" = floating)
	IsDoc   bool   // part of that declaration's doc comment
}

// FileStruct is the structure of a Go file.
type FileStruct struct {
	Fset     *token.FileSet
	File     *ast.File
	Src      []byte // gofmt-ed source
	Decls    []*Decl
	Imports  []Import
	Comments []Comment
	PkgDoc   []string
}

// Import is one import spec.
type Import struct{ Name, Path string }

var reID = regexp.MustCompile(`\bc\d{3}\b`)

// ParseStruct parses src (gofmt-ing it first so that texts are comparable).
func ParseStruct(src []byte) (*FileStruct, error) {
	fsrc, err := format.Source(src)
	if err != nil {
		return nil, err
	}
	fs := &FileStruct{Fset: token.NewFileSet(), Src: fsrc}
	f, err := parser.ParseFile(fs.Fset, "f.go", fsrc, parser.ParseComments)
	if err != nil {
		return nil, err
	}
	fs.File = f
	lines := bytes.Split(fsrc, []byte("\n"))
	lineOf := func(p token.Pos) int { return fs.Fset.PositionFor(p, false).Line } // //line directives must not shift texts
	for _, d := range f.Decls {
		dd := &Decl{Node: d}
		var doc *ast.CommentGroup
		switch x := d.(type) {
		case *ast.GenDecl:
			dd.Kind = strings.ToLower(x.Tok.String())
			doc = x.Doc
			for _, sp := range x.Specs {
				switch s := sp.(type) {
				case *ast.TypeSpec:
					dd.Names = append(dd.Names, s.Name.Name)
					if _, ok := s.Type.(*ast.InterfaceType); ok && len(x.Specs) == 1 {
						dd.IsIface = true
					}
				case *ast.ValueSpec:
					for _, n := range s.Names {
						dd.Names = append(dd.Names, n.Name)
					}
				case *ast.ImportSpec:
					name := ""
					if s.Name != nil {
						name = s.Name.Name
					}
					fs.Imports = append(fs.Imports, Import{Name: name, Path: strings.Trim(s.Path.Value, `"`)})
					dd.Names = append(dd.Names, s.Path.Value)
				}
			}
		case *ast.FuncDecl:
			dd.Kind = "func"
			dd.Names = []string{x.Name.Name}
			doc = x.Doc
			if x.Recv != nil && len(x.Recv.List) == 1 {
				dd.Recv = strings.TrimPrefix(nodeText(fs.Fset, x.Recv.List[0].Type), "*")
			}
		}
		dd.StartLine = lineOf(d.Pos())
		dd.DeclLine = dd.StartLine
		if doc != nil {
			dd.StartLine = lineOf(doc.Pos())
			for _, c := range doc.List {
				dd.DocLines = append(dd.DocLines, c.Text)
			}
		}
		dd.EndLine = lineOf(d.End())
		var b bytes.Buffer
		_ = (&printer.Config{Mode: printer.RawFormat}).Fprint(&b, token.NewFileSet(), stripComments(d))
		dd.Canon = strings.Join(strings.Fields(b.String()), " ")
		if dd.StartLine >= 1 && dd.EndLine <= len(lines) {
			dd.Text = string(bytes.Join(lines[dd.StartLine-1:dd.EndLine], []byte("\n")))
		}
		fs.Decls = append(fs.Decls, dd)
	}
	if f.Doc != nil {
		for _, c := range f.Doc.List {
			fs.PkgDoc = append(fs.PkgDoc, c.Text)
		}
	}
	for _, cg := range f.Comments {
		for _, c := range cg.List {
			cm := Comment{Text: c.Text, Line: lineOf(c.Pos())}
			if m := reID.FindString(c.Text); m != "" {
				cm.ID = m
			}
			for _, d := range fs.Decls {
				if cm.Line >= d.StartLine && cm.Line <= d.EndLine {
					cm.DeclKey = d.Key()
					switch x := d.Node.(type) {
					case *ast.GenDecl:
						cm.IsDoc = x.Doc == cg
					case *ast.FuncDecl:
						cm.IsDoc = x.Doc == cg
					}
				}
			}
			fs.Comments = append(fs.Comments, cm)
		}
	}
	return fs, nil
}

// stripComments returns the node unchanged; printing with a fresh FileSet and no comment list
// drops free-floating comments, doc comments are removed by clearing them on a shallow copy.
func stripComments(d ast.Decl) ast.Decl {
	switch x := d.(type) {
	case *ast.GenDecl:
		c := *x
		c.Doc = nil
		return &c
	case *ast.FuncDecl:
		c := *x
		c.Doc = nil
		return &c
	}
	return d
}

// UsedPackageNames returns the identifiers used as package qualifiers in the file.
func (fs *FileStruct) UsedPackageNames() map[string]bool {
	used := map[string]bool{}
	ast.Inspect(fs.File, func(n ast.Node) bool {
		if se, ok := n.(*ast.SelectorExpr); ok {
			if id, ok := se.X.(*ast.Ident); ok && id.Obj == nil {
				used[id.Name] = true
			}
		}
		return true
	})
	return used
}

// IDs returns id -> comments carrying it.
func (fs *FileStruct) IDs() map[string][]Comment {
	m := map[string][]Comment{}
	for _, c := range fs.Comments {
		if c.ID != "" {
			m[c.ID] = append(m[c.ID], c)
		}
	}
	return m
}

// DeclByKey finds a declaration.
func (fs *FileStruct) DeclByKey(k string) *Decl {
	for _, d := range fs.Decls {
		if d.Key() == k {
			return d
		}
	}
	return nil
}

// SortedKeys is a helper for deterministic reports.
func SortedKeys(m map[string]bool) []string {
	var r []string
	for k := range m {
		r = append(r, k)
	}
	sort.Strings(r)
	return r
}
