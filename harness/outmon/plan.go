package outmon

import (
	"bytes"
	"go/ast"
	"go/printer"
	"go/token"
	"go/types"
	"sort"
	"strings"
)

// Expr is a classified right-hand-side expression of a generated assignment.
type Expr struct {
	Op   string `json:"op"` // root field method conv call addr deref lit
	Name string `json:"name,omitempty"`
	X    *Expr  `json:"x,omitempty"`
	Text string `json:"text,omitempty"`
}

// Root returns the root variable name of a selector chain ("" if rooted in a literal).
func (e *Expr) Root() string {
	for x := e; x != nil; x = x.X {
		if x.Op == "root" {
			return x.Name
		}
		if x.Op == "lit" {
			return ""
		}
	}
	return ""
}

// PathString renders the member path below the root: "A.B().C".
func (e *Expr) PathString() string {
	var parts []string
	for x := e; x != nil; x = x.X {
		switch x.Op {
		case "field":
			parts = append(parts, x.Name)
		case "method":
			parts = append(parts, x.Name+"()")
		}
	}
	for i, j := 0, len(parts)-1; i < j; i, j = i+1, j-1 {
		parts[i], parts[j] = parts[j], parts[i]
	}
	return strings.Join(parts, ".")
}

// Has reports whether the expression tree contains an op (optionally with a name).
func (e *Expr) Has(op, name string) bool {
	for x := e; x != nil; x = x.X {
		if x.Op == op && (name == "" || x.Name == name) {
			return true
		}
	}
	return false
}

// Ops lists the ops outermost first.
func (e *Expr) Ops() []string {
	var r []string
	for x := e; x != nil; x = x.X {
		r = append(r, x.Op)
	}
	return r
}

// Item is one body item of a generated function.
type Item struct {
	Kind       string   `json:"kind"` // assign skip nomatch slice hook alloc nestinit return other
	Root       string   `json:"root,omitempty"`
	Path       []string `json:"path,omitempty"`
	RHS        *Expr    `json:"rhs,omitempty"`
	Text       string   `json:"text"`
	WithErr    bool     `json:"with_err,omitempty"`
	ErrChecked bool     `json:"err_checked,omitempty"`
	ErrReturn  string   `json:"err_return,omitempty"`
	Guards     []string `json:"guards,omitempty"`
	GuardX     []*Expr  `json:"guard_x,omitempty"`
	SliceMode  string   `json:"slice_mode,omitempty"` // copy loop cast
	SliceCast  string   `json:"slice_cast,omitempty"`
	SliceType  string   `json:"slice_type,omitempty"`
	HookFunc   string   `json:"hook_func,omitempty"`
	HookArgs   []string `json:"hook_args,omitempty"`
	Line       int      `json:"line"`
}

// PathStr joins the destination path.
func (it *Item) PathStr() string { return strings.Join(it.Path, ".") }

// Param is one parameter/result of a generated function.
type Param struct {
	Name string
	Type string     // printed type expression
	T    types.Type // nil when the type check failed
}

// FuncPlan is the observed plan of one generated function.
type FuncPlan struct {
	Name     string
	RecvName string
	RecvType string
	Recv     *Param
	Params   []Param
	Results  []Param
	Doc      []string
	Items    []Item
	Decl     *ast.FuncDecl
}

// Key is "RecvBase.Name" or "Name".
func (f *FuncPlan) Key() string {
	if f.RecvType != "" {
		return strings.TrimPrefix(f.RecvType, "*") + "." + f.Name
	}
	return f.Name
}

func nodeText(fset *token.FileSet, n ast.Node) string {
	var b bytes.Buffer
	_ = printer.Fprint(&b, fset, n)
	return b.String()
}

// ExtractPlans recovers the observed plan of every function declaration in file.
func ExtractPlans(fset *token.FileSet, file *ast.File, info *types.Info) []*FuncPlan {
	var plans []*FuncPlan
	for _, d := range file.Decls {
		fd, ok := d.(*ast.FuncDecl)
		if !ok {
			continue
		}
		plans = append(plans, extractFunc(fset, file, info, fd))
	}
	return plans
}

func fieldParams(fset *token.FileSet, info *types.Info, fl *ast.FieldList) []Param {
	var ps []Param
	if fl == nil {
		return nil
	}
	for _, f := range fl.List {
		ts := nodeText(fset, f.Type)
		var t types.Type
		if info != nil {
			if tv, ok := info.Types[f.Type]; ok {
				t = tv.Type
			}
		}
		if len(f.Names) == 0 {
			ps = append(ps, Param{Name: "", Type: ts, T: t})
		}
		for _, n := range f.Names {
			ps = append(ps, Param{Name: n.Name, Type: ts, T: t})
		}
	}
	return ps
}

func extractFunc(fset *token.FileSet, file *ast.File, info *types.Info, fd *ast.FuncDecl) *FuncPlan {
	fp := &FuncPlan{Name: fd.Name.Name, Decl: fd}
	if fd.Recv != nil && len(fd.Recv.List) == 1 {
		rp := fieldParams(fset, info, fd.Recv)
		if len(rp) == 1 {
			fp.Recv = &rp[0]
			fp.RecvName = rp[0].Name
			fp.RecvType = rp[0].Type
		}
	}
	fp.Params = fieldParams(fset, info, fd.Type.Params)
	fp.Results = fieldParams(fset, info, fd.Type.Results)
	if fd.Doc != nil {
		for _, c := range fd.Doc.List {
			fp.Doc = append(fp.Doc, c.Text)
		}
	}
	if fd.Body == nil {
		return fp
	}
	vars := map[string]bool{}
	if fp.Recv != nil {
		vars[fp.RecvName] = true
	}
	for _, p := range fp.Params {
		vars[p.Name] = true
	}
	for _, p := range fp.Results {
		vars[p.Name] = true
	}
	w := &walker{fset: fset, info: info, vars: vars}
	// comments inside the body
	for _, cg := range file.Comments {
		for _, c := range cg.List {
			if c.Pos() > fd.Body.Lbrace && c.End() <= fd.Body.Rbrace+1 {
				w.comments = append(w.comments, c)
			}
		}
	}
	w.walk(fd.Body.List, fd.Body.Lbrace, fd.Body.Rbrace, nil)
	fp.Items = w.items
	return fp
}

type walker struct {
	fset     *token.FileSet
	info     *types.Info
	vars     map[string]bool
	comments []*ast.Comment
	items    []Item
}

type guard struct {
	text string
	x    *Expr
}

func gTexts(gs []guard) []string {
	var r []string
	for _, g := range gs {
		r = append(r, g.text)
	}
	return r
}

func gExprs(gs []guard) []*Expr {
	var r []*Expr
	for _, g := range gs {
		r = append(r, g.x)
	}
	return r
}

type posNode struct {
	pos  token.Pos
	stmt ast.Stmt
	cmt  *ast.Comment
}

func (w *walker) walk(stmts []ast.Stmt, lo, hi token.Pos, guards []guard) {
	var nodes []posNode
	for _, s := range stmts {
		nodes = append(nodes, posNode{pos: s.Pos(), stmt: s})
	}
	for _, c := range w.comments {
		if c.Pos() <= lo || c.Pos() >= hi {
			continue
		}
		inside := false
		for _, s := range stmts {
			if c.Pos() >= s.Pos() && c.Pos() < s.End() {
				inside = true
				break
			}
		}
		if !inside {
			nodes = append(nodes, posNode{pos: c.Pos(), cmt: c})
		}
	}
	sort.SliceStable(nodes, func(i, j int) bool { return nodes[i].pos < nodes[j].pos })
	for _, n := range nodes {
		if n.cmt != nil {
			w.comment(n.cmt, guards)
			continue
		}
		w.stmt(n.stmt, guards)
	}
}

func (w *walker) line(p token.Pos) int { return w.fset.PositionFor(p, false).Line }

func (w *walker) comment(c *ast.Comment, guards []guard) {
	t := strings.TrimSpace(strings.TrimPrefix(c.Text, "//"))
	it := Item{Text: c.Text, Guards: gTexts(guards), GuardX: gExprs(guards), Line: w.line(c.Pos())}
	switch {
	case strings.HasPrefix(t, "skip:"):
		it.Kind = "skip"
		it.Root, it.Path = splitPath(strings.TrimSpace(strings.TrimPrefix(t, "skip:")))
	case strings.HasPrefix(t, "no match:"):
		it.Kind = "nomatch"
		it.Root, it.Path = splitPath(strings.TrimSpace(strings.TrimPrefix(t, "no match:")))
	default:
		it.Kind = "other"
	}
	w.items = append(w.items, it)
}

func splitPath(s string) (string, []string) {
	parts := strings.Split(s, ".")
	if len(parts) == 0 {
		return "", nil
	}
	return parts[0], parts[1:]
}

// lhsPath decomposes a selector chain x.A.B into root and path.
func lhsPath(e ast.Expr) (string, []string, bool) {
	var path []string
	for {
		switch x := e.(type) {
		case *ast.SelectorExpr:
			path = append([]string{x.Sel.Name}, path...)
			e = x.X
		case *ast.Ident:
			return x.Name, path, true
		case *ast.ParenExpr:
			e = x.X
		case *ast.StarExpr:
			e = x.X
		default:
			return "", nil, false
		}
	}
}

func isErrNilCheck(s ast.Stmt) (*ast.IfStmt, bool) {
	is, ok := s.(*ast.IfStmt)
	if !ok || is.Init != nil || is.Else != nil {
		return nil, false
	}
	be, ok := is.Cond.(*ast.BinaryExpr)
	if !ok || be.Op != token.NEQ {
		return nil, false
	}
	x, ok1 := be.X.(*ast.Ident)
	y, ok2 := be.Y.(*ast.Ident)
	if ok1 && ok2 && x.Name == "err" && y.Name == "nil" {
		return is, true
	}
	return nil, false
}

func (w *walker) stmt(s ast.Stmt, guards []guard) {
	text := nodeText(w.fset, s)
	base := Item{Text: text, Guards: gTexts(guards), GuardX: gExprs(guards), Line: w.line(s.Pos())}
	switch st := s.(type) {
	case *ast.ReturnStmt:
		base.Kind = "return"
		if len(st.Results) > 0 {
			base.ErrReturn = exprList(w.fset, st.Results)
		}
		w.items = append(w.items, base)
	case *ast.ExprStmt:
		if call, ok := st.X.(*ast.CallExpr); ok {
			base.Kind = "hook"
			base.HookFunc = nodeText(w.fset, call.Fun)
			for _, a := range call.Args {
				base.HookArgs = append(base.HookArgs, nodeText(w.fset, a))
			}
			w.items = append(w.items, base)
			return
		}
		base.Kind = "other"
		w.items = append(w.items, base)
	case *ast.AssignStmt:
		if st.Tok != token.ASSIGN || len(st.Rhs) != 1 || len(st.Lhs) < 1 || len(st.Lhs) > 2 {
			base.Kind = "other"
			w.items = append(w.items, base)
			return
		}
		if len(st.Lhs) == 2 {
			id, ok := st.Lhs[1].(*ast.Ident)
			if !ok || id.Name != "err" {
				base.Kind = "other"
				w.items = append(w.items, base)
				return
			}
			base.WithErr = true
		}
		// err = hook(...)
		if id, ok := st.Lhs[0].(*ast.Ident); ok && id.Name == "err" && len(st.Lhs) == 1 {
			if call, ok := st.Rhs[0].(*ast.CallExpr); ok {
				base.Kind = "hook"
				base.WithErr = true
				base.HookFunc = nodeText(w.fset, call.Fun)
				for _, a := range call.Args {
					base.HookArgs = append(base.HookArgs, nodeText(w.fset, a))
				}
				w.items = append(w.items, base)
				return
			}
		}
		root, path, ok := lhsPath(st.Lhs[0])
		if !ok {
			base.Kind = "other"
			w.items = append(w.items, base)
			return
		}
		base.Root, base.Path = root, path
		rhs := st.Rhs[0]
		// allocation forms: x = &T{} / x.P = &T{} / x.P = T{}
		if isCompositeAlloc(rhs) {
			if len(path) == 0 {
				base.Kind = "alloc"
			} else {
				base.Kind = "nestinit"
			}
			w.items = append(w.items, base)
			return
		}
		base.Kind = "assign"
		base.RHS = w.expr(rhs)
		w.items = append(w.items, base)
	case *ast.IfStmt:
		if is, ok := isErrNilCheck(s); ok {
			// attaches to the previous item
			ret := ""
			bare := false
			if len(is.Body.List) == 1 {
				if r, ok := is.Body.List[0].(*ast.ReturnStmt); ok {
					if len(r.Results) == 0 {
						bare = true
					} else {
						ret = exprList(w.fset, r.Results)
					}
				}
			}
			if n := len(w.items); n > 0 && (bare || ret != "") && w.items[n-1].WithErr && !w.items[n-1].ErrChecked {
				w.items[n-1].ErrChecked = true
				w.items[n-1].ErrReturn = ret
				return
			}
			base.Kind = "other"
			w.items = append(w.items, base)
			return
		}
		// nil guard?
		if st.Init == nil && st.Else == nil {
			if be, ok := st.Cond.(*ast.BinaryExpr); ok && be.Op == token.NEQ {
				if y, ok := be.Y.(*ast.Ident); ok && y.Name == "nil" {
					condText := nodeText(w.fset, be.X)
					if si, ok := w.sliceBlock(st, be.X, guards); ok {
						w.items = append(w.items, si)
						return
					}
					g := append(append([]guard{}, guards...), guard{text: condText, x: w.expr(be.X)})
					w.walk(st.Body.List, st.Body.Lbrace, st.Body.Rbrace, g)
					return
				}
			}
		}
		base.Kind = "other"
		w.items = append(w.items, base)
	default:
		base.Kind = "other"
		w.items = append(w.items, base)
	}
}

func exprList(fset *token.FileSet, es []ast.Expr) string {
	var parts []string
	for _, e := range es {
		parts = append(parts, nodeText(fset, e))
	}
	return strings.Join(parts, ", ")
}

func isCompositeAlloc(e ast.Expr) bool {
	switch x := e.(type) {
	case *ast.UnaryExpr:
		if x.Op == token.AND {
			_, ok := x.X.(*ast.CompositeLit)
			return ok
		}
	case *ast.CompositeLit:
		return len(x.Elts) == 0
	case *ast.StarExpr:
		// `*T{}` as produced for pointer-typed nested destinations
		_, ok := x.X.(*ast.CompositeLit)
		return ok
	}
	return false
}

// sliceBlock recognises
//
//	if RHS != nil { LHS = make(T, len(RHS)); copy(LHS, RHS) }
//	if RHS != nil { LHS = make(T, len(RHS)); for i, e := range RHS { LHS[i] = e | C(e) } }
func (w *walker) sliceBlock(is *ast.IfStmt, cond ast.Expr, guards []guard) (Item, bool) {
	var it Item
	if len(is.Body.List) != 2 {
		return it, false
	}
	as, ok := is.Body.List[0].(*ast.AssignStmt)
	if !ok || len(as.Lhs) != 1 || len(as.Rhs) != 1 || as.Tok != token.ASSIGN {
		return it, false
	}
	mk, ok := as.Rhs[0].(*ast.CallExpr)
	if !ok || len(mk.Args) != 2 {
		return it, false
	}
	if id, ok := mk.Fun.(*ast.Ident); !ok || id.Name != "make" {
		return it, false
	}
	lenCall, ok := mk.Args[1].(*ast.CallExpr)
	if !ok || len(lenCall.Args) != 1 {
		return it, false
	}
	if id, ok := lenCall.Fun.(*ast.Ident); !ok || id.Name != "len" {
		return it, false
	}
	condText := nodeText(w.fset, cond)
	if nodeText(w.fset, lenCall.Args[0]) != condText {
		return it, false
	}
	root, path, ok := lhsPath(as.Lhs[0])
	if !ok {
		return it, false
	}
	lhsText := nodeText(w.fset, as.Lhs[0])
	it = Item{Kind: "slice", Root: root, Path: path, Text: nodeText(w.fset, is), Guards: gTexts(guards), GuardX: gExprs(guards),
		Line: w.line(is.Pos()), RHS: w.expr(cond), SliceType: nodeText(w.fset, mk.Args[0])}
	switch s2 := is.Body.List[1].(type) {
	case *ast.ExprStmt:
		call, ok := s2.X.(*ast.CallExpr)
		if !ok || len(call.Args) != 2 {
			return it, false
		}
		if id, ok := call.Fun.(*ast.Ident); !ok || id.Name != "copy" {
			return it, false
		}
		if nodeText(w.fset, call.Args[0]) != lhsText || nodeText(w.fset, call.Args[1]) != condText {
			return it, false
		}
		it.SliceMode = "copy"
		return it, true
	case *ast.RangeStmt:
		if nodeText(w.fset, s2.X) != condText || len(s2.Body.List) != 1 {
			return it, false
		}
		k, ok1 := s2.Key.(*ast.Ident)
		v, ok2 := s2.Value.(*ast.Ident)
		if !ok1 || !ok2 {
			return it, false
		}
		ba, ok := s2.Body.List[0].(*ast.AssignStmt)
		if !ok || len(ba.Lhs) != 1 || len(ba.Rhs) != 1 {
			return it, false
		}
		ix, ok := ba.Lhs[0].(*ast.IndexExpr)
		if !ok || nodeText(w.fset, ix.X) != lhsText || nodeText(w.fset, ix.Index) != k.Name {
			return it, false
		}
		switch r := ba.Rhs[0].(type) {
		case *ast.Ident:
			if r.Name != v.Name {
				return it, false
			}
			it.SliceMode = "loop"
			return it, true
		case *ast.CallExpr:
			if len(r.Args) != 1 || nodeText(w.fset, r.Args[0]) != v.Name {
				return it, false
			}
			it.SliceMode = "cast"
			it.SliceCast = nodeText(w.fset, r.Fun)
			return it, true
		}
	}
	return it, false
}

// expr classifies a right-hand side.
func (w *walker) expr(e ast.Expr) *Expr {
	text := nodeText(w.fset, e)
	switch x := e.(type) {
	case *ast.ParenExpr:
		return w.expr(x.X)
	case *ast.Ident:
		if w.vars[x.Name] {
			return &Expr{Op: "root", Name: x.Name, Text: text}
		}
		return &Expr{Op: "lit", Text: text}
	case *ast.SelectorExpr:
		inner := w.expr(x.X)
		if inner.Op == "lit" {
			return &Expr{Op: "lit", Text: text}
		}
		return &Expr{Op: "field", Name: x.Sel.Name, X: inner, Text: text}
	case *ast.StarExpr:
		inner := w.expr(x.X)
		if inner.Op == "lit" {
			return &Expr{Op: "lit", Text: text}
		}
		return &Expr{Op: "deref", X: inner, Text: text}
	case *ast.UnaryExpr:
		if x.Op == token.AND {
			inner := w.expr(x.X)
			if inner.Op == "lit" {
				return &Expr{Op: "lit", Text: text}
			}
			return &Expr{Op: "addr", X: inner, Text: text}
		}
		return &Expr{Op: "lit", Text: text}
	case *ast.CallExpr:
		// method call on a chain rooted at a variable, no args
		if sel, ok := x.Fun.(*ast.SelectorExpr); ok && len(x.Args) == 0 {
			inner := w.expr(sel.X)
			if inner.Op != "lit" {
				return &Expr{Op: "method", Name: sel.Sel.Name, X: inner, Text: text}
			}
			return &Expr{Op: "lit", Text: text}
		}
		if len(x.Args) == 1 {
			inner := w.expr(x.Args[0])
			if inner.Op == "lit" {
				return &Expr{Op: "lit", Text: text}
			}
			funText := nodeText(w.fset, x.Fun)
			isType := false
			known := false
			if w.info != nil {
				if tv, ok := w.info.Types[x.Fun]; ok {
					known = true
					isType = tv.IsType()
				}
			}
			if !known {
				// heuristic without type information: basic type names and *T / (T) forms
				switch x.Fun.(type) {
				case *ast.StarExpr, *ast.ParenExpr, *ast.ArrayType, *ast.MapType, *ast.InterfaceType, *ast.ChanType, *ast.FuncType:
					isType = true
				}
				if types.Universe.Lookup(funText) != nil {
					if _, ok := types.Universe.Lookup(funText).(*types.TypeName); ok {
						isType = true
					}
				}
			}
			if isType {
				return &Expr{Op: "conv", Name: funText, X: inner, Text: text}
			}
			return &Expr{Op: "call", Name: funText, X: inner, Text: text}
		}
		return &Expr{Op: "lit", Text: text}
	default:
		return &Expr{Op: "lit", Text: text}
	}
}
