// Package outmon holds the monitors applied to every output the tool produced:
// gofmt fixpoint, type check inside the package, plan extraction, file structure.
package outmon

import (
	"bytes"
	"fmt"
	"go/ast"
	"go/build"
	"go/format"
	"go/importer"
	"go/parser"
	"go/token"
	"go/types"
	"io"
	"os"
	"path/filepath"
	"sort"
	"strings"
	"sync"
)

// GofmtClean reports whether src is a fixpoint of format.Source.
func GofmtClean(src []byte) (bool, string) {
	out, err := format.Source(src)
	if err != nil {
		return false, "does not parse: " + err.Error()
	}
	if !bytes.Equal(out, src) {
		return false, "format.Source changes the file"
	}
	return true, ""
}

// Loader type-checks packages of one scenario module from source.
// Module-local import paths are resolved below ModRoot; everything else through the
// standard library source importer (shared, guarded by a mutex).
type Loader struct {
	ModName string
	ModRoot string
	Tags    []string
	// Exclude: absolute file paths never loaded (e.g. the output file when loading the setup view)
	Exclude map[string]bool
	// Overlay: absolute path -> content replacing/adding files
	Overlay map[string][]byte

	Fset *token.FileSet
	mu   sync.Mutex
	pkgs map[string]*Loaded
}

// Loaded is one type-checked package.
type Loaded struct {
	Path  string
	Dir   string
	Pkg   *types.Package
	Info  *types.Info
	Files []*ast.File
	Names []string // file names parallel to Files
	Errs  []string
}

var (
	stdMu   sync.Mutex
	stdFset = token.NewFileSet()
	stdImp  types.Importer
)

func stdImport(path string) (*types.Package, error) {
	stdMu.Lock()
	defer stdMu.Unlock()
	if stdImp == nil {
		stdImp = importer.ForCompiler(stdFset, "source", nil)
	}
	return stdImp.Import(path)
}

// NewLoader creates a loader.
func NewLoader(modName, modRoot string, tags ...string) *Loader {
	return &Loader{ModName: modName, ModRoot: modRoot, Tags: tags, Fset: token.NewFileSet(),
		pkgs: map[string]*Loaded{}, Exclude: map[string]bool{}, Overlay: map[string][]byte{}}
}

// Import implements types.Importer.
func (l *Loader) Import(path string) (*types.Package, error) {
	if path == "unsafe" {
		return types.Unsafe, nil
	}
	if path == l.ModName || strings.HasPrefix(path, l.ModName+"/") {
		ld, err := l.Load(path)
		if err != nil {
			return nil, err
		}
		if ld.Pkg == nil {
			return nil, fmt.Errorf("package %s failed to load", path)
		}
		return ld.Pkg, nil
	}
	return stdImport(path)
}

func (l *Loader) dirOf(path string) string {
	rel := strings.TrimPrefix(strings.TrimPrefix(path, l.ModName), "/")
	return filepath.Join(l.ModRoot, rel)
}

// Load type-checks the package with the given import path (cached).
func (l *Loader) Load(path string) (*Loaded, error) {
	l.mu.Lock()
	if p, ok := l.pkgs[path]; ok {
		l.mu.Unlock()
		return p, nil
	}
	l.mu.Unlock()
	ld, err := l.loadDir(path, l.dirOf(path))
	if err != nil {
		return nil, err
	}
	l.mu.Lock()
	l.pkgs[path] = ld
	l.mu.Unlock()
	return ld, nil
}

func (l *Loader) loadDir(path, dir string) (*Loaded, error) {
	ctx := build.Default
	ctx.BuildTags = l.Tags
	ctx.CgoEnabled = false
	ents, err := os.ReadDir(dir)
	if err != nil {
		return nil, err
	}
	names := map[string]bool{}
	for _, e := range ents {
		if !e.IsDir() && strings.HasSuffix(e.Name(), ".go") && !strings.HasSuffix(e.Name(), "_test.go") {
			names[e.Name()] = true
		}
	}
	for p := range l.Overlay {
		if filepath.Dir(p) == dir {
			names[filepath.Base(p)] = true
		}
	}
	var sorted []string
	for n := range names {
		sorted = append(sorted, n)
	}
	sort.Strings(sorted)
	ld := &Loaded{Path: path, Dir: dir}
	for _, n := range sorted {
		full := filepath.Join(dir, n)
		if l.Exclude[full] {
			continue
		}
		var src []byte
		if o, ok := l.Overlay[full]; ok {
			src = o
		} else {
			src, err = os.ReadFile(full)
			if err != nil {
				return nil, err
			}
		}
		if !matchFile(&ctx, n, src) {
			continue
		}
		f, err := parser.ParseFile(l.Fset, full, src, parser.ParseComments)
		if err != nil {
			ld.Errs = append(ld.Errs, err.Error())
			if f == nil {
				continue
			}
		}
		ld.Files = append(ld.Files, f)
		ld.Names = append(ld.Names, n)
	}
	if len(ld.Files) == 0 {
		return ld, fmt.Errorf("no Go files for %s in %s", path, dir)
	}
	// go list refuses a directory with two package names: mirror that.
	pn := ld.Files[0].Name.Name
	for i, f := range ld.Files {
		if f.Name.Name != pn {
			ld.Errs = append(ld.Errs, fmt.Sprintf("found packages %s (%s) and %s (%s)", pn, ld.Names[0], f.Name.Name, ld.Names[i]))
		}
	}
	ld.Info = &types.Info{
		Types:      map[ast.Expr]types.TypeAndValue{},
		Defs:       map[*ast.Ident]types.Object{},
		Uses:       map[*ast.Ident]types.Object{},
		Selections: map[*ast.SelectorExpr]*types.Selection{},
	}
	conf := types.Config{
		Importer: l,
		Error: func(err error) {
			ld.Errs = append(ld.Errs, err.Error())
		},
		GoVersion: "go1.19",
	}
	pkg, _ := conf.Check(path, l.Fset, ld.Files, ld.Info)
	ld.Pkg = pkg
	return ld, nil
}

// matchFile evaluates build constraints of a file given as bytes.
func matchFile(ctx *build.Context, name string, src []byte) bool {
	c := *ctx
	c.OpenFile = func(path string) (io.ReadCloser, error) {
		return io.NopCloser(bytes.NewReader(src)), nil
	}
	ok, err := c.MatchFile("/nonexistent", name)
	if err != nil {
		return true
	}
	return ok
}

// CheckOutput type-checks the scenario package under the ordinary build with the given
// output bytes placed at outPath. It returns all diagnostics.
func CheckOutput(modName, modRoot, pkgPath, outPath string, out []byte) ([]string, *Loaded, *Loader) {
	l := NewLoader(modName, modRoot)
	if out != nil {
		l.Overlay[outPath] = out
	}
	ld, err := l.Load(pkgPath)
	if err != nil {
		return []string{err.Error()}, ld, l
	}
	return ld.Errs, ld, l
}
