// Package refmodel is an independent reference implementation of convergen's documented
// matching rules (README + properties C04/C05/C06), written over go/types objects of the
// scenario package loaded by the harness. It shares no code with convergen. For every
// destination leaf it yields MUST-ASSIGN{acceptable sources} / MUST-NOT-ASSIGN{skip|no-match}
// / EITHER (the documents leave it open).
package refmodel

import (
	"fmt"
	"go/types"
	"regexp"
	"strings"

	"vh/scen"
)

// Expect is the expectation for one destination leaf.
type Expect struct {
	Path    string   // destination path below the root
	Class   string   // assign | none | either
	Reason  string   // skip | no-match | (for either:) which E-region
	Sources []string // acceptable canonical source expressions (assign)
	// Governed says which rule decided: "skip", "conv", "map", "literal", "default"
	Governed string
	Type     types.Type
	Notes    []string
}

// node is a source expression.
type node struct {
	canon       string // canonical rendering, e.g. "src.A.B()"
	t           types.Type
	addressable bool
	viaGetter   bool
	retErr      bool
}

// Model computes expectations for one method.
type Model struct {
	Pkg     *types.Package
	Opts    scen.Opts
	Method  *scen.Method
	DstT    types.Type   // copy destination operand type (maybe pointer)
	SrcT    types.Type   // copy source operand type
	Extras  []types.Type // additional argument types
	Lookup  func(name string) *types.Signature
	skips   []skipPat
	explicit []explicitN
	Out     []*Expect
	// Hidden holds expectations for leaves the package cannot name (unexported members of foreign
	// structs) that nevertheless receive a value because an enclosing struct is copied as a whole.
	Hidden []*Expect
}

type skipPat struct {
	raw string
	re  *regexp.Regexp
	ok  bool
}

type explicitN struct {
	kind string // conv map literal
	dst  string
	src  string
	fn   string
	lit  string
	idx  int
}

// New builds the model for a method whose interface signature is sig.
func New(pkg *types.Package, o scen.Opts, m *scen.Method, sig *types.Signature, lookup func(string) *types.Signature) *Model {
	md := &Model{Pkg: pkg, Opts: o, Method: m, Lookup: lookup}
	first := sig.Params().At(0).Type()
	res := sig.Results().At(0).Type()
	if o.Reverse {
		md.DstT, md.SrcT = first, res
	} else {
		md.DstT, md.SrcT = res, first
	}
	for i := 1; i < sig.Params().Len(); i++ {
		md.Extras = append(md.Extras, sig.Params().At(i).Type())
	}
	for i, n := range m.Notations {
		switch n.Name {
		case "skip":
			if len(n.Args) > 0 {
				md.skips = append(md.skips, compileSkip(n.Args[0], o.Case))
			}
		case "map":
			if len(n.Args) >= 2 {
				md.explicit = append(md.explicit, explicitN{kind: "map", src: n.Args[0], dst: n.Args[1], idx: i})
			}
		case "conv":
			if len(n.Args) >= 2 {
				d := n.Args[1]
				if len(n.Args) >= 3 {
					d = n.Args[2]
				}
				md.explicit = append(md.explicit, explicitN{kind: "conv", fn: n.Args[0], src: n.Args[1], dst: d, idx: i})
			}
		case "literal":
			if len(n.Args) >= 2 {
				md.explicit = append(md.explicit, explicitN{kind: "literal", dst: n.Args[0], lit: strings.Join(n.Args[1:], " "), idx: i})
			}
		}
	}
	return md
}

// compileSkip follows the README: exact field path, or /regexp/ (RE2), case-insensitive when the
// case rule is off.
func compileSkip(arg string, exact bool) skipPat {
	sp := skipPat{raw: arg}
	var expr string
	if len(arg) >= 2 && strings.HasPrefix(arg, "/") && strings.HasSuffix(arg, "/") {
		expr = arg[1 : len(arg)-1]
	} else {
		expr = "^" + regexp.QuoteMeta(arg) + "$"
	}
	if !exact {
		expr = "(?i)" + expr
	}
	re, err := regexp.Compile(expr)
	if err == nil {
		sp.re, sp.ok = re, true
	}
	return sp
}

func (md *Model) skipped(path string) bool {
	for _, s := range md.skips {
		if !s.ok {
			continue
		}
		if len(s.raw) >= 2 && strings.HasPrefix(s.raw, "/") {
			if s.re.MatchString(path) {
				return true
			}
		} else {
			if md.Opts.Case && s.raw == path {
				return true
			}
			if !md.Opts.Case && strings.EqualFold(s.raw, path) {
				return true
			}
		}
	}
	return false
}

func deref(t types.Type) types.Type {
	if p, ok := t.Underlying().(*types.Pointer); ok {
		return p.Elem()
	}
	return t
}

func isPtr(t types.Type) bool {
	_, ok := t.Underlying().(*types.Pointer)
	return ok
}

func structOf(t types.Type) *types.Struct {
	s, _ := t.Underlying().(*types.Struct)
	return s
}

// accessible: can the scenario package refer to this member?
func (md *Model) accessible(obj types.Object) bool {
	if obj.Name() == "_" {
		return false // blank fields can be neither read nor assigned
	}
	return obj.Exported() || obj.Pkg() == nil || obj.Pkg() == md.Pkg || obj.Pkg().Path() == md.Pkg.Path()
}

func (md *Model) nameEq(a, b string) bool {
	if md.Opts.Case {
		return a == b
	}
	return strings.EqualFold(a, b)
}

// Run computes the expectations of all destination leaves.
func (md *Model) Run() []*Expect {
	dstStruct := deref(md.DstT)
	src := node{canon: "src", t: md.SrcT, addressable: true}
	if structOf(dstStruct) == nil || structOf(deref(md.SrcT)) == nil {
		return nil
	}
	md.structToStruct("", dstStruct, &src, "")
	return md.Out
}

func join(prefix, name string) string {
	if prefix == "" {
		return name
	}
	return prefix + "." + name
}

// hasNotationBelow reports whether a skip or explicit notation may address a strict descendant of path.
func (md *Model) hasNotationBelow(path string, t types.Type) bool {
	for _, e := range md.explicit {
		if strings.HasPrefix(e.dst, path+".") {
			return true
		}
	}
	if len(md.skips) == 0 {
		return false
	}
	// any accessible descendant leaf matched by a skip pattern?
	found := false
	var walk func(p string, t types.Type, depth int)
	walk = func(p string, t types.Type, depth int) {
		st := structOf(t)
		if st == nil || isPtr(t) || depth > 6 {
			return
		}
		for i := 0; i < st.NumFields(); i++ {
			f := st.Field(i)
			if !md.accessible(f) {
				continue
			}
			fp := join(p, f.Name())
			if md.skipped(fp) {
				found = true
				return
			}
			walk(fp, f.Type(), depth+1)
		}
	}
	walk(path, t, 0)
	return found
}

func (md *Model) emit(e *Expect) { md.Out = append(md.Out, e) }

// expandLeaves emits one expectation per accessible leaf below a whole-value expectation.
func (md *Model) expandLeaves(path string, t types.Type, mk func(leaf, rest string, lt types.Type) *Expect) {
	st := structOf(t)
	if st == nil || isPtr(t) {
		md.emit(mk(path, "", t))
		return
	}
	any := false
	var walk func(p, rest string, t types.Type, depth int)
	walk = func(p, rest string, t types.Type, depth int) {
		st := structOf(t)
		if st == nil || isPtr(t) || depth > 8 {
			md.emit(mk(p, rest, t))
			any = true
			return
		}
		n := 0
		for i := 0; i < st.NumFields(); i++ {
			f := st.Field(i)
			if !md.accessible(f) {
				continue
			}
			n++
			walk(join(p, f.Name()), rest+"."+f.Name(), f.Type(), depth+1)
		}
		if n == 0 {
			md.emit(mk(p, rest, t))
			any = true
		}
	}
	walk(path, "", t, 0)
	_ = any
}

// expandHidden emits the leaves below a by-value struct whose path runs through at least one member
// the package cannot name (blank fields excepted).
func (md *Model) expandHidden(path string, t types.Type, mk func(leaf, rest string, lt types.Type) *Expect) {
	if structOf(t) == nil || isPtr(t) {
		return
	}
	var walk func(p, rest string, t types.Type, hidden bool, depth int)
	walk = func(p, rest string, t types.Type, hidden bool, depth int) {
		st := structOf(t)
		if st == nil || isPtr(t) || depth > 8 || st.NumFields() == 0 {
			if hidden {
				md.Hidden = append(md.Hidden, mk(p, rest, t))
			}
			return
		}
		for i := 0; i < st.NumFields(); i++ {
			f := st.Field(i)
			if f.Name() == "_" {
				continue
			}
			walk(join(p, f.Name()), rest+"."+f.Name(), f.Type(), hidden || !md.accessible(f), depth+1)
		}
	}
	walk(path, "", t, false, 0)
}

// structToStruct matches every accessible member of the destination struct type dt (at path prefix).
// srcN is the source struct expression (nil = no source counterpart: only notations apply).
func (md *Model) structToStruct(prefix string, dt types.Type, srcN *node, eitherWhy string) {
	st := structOf(dt)
	n := 0
	for i := 0; i < st.NumFields(); i++ {
		f := st.Field(i)
		if !md.accessible(f) {
			continue
		}
		n++
		md.field(join(prefix, f.Name()), f, srcN, eitherWhy)
	}
	if n == 0 && prefix != "" {
		// a struct without accessible members is a leaf of its own
		if eitherWhy != "" {
			md.emit(&Expect{Path: prefix, Class: "either", Reason: eitherWhy, Governed: "default", Type: dt})
		} else {
			md.emit(&Expect{Path: prefix, Class: "none", Reason: "no-match", Governed: "default", Type: dt})
		}
	}
}

func (md *Model) field(path string, f *types.Var, srcN *node, eitherWhy string) {
	ft := f.Type()
	// M1: skip wins over everything
	if md.skipped(path) {
		md.expandLeaves(path, ft, func(leaf, rest string, lt types.Type) *Expect {
			return &Expect{Path: leaf, Class: "none", Reason: "skip", Governed: "skip", Type: lt}
		})
		return
	}
	// explicit notations naming exactly this path
	var named []explicitN
	for _, e := range md.explicit {
		if e.dst == path {
			named = append(named, e)
		}
	}
	if len(named) > 0 {
		md.explicitField(path, ft, named)
		return
	}
	if eitherWhy != "" {
		md.expandLeaves(path, ft, func(leaf, rest string, lt types.Type) *Expect {
			return &Expect{Path: leaf, Class: "either", Reason: eitherWhy, Governed: "default", Type: lt}
		})
		return
	}
	below := structOf(ft) != nil && !isPtr(ft) && md.hasNotationBelow(path, ft)
	n0 := len(md.Out)
	md.defaultMatch(path, f.Name(), ft, srcN, below)
	// a notation whose destination differs from this path only in case does NOT name it (":map"/":conv"/
	// ":literal" compare case-sensitively whatever the case rule): remember the near miss for the judges
	for _, e := range md.explicit {
		if e.dst != path && strings.EqualFold(e.dst, path) {
			for _, ex := range md.Out[n0:] {
				ex.Notes = append(ex.Notes, "near-miss-notation")
			}
			break
		}
	}
}

// cand is a name-match candidate.
type cand struct {
	n      node
	getter bool
}

// candidates lists the directly declared accessible members of the source struct whose name equals
// name under the case rule: getters first (when :getter), then fields. promoted reports whether only a
// promoted member would match (E-a).
func (md *Model) candidates(srcN *node, name string) (cs []cand, promoted bool) {
	base := deref(srcN.t)
	srcIsPtr := isPtr(srcN.t)
	if md.Opts.Match != "name" {
		return nil, false
	}
	if md.Opts.Getter {
		if named, ok := base.(*types.Named); ok {
			for i := 0; i < named.NumMethods(); i++ {
				m := named.Method(i)
				sig := m.Type().(*types.Signature)
				if sig.Params().Len() != 0 || sig.Results().Len() != 1 || isErrorType(sig.Results().At(0).Type()) {
					continue
				}
				if !md.accessible(m) || !md.nameEq(name, m.Name()) {
					continue
				}
				// offered per Go: pointer-receiver methods need a pointer or an addressable operand
				if isPtr(sig.Recv().Type()) && !srcIsPtr && !srcN.addressable {
					continue
				}
				cs = append(cs, cand{getter: true, n: node{canon: srcN.canon + "." + m.Name() + "()", t: sig.Results().At(0).Type(), addressable: false, viaGetter: true}})
			}
		}
	}
	if st := structOf(base); st != nil {
		for i := 0; i < st.NumFields(); i++ {
			fl := st.Field(i)
			if !md.accessible(fl) || !md.nameEq(name, fl.Name()) {
				continue
			}
			cs = append(cs, cand{n: node{canon: srcN.canon + "." + fl.Name(), t: fl.Type(), addressable: srcN.addressable || srcIsPtr}})
		}
	}
	if len(cs) == 0 {
		// promoted member?
		obj, idx, _ := types.LookupFieldOrMethod(srcN.t, true, md.Pkg, name)
		if obj != nil && len(idx) > 1 {
			promoted = true
		}
		if !md.Opts.Case && !promoted {
			// case-insensitive promoted lookup: walk embedded structs one level
			if st := structOf(base); st != nil {
				for i := 0; i < st.NumFields(); i++ {
					if fl := st.Field(i); fl.Embedded() {
						if es := structOf(deref(fl.Type())); es != nil {
							for j := 0; j < es.NumFields(); j++ {
								if strings.EqualFold(es.Field(j).Name(), name) {
									promoted = true
								}
							}
						}
					}
				}
			}
		}
	}
	return cs, promoted
}

func isErrorType(t types.Type) bool {
	return types.Identical(t, types.Universe.Lookup("error").Type())
}

var stringT = types.Typ[types.String]

// stringerOffered: does the expression offer String() string in the Go sense?
func (md *Model) stringerOffered(n *node) bool {
	obj, _, indirect := types.LookupFieldOrMethod(n.t, n.addressable || isPtr(n.t), md.Pkg, "String")
	fn, ok := obj.(*types.Func)
	if !ok {
		return false
	}
	_ = indirect
	sig := fn.Type().(*types.Signature)
	if sig.Params().Len() != 0 || sig.Results().Len() != 1 || !types.Identical(sig.Results().At(0).Type(), stringT) {
		return false
	}
	if !md.accessible(fn) {
		return false
	}
	// only methods of named (non-interface) types count as "a custom type with a String() method"
	if _, isIface := deref(n.t).Underlying().(*types.Interface); isIface {
		return false
	}
	return true
}

// versionDependentConv: slice -> array (pointer) conversions exist only from go1.17/go1.20 on.
func versionDependentConv(from, to types.Type) bool {
	if _, ok := from.Underlying().(*types.Slice); !ok {
		return false
	}
	switch u := to.Underlying().(type) {
	case *types.Array:
		return true
	case *types.Pointer:
		_, ok := u.Elem().Underlying().(*types.Array)
		return ok
	}
	return false
}

// stringerPtrRecv: is the offered String method declared with a pointer receiver?
func (md *Model) stringerPtrRecv(n *node) bool {
	obj, _, _ := types.LookupFieldOrMethod(n.t, true, md.Pkg, "String")
	if fn, ok := obj.(*types.Func); ok {
		return isPtr(fn.Type().(*types.Signature).Recv().Type())
	}
	return false
}

func sliceElem(t types.Type) types.Type {
	if s, ok := t.Underlying().(*types.Slice); ok {
		return s.Elem()
	}
	return nil
}

// fit describes how a source node can be assigned to a destination type.
type fit struct {
	sources []string
	either  string
	notes   []string
}

// fits computes the acceptable canonical sources for assigning n to type dt (nil = does not fit).
func (md *Model) fits(n *node, dt types.Type) *fit {
	// M4: slices
	if de, se := sliceElem(dt), sliceElem(n.t); de != nil && se != nil {
		if types.AssignableTo(se, de) {
			return &fit{sources: []string{"slicecopy(" + n.canon + ")", n.canon}}
		}
		if md.Opts.Typecast && types.ConvertibleTo(se, de) {
			return &fit{sources: []string{"slicecast(" + n.canon + ")"}}
		}
	}
	if types.AssignableTo(n.t, dt) {
		return &fit{sources: []string{n.canon}}
	}
	var srcs, notes []string
	strOK := md.Opts.Stringer && types.AssignableTo(stringT, dt) && md.stringerOffered(n)
	castOK := md.Opts.Typecast && types.ConvertibleTo(n.t, dt)
	if castOK && versionDependentConv(n.t, dt) {
		return &fit{either: "conversion whose legality depends on the language version (slice to array)"}
	}
	if strOK {
		srcs = append(srcs, n.canon+".String()")
		if md.stringerPtrRecv(n) {
			notes = append(notes, "stringer-ptr-recv")
		}
	}
	if castOK {
		srcs = append(srcs, "cast("+n.canon+")")
		switch deref(dt).(type) {
		case *types.Named, *types.Basic:
		default:
			notes = append(notes, "typecast-to-unnamed-composite")
		}
	}
	if len(srcs) > 0 {
		return &fit{sources: srcs, notes: notes} // E-b: when both apply either is acceptable
	}
	// E-h: only a chain String() + typecast would reach it
	if md.Opts.Stringer && md.Opts.Typecast && md.stringerOffered(n) && types.ConvertibleTo(stringT, dt) {
		return &fit{either: "E-h conversion chain"}
	}
	return nil
}

func (md *Model) defaultMatch(path, name string, ft types.Type, srcN *node, below bool) {
	noMatch := func(why string) {
		md.expandLeaves(path, ft, func(leaf, rest string, lt types.Type) *Expect {
			// leaves below that have their own notation/skip were handled by descent; here nothing below
			return &Expect{Path: leaf, Class: "none", Reason: "no-match", Governed: "default", Type: lt, Notes: []string{why}}
		})
	}
	if srcN == nil {
		if below {
			md.structToStruct(path, ft, nil, "")
			return
		}
		noMatch("no source counterpart")
		return
	}
	cs, promoted := md.candidates(srcN, name)
	if len(cs) == 0 {
		if promoted {
			md.expandLeaves(path, ft, func(leaf, rest string, lt types.Type) *Expect {
				return &Expect{Path: leaf, Class: "either", Reason: "E-a promoted member", Governed: "default", Type: lt}
			})
			return
		}
		if below {
			md.structToStruct(path, ft, nil, "")
			return
		}
		noMatch("no candidate")
		return
	}
	// fitting candidates: a fitting getter excludes fields
	var fitG, fitF []*fit
	var candG, candF []*cand
	var either string
	for i := range cs {
		f := md.fits(&cs[i].n, ft)
		if f == nil {
			continue
		}
		if f.either != "" {
			either = f.either
			continue
		}
		if cs[i].getter {
			fitG = append(fitG, f)
			candG = append(candG, &cs[i])
		} else {
			fitF = append(fitF, f)
			candF = append(candF, &cs[i])
		}
	}
	chosen, chosenC := fitG, candG
	if len(chosen) == 0 {
		chosen, chosenC = fitF, candF
	}
	if len(chosen) > 0 && len(cs) > 1 && structOf(ft) != nil && !isPtr(ft) {
		// several name-equal candidates, one fits directly while another by-value struct candidate of a
		// different type allows member-wise matching: the documents do not rank the two rules.
		for i := range cs {
			if md.fits(&cs[i].n, ft) == nil && structOf(cs[i].n.t) != nil && !isPtr(cs[i].n.t) {
				md.markEitherBelow(path, ft, "direct fit and member-wise candidate compete")
				return
			}
		}
	}
	if len(chosen) > 0 {
		var srcs, notes []string
		for _, f := range chosen {
			srcs = append(srcs, f.sources...)
			notes = append(notes, f.notes...)
		}
		if below {
			// a notation addresses a member of this struct: the member-wise view is required; the
			// members without their own notation are matched against the members of the matched source
			// by the ordinary rules (a slice member is copied element-wise, case twins compete, ...).
			if len(chosenC) == 1 && structOf(chosenC[0].n.t) != nil && !isPtr(chosenC[0].n.t) {
				md.structToStruct(path, ft, &chosenC[0].n, "")
				return
			}
			md.markEitherBelow(path, ft, "several fitting candidates for a struct that has to be matched member-wise")
			return
		}
		md.expandLeaves(path, ft, func(leaf, rest string, lt types.Type) *Expect {
			return &Expect{Path: leaf, Class: "assign", Sources: withRest(srcs, rest), Governed: "default", Type: lt, Notes: notes}
		})
		md.expandHidden(path, ft, func(leaf, rest string, lt types.Type) *Expect {
			return &Expect{Path: leaf, Class: "assign", Sources: withRest(srcs, rest), Governed: "default", Type: lt,
				Notes: append(append([]string{}, notes...), "hidden member of a struct copied as a whole")}
		})
		return
	}
	if either != "" {
		md.expandLeaves(path, ft, func(leaf, rest string, lt types.Type) *Expect {
			return &Expect{Path: leaf, Class: "either", Reason: either, Governed: "default", Type: lt}
		})
		return
	}
	// no fitting candidate: member-wise descent for by-value structs of different types
	dstStruct := structOf(ft) != nil && !isPtr(ft)
	var structCands []cand
	ptrStruct := false
	for _, c := range cs {
		if structOf(c.n.t) != nil && !isPtr(c.n.t) {
			structCands = append(structCands, c)
		}
		if isPtr(c.n.t) && structOf(deref(c.n.t)) != nil {
			ptrStruct = true
		}
	}
	if (isPtr(ft) && structOf(deref(ft)) != nil && (len(structCands) > 0 || ptrStruct)) || (dstStruct && ptrStruct && len(structCands) == 0) {
		// E-c, narrowed in round 7: the property assigns a field "if and only if" a candidate fits, and exempts
		// only BY-VALUE struct fields of different struct types (matched member by member). A pointer on either
		// side is not by-value: no candidate fits, so the field is not assigned. (Descent through pointers is an
		// upstream TODO; it was classed EITHER before and is judged by the statement's wording now.)
		if !below {
			noMatch("no fitting candidate (struct pointer on one side: not matched member by member)")
			return
		}
		md.markEitherBelow(path, ft, "E-c pointer-to-struct without fitting candidate, notation below")
		return
	}
	if dstStruct && len(structCands) == 1 && len(cs) == 1 {
		c := structCands[0]
		md.structToStruct(path, ft, &c.n, "")
		return
	}
	if dstStruct && len(structCands) >= 1 {
		md.markEitherBelow(path, ft, "several name-equal candidates, none fits directly")
		return
	}
	if below {
		md.structToStruct(path, ft, nil, "")
		return
	}
	noMatch("no fitting candidate")
}

// markEitherBelow marks all leaves below path EITHER, except those governed by skip/explicit notations.
func (md *Model) markEitherBelow(path string, ft types.Type, why string) {
	if structOf(ft) != nil && !isPtr(ft) {
		md.structToStruct(path, ft, nil, why)
		return
	}
	md.emit(&Expect{Path: path, Class: "either", Reason: why, Governed: "default", Type: ft})
}

func withRest(srcs []string, rest string) []string {
	if rest == "" {
		return srcs
	}
	out := make([]string, 0, len(srcs))
	for _, s := range srcs {
		out = append(out, NormalizeRest(s+rest))
	}
	return out
}

// NormalizeRest: a member of a converted struct has the value of the member of the unconverted one.
var reCastRest = regexp.MustCompile(`^cast\(([^()]*)\)(\..+)$`)

func NormalizeRest(s string) string {
	if m := reCastRest.FindStringSubmatch(s); m != nil {
		return m[1] + m[2]
	}
	return s
}

func (md *Model) String() string {
	var sb strings.Builder
	for _, e := range md.Out {
		fmt.Fprintf(&sb, "%s: %s %s %v [%s]\n", e.Path, e.Class, e.Reason, e.Sources, e.Governed)
	}
	return sb.String()
}
