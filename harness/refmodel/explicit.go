package refmodel

import (
	"go/parser"
	"go/printer"
	"go/token"
	"go/types"
	"strconv"
	"strings"
)

// resolve follows an explicit source path ("A.B().C", "$2.X") from the operands.
func (md *Model) resolve(expr string) *node {
	segs := strings.Split(expr, ".")
	if len(segs) == 0 || segs[0] == "" {
		return nil
	}
	cur := node{canon: "src", t: md.SrcT, addressable: true}
	start := 0
	if strings.HasPrefix(segs[0], "$") {
		k, err := strconv.Atoi(segs[0][1:])
		if err != nil || k < 1 {
			return nil
		}
		if k == 1 {
			// $1 denotes the source operand
		} else {
			if k-2 >= len(md.Extras) {
				return nil
			}
			cur = node{canon: "x" + strconv.Itoa(k-2), t: md.Extras[k-2], addressable: true}
		}
		start = 1
	}
	for i := start; i < len(segs); i++ {
		seg := segs[i]
		last := i == len(segs)-1
		isCall := strings.HasSuffix(seg, "()")
		name := strings.TrimSuffix(seg, "()")
		if name == "" || strings.ContainsAny(name, "()") {
			return nil
		}
		obj, _, _ := types.LookupFieldOrMethod(cur.t, true, md.Pkg, name)
		if obj == nil || !md.accessible(obj) {
			return nil
		}
		if isCall {
			fn, ok := obj.(*types.Func)
			if !ok {
				return nil
			}
			sig := fn.Type().(*types.Signature)
			if sig.Params().Len() != 0 {
				return nil
			}
			retErr := false
			switch sig.Results().Len() {
			case 1:
			case 2:
				if !isErrorType(sig.Results().At(1).Type()) {
					return nil
				}
				retErr = true
			default:
				return nil
			}
			if retErr && !last {
				return nil
			}
			if isPtr(sig.Recv().Type()) && !isPtr(cur.t) && !cur.addressable {
				return nil // not in the method set of a non-addressable value
			}
			cur = node{canon: cur.canon + "." + name + "()", t: sig.Results().At(0).Type(), addressable: false, viaGetter: true, retErr: retErr}
		} else {
			v, ok := obj.(*types.Var)
			if !ok {
				return nil
			}
			cur = node{canon: cur.canon + "." + name, t: v.Type(), addressable: cur.addressable || isPtr(cur.t)}
		}
	}
	return &cur
}

// fitsPlain is fits without the slice-copy rule (explicit notations assign as written).
func (md *Model) fitsPlain(n *node, dt types.Type) *fit {
	if types.AssignableTo(n.t, dt) {
		return &fit{sources: []string{n.canon}}
	}
	var srcs, notes []string
	if md.Opts.Typecast && types.ConvertibleTo(n.t, dt) && versionDependentConv(n.t, dt) {
		return &fit{either: "conversion whose legality depends on the language version (slice to array)"}
	}
	if md.Opts.Stringer && types.AssignableTo(stringT, dt) && md.stringerOffered(n) {
		srcs = append(srcs, n.canon+".String()")
		if md.stringerPtrRecv(n) {
			notes = append(notes, "stringer-ptr-recv")
		}
	}
	if md.Opts.Typecast && types.ConvertibleTo(n.t, dt) {
		srcs = append(srcs, "cast("+n.canon+")")
		switch deref(dt).(type) {
		case *types.Named, *types.Basic:
		default:
			notes = append(notes, "typecast-to-unnamed-composite")
		}
	}
	if len(srcs) > 0 {
		return &fit{sources: srcs, notes: notes}
	}
	if md.Opts.Stringer && md.Opts.Typecast && md.stringerOffered(n) && types.ConvertibleTo(stringT, dt) {
		return &fit{either: "E-h conversion chain"}
	}
	return nil
}

// explicitField computes the expectation of a path named by :conv/:map/:literal.
func (md *Model) explicitField(path string, ft types.Type, named []explicitN) {
	var srcs, notes []string
	either := ""
	failed := 0
	gov := named[0].kind
	for _, e := range named {
		switch e.kind {
		case "literal":
			srcs = append(srcs, "lit:"+CanonLit(e.lit))
		case "map":
			n := md.resolve(e.src)
			if n == nil {
				failed++
				continue
			}
			if n.retErr && !md.Method.HasErr {
				either = "error-returning getter in a method without error (must be rejected)"
				continue
			}
			f := md.fitsPlain(n, ft)
			if f == nil {
				failed++
				continue
			}
			if f.either != "" {
				either = f.either
				continue
			}
			if n.retErr && !(len(f.sources) == 1 && f.sources[0] == n.canon) {
				// (T, error) fits only through String()/a conversion: not expressible as one two-valued
				// assignment; "no match" and a form with a temporary are both within the property (C01
				// decides whether what is emitted compiles)
				either = "value returned together with an error needs a conversion"
				continue
			}
			srcs = append(srcs, f.sources...)
			notes = append(notes, f.notes...)
		case "conv":
			var sig *types.Signature
			if md.Lookup != nil {
				sig = md.Lookup(e.fn)
			}
			if sig == nil || sig.Params().Len() != 1 || sig.Results().Len() < 1 {
				either = "converter not resolved by the model"
				continue
			}
			n := md.resolve(e.src)
			if n == nil {
				failed++
				continue
			}
			if n.retErr {
				failed++ // an error-returning getter cannot feed a converter
				continue
			}
			pt := sig.Params().At(0).Type()
			var args []string
			if f := md.fitsPlain(n, pt); f != nil && f.either == "" {
				args = f.sources
				notes = append(notes, f.notes...)
			} else if f != nil {
				either = f.either
				continue
			} else if isPtr(pt) {
				if f2 := md.fitsPlain(n, deref(pt)); f2 != nil && f2.either == "" {
					if !n.addressable {
						either = "address of a non-addressable converter argument"
						continue
					}
					for _, s := range f2.sources {
						if s == n.canon {
							args = append(args, "&"+s)
						}
					}
					if len(args) == 0 {
						// the source fits the pointee type only through a conversion or String(): its
						// address cannot be taken, and what the notation denotes then is not documented
						either = "address of a converted converter argument"
						continue
					}
					notes = append(notes, f2.notes...)
				}
			} else if isPtr(n.t) {
				dn := node{canon: "*" + n.canon, t: deref(n.t), addressable: true}
				if f2 := md.fitsPlain(&dn, pt); f2 != nil {
					either = "converter takes T, source is *T: dereference adaptation is undocumented"
					continue
				}
			}
			if len(args) == 0 {
				failed++
				continue
			}
			ok := false
			for _, a := range args {
				cn := node{canon: e.fn + "(" + a + ")", t: sig.Results().At(0).Type()}
				if f := md.fitsPlain(&cn, ft); f != nil {
					if f.either != "" {
						either = f.either
						continue
					}
					if sig.Results().Len() > 1 && !(len(f.sources) == 1 && f.sources[0] == cn.canon) {
						either = "value returned together with an error needs a conversion"
						continue
					}
					srcs = append(srcs, f.sources...)
					notes = append(notes, f.notes...)
					ok = true
				}
			}
			if !ok && either == "" {
				failed++
			}
		}
	}
	mk := func(class, reason string, alsoNone bool) {
		md.expandLeaves(path, ft, func(leaf, rest string, lt types.Type) *Expect {
			e := &Expect{Path: leaf, Class: class, Reason: reason, Governed: gov, Type: lt}
			if class == "assign" {
				e.Sources = withRest(srcs, rest)
				e.Notes = append(e.Notes, notes...)
				if alsoNone {
					e.Notes = append(e.Notes, "also-none")
				}
			}
			return e
		})
	}
	switch {
	case either != "":
		mk("either", either, false)
	case len(srcs) > 0 && failed == 0:
		mk("assign", "", false)
	case len(srcs) > 0:
		mk("assign", "", true) // several notations name the path and only some resolve: property does not rank them
	default:
		mk("none", "no-match", false)
	}
}

// AlsoNone reports whether "no match" is acceptable as well.
func (e *Expect) AlsoNone() bool {
	for _, n := range e.Notes {
		if n == "also-none" {
			return true
		}
	}
	return false
}

// CanonLit renders literal text canonically: as go/printer prints the expression when the text
// parses as one (white space inside string literals is content and stays), else with all white
// space removed.
func CanonLit(text string) string {
	if x, err := parser.ParseExpr(text); err == nil {
		var sb strings.Builder
		if printer.Fprint(&sb, token.NewFileSet(), x) == nil && !strings.Contains(sb.String(), "\n") {
			return sb.String()
		}
	}
	return strings.Join(strings.Fields(text), "")
}
