package fsmon

import (
	"bufio"
	"fmt"
	"io"
	"path/filepath"
	"strconv"
	"strings"
)

// TraceSet is the strace -e trace= expression: everything that takes a path, the fd-based
// writers, and process creation/exec (to build the process tree).
const TraceSet = "%file,write,pwrite64,writev,pwritev,pwritev2,ftruncate,fallocate,fchmod,fchown,copy_file_range,sendfile," +
	"clone,clone3,fork,vfork,execve"

// StraceWrap is the command prefix that runs a tool under strace, writing the trace to outFile.
// -y decorates every fd (and AT_FDCWD) with the path it refers to, so relative paths and
// fd-based writes can be resolved from the trace alone.
func StraceWrap(outFile string) []string {
	return []string{"strace", "-f", "-qq", "-y", "-o", outFile, "-e", "trace=" + TraceSet}
}

// Call is one (completed or interrupted) system call of the trace.
type Call struct {
	Tid        int
	Name       string
	Args       []string
	Ret        string // text after " = "
	RetVal     int64
	Failed     bool // returned -1
	Incomplete bool // never returned (the thread died inside it, or a successful execve printed without result)
	Line       int  // line number of the (first part of the) call in the trace
	Raw        string
}

// Trace is a parsed strace -f output.
type Trace struct {
	Calls   []Call
	Root    int          // tid of the first line: the traced program itself
	Parent  map[int]int  // tid -> creating tid
	Thread  map[int]bool // tid was created with CLONE_THREAD
	Seen    map[int]bool // every tid that appears
	Garbage []string     // lines that could not be parsed
}

// ParseTrace reads strace -f -o output.
func ParseTrace(r io.Reader) (*Trace, error) {
	t := &Trace{Parent: map[int]int{}, Thread: map[int]bool{}, Seen: map[int]bool{}}
	type pend struct {
		text string
		line int
	}
	pending := map[int]pend{}
	sc := bufio.NewScanner(r)
	sc.Buffer(make([]byte, 1<<20), 1<<26)
	ln := 0
	for sc.Scan() {
		ln++
		line := sc.Text()
		i := 0
		for i < len(line) && line[i] >= '0' && line[i] <= '9' {
			i++
		}
		if i == 0 || i >= len(line) || (line[i] != ' ' && line[i] != '\t') {
			if strings.TrimSpace(line) != "" {
				t.Garbage = append(t.Garbage, line)
			}
			continue
		}
		tid, _ := strconv.Atoi(line[:i])
		rest := strings.TrimLeft(line[i:], " \t")
		if t.Root == 0 {
			t.Root = tid
		}
		t.Seen[tid] = true
		switch {
		case strings.HasPrefix(rest, "---") || strings.HasPrefix(rest, "+++"):
			continue
		case strings.HasPrefix(rest, "<... "):
			j := strings.Index(rest, " resumed>")
			if j < 0 {
				t.Garbage = append(t.Garbage, line)
				continue
			}
			p, ok := pending[tid]
			if !ok {
				t.Garbage = append(t.Garbage, line)
				continue
			}
			delete(pending, tid)
			full := p.text + rest[j+len(" resumed>"):]
			t.add(tid, full, p.line)
		case strings.HasSuffix(rest, "<unfinished ...>"):
			pending[tid] = pend{strings.TrimSuffix(rest, "<unfinished ...>"), ln}
		default:
			t.add(tid, rest, ln)
		}
	}
	if err := sc.Err(); err != nil {
		return t, err
	}
	for tid, p := range pending {
		c := parseCall(tid, p.text, p.line)
		c.Incomplete = true
		t.Calls = append(t.Calls, c)
	}
	// process tree
	for _, c := range t.Calls {
		switch c.Name {
		case "clone", "clone3", "fork", "vfork":
			if c.Incomplete || c.Failed || c.RetVal <= 0 {
				continue
			}
			child := int(c.RetVal)
			t.Parent[child] = c.Tid
			if (c.Name == "clone" || c.Name == "clone3") && strings.Contains(strings.Join(c.Args, ","), "CLONE_THREAD") {
				t.Thread[child] = true
			}
		}
	}
	return t, nil
}

func (t *Trace) add(tid int, text string, line int) {
	t.Calls = append(t.Calls, parseCall(tid, text, line))
}

func parseCall(tid int, text string, line int) Call {
	c := Call{Tid: tid, Line: line, Raw: text}
	op := strings.IndexByte(text, '(')
	if op < 0 {
		c.Name = strings.TrimSpace(text)
		c.Incomplete = true
		return c
	}
	c.Name = text[:op]
	body := text[op+1:]
	// the result follows the last ")<spaces>= " (strace pads the ")" with spaces)
	found := false
	for end := len(body); end > 0; {
		k := strings.LastIndex(body[:end], " = ")
		if k < 0 {
			break
		}
		head := strings.TrimRight(body[:k], " ")
		if strings.HasSuffix(head, ")") {
			c.Args = splitArgs(head[:len(head)-1])
			c.Ret = strings.TrimSpace(body[k+3:])
			found = true
			break
		}
		end = k
	}
	if !found {
		c.Args = splitArgs(body)
		c.Incomplete = true
		return c
	}
	j := 0
	for j < len(c.Ret) && (c.Ret[j] == '-' || c.Ret[j] >= '0' && c.Ret[j] <= '9') {
		j++
	}
	if j == 0 {
		c.Incomplete = c.Ret == "?"
		return c
	}
	c.RetVal, _ = strconv.ParseInt(c.Ret[:j], 10, 64)
	c.Failed = c.RetVal == -1
	return c
}

// splitArgs splits an argument list at top-level commas, respecting quoted strings,
// brackets/braces/parentheses and the <path> decoration that -y appends to descriptors.
func splitArgs(s string) []string {
	var args []string
	depth := 0
	start := 0
	inStr := false
	inFd := false
	for i := 0; i < len(s); i++ {
		ch := s[i]
		switch {
		case inStr:
			if ch == '\\' {
				i++
			} else if ch == '"' {
				inStr = false
			}
		case inFd:
			if ch == '>' && (i+1 == len(s) || s[i+1] == ',' || s[i+1] == ')' || s[i+1] == ']' || s[i+1] == '}' || s[i+1] == ' ') {
				inFd = false
			}
		case ch == '"':
			inStr = true
		case ch == '<' && i > 0 && (s[i-1] >= '0' && s[i-1] <= '9' || s[i-1] == 'D'):
			inFd = true
		case ch == '(' || ch == '[' || ch == '{':
			depth++
		case ch == ')' || ch == ']' || ch == '}':
			if depth > 0 {
				depth--
			}
		case ch == ',' && depth == 0:
			args = append(args, strings.TrimSpace(s[start:i]))
			start = i + 1
		}
	}
	if strings.TrimSpace(s[start:]) != "" || len(args) > 0 {
		args = append(args, strings.TrimSpace(s[start:]))
	}
	return args
}

// unquote decodes a strace string literal; ok=false if the argument is not a string (NULL, address).
func unquote(a string) (string, bool) {
	if len(a) < 2 || a[0] != '"' {
		return "", false
	}
	var sb strings.Builder
	for i := 1; i < len(a); i++ {
		ch := a[i]
		if ch == '"' {
			return sb.String(), true
		}
		if ch != '\\' || i+1 >= len(a) {
			sb.WriteByte(ch)
			continue
		}
		i++
		switch a[i] {
		case 'n':
			sb.WriteByte('\n')
		case 't':
			sb.WriteByte('\t')
		case 'r':
			sb.WriteByte('\r')
		case 'v':
			sb.WriteByte('\v')
		case 'f':
			sb.WriteByte('\f')
		case 'x':
			if i+2 < len(a) {
				if v, err := strconv.ParseUint(a[i+1:i+3], 16, 8); err == nil {
					sb.WriteByte(byte(v))
					i += 2
				}
			}
		case '0', '1', '2', '3', '4', '5', '6', '7':
			j := i
			for j < len(a) && j < i+3 && a[j] >= '0' && a[j] <= '7' {
				j++
			}
			v, _ := strconv.ParseUint(a[i:j], 8, 16)
			sb.WriteByte(byte(v))
			i = j - 1
		default:
			sb.WriteByte(a[i])
		}
	}
	return sb.String(), true
}

// fdArg splits "3</some/path>" / "AT_FDCWD</cwd>" / "3" into the number (-100 for AT_FDCWD,
// -1 if unknown) and the decoration ("" if absent).
func fdArg(a string) (int, string) {
	num := a
	deco := ""
	if i := strings.IndexByte(a, '<'); i >= 0 && strings.HasSuffix(a, ">") {
		num = a[:i]
		deco = strings.TrimSuffix(a[i+1:len(a)-1], " (deleted)")
	}
	if num == "AT_FDCWD" {
		return -100, deco
	}
	n, err := strconv.Atoi(num)
	if err != nil {
		return -1, deco
	}
	return n, deco
}

// Event is one write-class system call issued by the tool itself.
type Event struct {
	Tid     int      `json:"tid"`
	Syscall string   `json:"syscall"`
	Paths   []string `json:"paths"` // absolute, cleaned paths the call creates/modifies/removes (or an fd decoration such as "pipe:[7]")
	Flags   string   `json:"flags,omitempty"`
	FD      int      `json:"fd"` // descriptor for fd-based calls, else -1
	OK      bool     `json:"ok"` // the call succeeded
	Ret     string   `json:"ret"`
	Creat   bool     `json:"creat,omitempty"`
	Trunc   bool     `json:"trunc,omitempty"`
	Line    int      `json:"line"`
}

func (e Event) String() string {
	return fmt.Sprintf("line %d tid %d %s(%s%s) = %s", e.Line, e.Tid, e.Syscall, strings.Join(e.Paths, ", "), map[bool]string{true: " " + e.Flags, false: ""}[e.Flags != ""], e.Ret)
}

// ToolTids computes which tids belong to the traced program itself: the root and threads
// created (transitively) by it with CLONE_THREAD. Everything created without CLONE_THREAD is
// another process (fork/exec of a child such as `go list`), and so are its descendants.
func (t *Trace) ToolTids() map[int]bool {
	tool := map[int]bool{t.Root: true}
	var is func(tid int, depth int) bool
	is = func(tid int, depth int) bool {
		if v, ok := tool[tid]; ok {
			return v
		}
		if depth > 64 {
			return false
		}
		p, ok := t.Parent[tid]
		v := ok && t.Thread[tid] && is(p, depth+1)
		tool[tid] = v
		return v
	}
	for tid := range t.Seen {
		is(tid, 0)
	}
	return tool
}

// Orphans lists tids that appear in the trace without a recorded creator (other than the root).
func (t *Trace) Orphans() []int {
	var o []int
	for tid := range t.Seen {
		if tid == t.Root {
			continue
		}
		if _, ok := t.Parent[tid]; !ok {
			o = append(o, tid)
		}
	}
	return o
}

var writeOpenFlags = []string{"O_WRONLY", "O_RDWR", "O_CREAT", "O_TRUNC", "O_APPEND", "O_TMPFILE"}

func isWriteOpen(flags string) bool {
	for _, f := range strings.FieldsFunc(flags, func(r rune) bool { return r == '|' || r == ' ' }) {
		for _, w := range writeOpenFlags {
			if f == w {
				return true
			}
		}
	}
	return false
}

func hasFlag(flags, name string) bool {
	for _, f := range strings.FieldsFunc(flags, func(r rune) bool { return r == '|' || r == ' ' }) {
		if f == name {
			return true
		}
	}
	return false
}

// pathSpec says where the paths of a path-based write-class syscall are: pairs of
// (index of the dirfd argument or -1, index of the path argument).
type pathSpec struct{ dirfd, path int }

var writeSyscalls = map[string][]pathSpec{
	"creat":        {{-1, 0}},
	"rename":       {{-1, 0}, {-1, 1}},
	"renameat":     {{0, 1}, {2, 3}},
	"renameat2":    {{0, 1}, {2, 3}},
	"unlink":       {{-1, 0}},
	"unlinkat":     {{0, 1}},
	"rmdir":        {{-1, 0}},
	"mkdir":        {{-1, 0}},
	"mkdirat":      {{0, 1}},
	"mknod":        {{-1, 0}},
	"mknodat":      {{0, 1}},
	"link":         {{-1, 1}},
	"linkat":       {{2, 3}},
	"symlink":      {{-1, 1}},
	"symlinkat":    {{1, 2}},
	"truncate":     {{-1, 0}},
	"chmod":        {{-1, 0}},
	"fchmodat":     {{0, 1}},
	"fchmodat2":    {{0, 1}},
	"chown":        {{-1, 0}},
	"lchown":       {{-1, 0}},
	"fchownat":     {{0, 1}},
	"utime":        {{-1, 0}},
	"utimes":       {{-1, 0}},
	"futimesat":    {{0, 1}},
	"utimensat":    {{0, 1}},
	"setxattr":     {{-1, 0}},
	"lsetxattr":    {{-1, 0}},
	"removexattr":  {{-1, 0}},
	"lremovexattr": {{-1, 0}},
}

var fdWriteSyscalls = map[string]bool{
	"write": true, "pwrite64": true, "writev": true, "pwritev": true, "pwritev2": true,
	"ftruncate": true, "fallocate": true, "fchmod": true, "fchown": true,
}

// ToolWriteEvents extracts the write-class system calls issued by the tool's own threads,
// in trace order. cwd is the tool's initial working directory (used only when the trace
// carries no -y decoration for AT_FDCWD). A tid stops being "the tool" once it has
// successfully exec'd another program (the root's first execve is the tool's own start).
func (t *Trace) ToolWriteEvents(cwd string) []Event {
	tool := t.ToolTids()
	rootStarted := false
	gone := map[int]bool{} // tids that exec'd away
	var evs []Event
	resolve := func(c Call, ps pathSpec) (string, bool) {
		if ps.path >= len(c.Args) {
			return "", false
		}
		base := cwd
		if ps.dirfd >= 0 && ps.dirfd < len(c.Args) {
			n, deco := fdArg(c.Args[ps.dirfd])
			switch {
			case deco != "":
				base = deco
			case n == -100:
				base = cwd
			default:
				base = fmt.Sprintf("/?fd%d", n)
			}
		}
		p, ok := unquote(c.Args[ps.path])
		if !ok {
			// NULL path: the call operates on the dirfd itself (utimensat(fd, NULL, ...))
			if ps.dirfd >= 0 {
				return filepath.Clean(base), true
			}
			return "", false
		}
		if p == "" {
			return filepath.Clean(base), true
		}
		if filepath.IsAbs(p) {
			return filepath.Clean(p), true
		}
		return filepath.Clean(filepath.Join(base, p)), true
	}
	for _, c := range t.Calls {
		if !tool[c.Tid] || gone[c.Tid] {
			continue
		}
		if c.Name == "execve" || c.Name == "execveat" {
			if !c.Failed && (c.RetVal == 0 || c.Incomplete) {
				if c.Tid == t.Root && !rootStarted {
					rootStarted = true
				} else {
					gone[c.Tid] = true
				}
			}
			continue
		}
		if c.Name == "chdir" && !c.Failed && len(c.Args) > 0 {
			if p, ok := unquote(c.Args[0]); ok {
				if filepath.IsAbs(p) {
					cwd = filepath.Clean(p)
				} else {
					cwd = filepath.Clean(filepath.Join(cwd, p))
				}
			}
			continue
		}
		ok := !c.Failed && !c.Incomplete
		switch {
		case c.Name == "open" || c.Name == "openat" || c.Name == "openat2":
			ps := pathSpec{-1, 0}
			fi := 1
			if c.Name != "open" {
				ps = pathSpec{0, 1}
				fi = 2
			}
			if fi >= len(c.Args) {
				continue
			}
			flags := c.Args[fi]
			if c.Name == "openat2" {
				// {flags=O_WRONLY|O_CREAT, mode=0644, resolve=...}
				if i := strings.Index(flags, "flags="); i >= 0 {
					flags = flags[i+6:]
					if j := strings.IndexAny(flags, ",}"); j >= 0 {
						flags = flags[:j]
					}
				}
			}
			if !isWriteOpen(flags) {
				continue
			}
			p, pok := resolve(c, ps)
			if !pok {
				p = "?"
			}
			evs = append(evs, Event{Tid: c.Tid, Syscall: c.Name, Paths: []string{p}, Flags: flags, FD: -1, OK: ok, Ret: c.Ret,
				Creat: hasFlag(flags, "O_CREAT") || hasFlag(flags, "O_TMPFILE"), Trunc: hasFlag(flags, "O_TRUNC"), Line: c.Line})
		case writeSyscalls[c.Name] != nil:
			var paths []string
			for _, ps := range writeSyscalls[c.Name] {
				p, pok := resolve(c, ps)
				if !pok {
					p = "?"
				}
				paths = append(paths, p)
			}
			evs = append(evs, Event{Tid: c.Tid, Syscall: c.Name, Paths: paths, FD: -1, OK: ok, Ret: c.Ret, Line: c.Line})
		case fdWriteSyscalls[c.Name] || c.Name == "copy_file_range" || c.Name == "sendfile":
			ai := 0
			if c.Name == "copy_file_range" {
				ai = 2 // (fd_in, off_in, fd_out, ...)
			}
			if ai >= len(c.Args) {
				continue
			}
			n, deco := fdArg(c.Args[ai])
			p := deco
			if p == "" {
				p = fmt.Sprintf("/?fd%d", n)
			} else if filepath.IsAbs(p) {
				p = filepath.Clean(p)
			}
			evs = append(evs, Event{Tid: c.Tid, Syscall: c.Name, Paths: []string{p}, FD: n, OK: ok, Ret: c.Ret, Line: c.Line})
		}
	}
	return evs
}

// NotAFile says whether a path named by an event is not a file-system modification by the
// property's meaning: the null and terminal devices and the non-path decorations strace
// prints for pipes, sockets and anonymous inodes.
func NotAFile(p string) bool {
	switch {
	case p == "/dev/null" || p == "/dev/tty" || p == "/dev/stdout" || p == "/dev/stderr" || p == "/dev/stdin" || p == "/dev/ptmx":
		return true
	case strings.HasPrefix(p, "/dev/pts/"):
		return true
	case strings.HasPrefix(p, "pipe:") || strings.HasPrefix(p, "socket:") || strings.HasPrefix(p, "anon_inode:") ||
		strings.HasPrefix(p, "UNIX:") || strings.HasPrefix(p, "TCP:") || strings.HasPrefix(p, "UDP:") || strings.HasPrefix(p, "NETLINK:"):
		return true
	}
	return false
}
