// Package fsmon is the file-system frame monitor (DESIGN §2 E6): whole-tree snapshots with
// content hashes, their differences, the immutable-flag helper used to produce really
// unwritable output states, and a parser for strace output that attributes write-class
// system calls to the traced tool itself (as opposed to the processes it spawns).
package fsmon

import (
	"crypto/sha256"
	"encoding/hex"
	"fmt"
	"io"
	"os"
	"path/filepath"
	"sort"
	"strings"
	"syscall"
)

// Entry is what is recorded about one path.
type Entry struct {
	Type string `json:"type"` // file | dir | symlink | other
	Mode uint32 `json:"mode"` // permission bits + setuid/setgid/sticky
	Size int64  `json:"size,omitempty"`
	Sum  string `json:"sha256,omitempty"` // regular files
	Link string `json:"link,omitempty"`   // symlink target
	Err  string `json:"err,omitempty"`    // could not be read
	// informational only (never part of a verdict): identity and time of last modification
	Ino   uint64 `json:"-"`
	Mtime int64  `json:"-"`
}

// Same says whether two entries agree on everything a verdict may depend on:
// type, mode, and (regular files) size+content, (symlinks) target.
func (a Entry) Same(b Entry) bool {
	return a.Type == b.Type && a.Mode == b.Mode && a.Size == b.Size && a.Sum == b.Sum && a.Link == b.Link && a.Err == b.Err
}

func (a Entry) String() string {
	switch a.Type {
	case "file":
		return fmt.Sprintf("file mode=%04o size=%d sha256=%.12s", a.Mode, a.Size, a.Sum)
	case "symlink":
		return fmt.Sprintf("symlink -> %s", a.Link)
	}
	s := fmt.Sprintf("%s mode=%04o", a.Type, a.Mode)
	if a.Err != "" {
		s += " err=" + a.Err
	}
	return s
}

// Snapshot maps paths to entries. Paths below Root are keyed by their slash-separated
// path relative to Root ("." is the root itself); extra paths outside Root are keyed by
// their absolute path. A path that does not exist has no entry.
type Snapshot struct {
	Root    string
	Entries map[string]Entry
}

func statEntry(p string) (Entry, bool) {
	fi, err := os.Lstat(p)
	if err != nil {
		if os.IsNotExist(err) || isNotDir(err) {
			return Entry{}, false
		}
		return Entry{Type: "other", Err: err.Error()}, true
	}
	e := Entry{Mode: uint32(fi.Mode().Perm())}
	if fi.Mode()&os.ModeSetuid != 0 {
		e.Mode |= 0o4000
	}
	if fi.Mode()&os.ModeSetgid != 0 {
		e.Mode |= 0o2000
	}
	if fi.Mode()&os.ModeSticky != 0 {
		e.Mode |= 0o1000
	}
	if st, ok := fi.Sys().(*syscall.Stat_t); ok {
		e.Ino = st.Ino
	}
	e.Mtime = fi.ModTime().UnixNano()
	switch {
	case fi.Mode().IsRegular():
		e.Type = "file"
		e.Size = fi.Size()
		f, err := os.Open(p)
		if err != nil {
			e.Err = err.Error()
			break
		}
		h := sha256.New()
		if _, err := io.Copy(h, f); err != nil {
			e.Err = err.Error()
		}
		f.Close()
		e.Sum = hex.EncodeToString(h.Sum(nil))
	case fi.IsDir():
		e.Type = "dir"
	case fi.Mode()&os.ModeSymlink != 0:
		e.Type = "symlink"
		e.Mode = 0
		e.Link, _ = os.Readlink(p)
	default:
		e.Type = "other"
	}
	return e, true
}

func isNotDir(err error) bool {
	if pe, ok := err.(*os.PathError); ok {
		return pe.Err == syscall.ENOTDIR
	}
	return false
}

// Take records every path under root (not following symlinks) plus the given extra
// paths (and, when an extra path is a directory, everything below it).
func Take(root string, extra ...string) (*Snapshot, error) {
	s := &Snapshot{Root: filepath.Clean(root), Entries: map[string]Entry{}}
	if err := s.walk(s.Root); err != nil {
		return nil, err
	}
	for _, x := range extra {
		x = filepath.Clean(x)
		if s.Inside(x) {
			continue
		}
		if err := s.walk(x); err != nil {
			return nil, err
		}
	}
	return s, nil
}

// Inside says whether the absolute path p lies in the snapshot's root tree.
func (s *Snapshot) Inside(p string) bool {
	return p == s.Root || strings.HasPrefix(p, s.Root+string(filepath.Separator))
}

// Key returns the snapshot key of an absolute path.
func (s *Snapshot) Key(abs string) string {
	abs = filepath.Clean(abs)
	if s.Inside(abs) {
		r, err := filepath.Rel(s.Root, abs)
		if err == nil {
			return filepath.ToSlash(r)
		}
	}
	return abs
}

func (s *Snapshot) walk(top string) error {
	e, ok := statEntry(top)
	if !ok {
		return nil
	}
	s.Entries[s.Key(top)] = e
	if e.Type != "dir" {
		return nil
	}
	ents, err := os.ReadDir(top)
	if err != nil {
		x := s.Entries[s.Key(top)]
		x.Err = err.Error()
		s.Entries[s.Key(top)] = x
		return nil
	}
	for _, d := range ents {
		if err := s.walk(filepath.Join(top, d.Name())); err != nil {
			return err
		}
	}
	return nil
}

// Get returns the entry of an absolute path (ok=false: the path does not exist).
func (s *Snapshot) Get(abs string) (Entry, bool) {
	e, ok := s.Entries[s.Key(abs)]
	return e, ok
}

// Change is one difference between two snapshots.
type Change struct {
	Path   string `json:"path"` // snapshot key
	Kind   string `json:"kind"` // created | deleted | content | mode | type | link | unreadable
	Before *Entry `json:"before,omitempty"`
	After  *Entry `json:"after,omitempty"`
	// Rewritten is informational: same content and mode but a different inode or mtime.
}

func (c Change) String() string {
	b, a := "absent", "absent"
	if c.Before != nil {
		b = c.Before.String()
	}
	if c.After != nil {
		a = c.After.String()
	}
	return fmt.Sprintf("%s %s: %s => %s", c.Kind, c.Path, b, a)
}

// Diff lists created, deleted and modified paths (content, mode, type, symlink target;
// never times), sorted by path.
func Diff(before, after *Snapshot) []Change {
	var out []Change
	for k, b := range before.Entries {
		b := b
		a, ok := after.Entries[k]
		if !ok {
			out = append(out, Change{Path: k, Kind: "deleted", Before: &b})
			continue
		}
		if b.Same(a) {
			continue
		}
		a2 := a
		kind := "content"
		switch {
		case a.Type != b.Type:
			kind = "type"
		case a.Err != b.Err:
			kind = "unreadable"
		case a.Link != b.Link:
			kind = "link"
		case a.Sum != b.Sum || a.Size != b.Size:
			kind = "content"
		case a.Mode != b.Mode:
			kind = "mode"
		}
		out = append(out, Change{Path: k, Kind: kind, Before: &b, After: &a2})
	}
	for k, a := range after.Entries {
		if _, ok := before.Entries[k]; !ok {
			a := a
			out = append(out, Change{Path: k, Kind: "created", After: &a})
		}
	}
	sort.Slice(out, func(i, j int) bool { return out[i].Path < out[j].Path })
	return out
}

// Rewritten lists regular files whose content and mode are identical in both snapshots but
// whose inode or modification time differ (rewritten with the same bytes, or touched).
// Informational: the frame oracle decides on content, mode, type and existence only.
func Rewritten(before, after *Snapshot) []string {
	var out []string
	for k, b := range before.Entries {
		a, ok := after.Entries[k]
		if ok && b.Type == "file" && b.Same(a) && (a.Ino != b.Ino || a.Mtime != b.Mtime) {
			out = append(out, k)
		}
	}
	sort.Strings(out)
	return out
}
