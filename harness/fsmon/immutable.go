package fsmon

import (
	"os"
	"path/filepath"
	"sync"
	"syscall"
	"unsafe"
)

// ioctl numbers of FS_IOC_GETFLAGS / FS_IOC_SETFLAGS (64-bit Linux) and the immutable bit
// (what `chattr +i` sets).
const (
	fsIocGetFlags = 0x80086601
	fsIocSetFlags = 0x40086602
	fsImmutableFl = 0x00000010
)

func getFlags(p string) (int32, error) {
	f, err := os.OpenFile(p, os.O_RDONLY|syscall.O_NONBLOCK|syscall.O_NOFOLLOW, 0)
	if err != nil {
		return 0, err
	}
	defer f.Close()
	var fl int32
	if _, _, e := syscall.Syscall(syscall.SYS_IOCTL, f.Fd(), fsIocGetFlags, uintptr(unsafe.Pointer(&fl))); e != 0 {
		return 0, e
	}
	return fl, nil
}

func setFlags(p string, fl int32) error {
	f, err := os.OpenFile(p, os.O_RDONLY|syscall.O_NONBLOCK|syscall.O_NOFOLLOW, 0)
	if err != nil {
		return err
	}
	defer f.Close()
	if _, _, e := syscall.Syscall(syscall.SYS_IOCTL, f.Fd(), fsIocSetFlags, uintptr(unsafe.Pointer(&fl))); e != 0 {
		return e
	}
	return nil
}

// Immutables remembers which paths were made immutable so that they can always be released.
type Immutables struct {
	mu    sync.Mutex
	paths map[string]bool
}

// NewImmutables creates an empty registry.
func NewImmutables() *Immutables { return &Immutables{paths: map[string]bool{}} }

// Set makes a file or directory immutable (chattr +i).
func (im *Immutables) Set(p string) error {
	fl, err := getFlags(p)
	if err != nil {
		return err
	}
	im.mu.Lock()
	im.paths[p] = true
	im.mu.Unlock()
	return setFlags(p, fl|fsImmutableFl)
}

// Clear removes the immutable flag (chattr -i).
func (im *Immutables) Clear(p string) error {
	fl, err := getFlags(p)
	if err != nil {
		if os.IsNotExist(err) {
			im.forget(p)
		}
		return err
	}
	if fl&fsImmutableFl != 0 {
		if err := setFlags(p, fl&^fsImmutableFl); err != nil {
			return err
		}
	}
	im.forget(p)
	return nil
}

func (im *Immutables) forget(p string) {
	im.mu.Lock()
	delete(im.paths, p)
	im.mu.Unlock()
}

// ClearAll releases everything still registered.
func (im *Immutables) ClearAll() {
	im.mu.Lock()
	var ps []string
	for p := range im.paths {
		ps = append(ps, p)
	}
	im.mu.Unlock()
	for _, p := range ps {
		_ = im.Clear(p)
	}
}

// IsImmutable reports whether the immutable flag is set on p.
func IsImmutable(p string) bool {
	fl, err := getFlags(p)
	return err == nil && fl&fsImmutableFl != 0
}

// SweepTree clears the immutable flag on every file and directory below root (a safety net
// independent of the registry) and returns how many flags it had to clear. Immutable
// directories are released before their children are visited.
func SweepTree(root string) int {
	n := 0
	var walk func(p string)
	walk = func(p string) {
		fi, err := os.Lstat(p)
		if err != nil || fi.Mode()&os.ModeSymlink != 0 {
			return
		}
		if !fi.IsDir() && !fi.Mode().IsRegular() {
			return
		}
		if fl, err := getFlags(p); err == nil && fl&fsImmutableFl != 0 {
			if setFlags(p, fl&^fsImmutableFl) == nil {
				n++
			}
		}
		if fi.IsDir() {
			ents, _ := os.ReadDir(p)
			for _, d := range ents {
				walk(filepath.Join(p, d.Name()))
			}
		}
	}
	walk(root)
	return n
}
