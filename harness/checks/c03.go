package checks

import (
	"fmt"
	"sort"
	"strings"

	"vh/core"
	"vh/scen"
)

func init() { Registry["C03"] = RunC03 }

// stderrClass maps the first diagnostic line to a coarse class (path and numbers stripped).
func stderrClass(stderr string) string {
	for _, l := range strings.Split(stderr, "\n") {
		l = strings.TrimSpace(l)
		if l == "" || strings.Contains(l, ": no assignment ") || strings.Contains(l, "is not implemented(yet)") {
			continue
		}
		if m := rePosAny.FindStringIndex(l); m != nil {
			l = l[m[1]:]
		}
		l = reDigits.ReplaceAllString(l, "N")
		l = reIdent.ReplaceAllString(l, "X")
		if len(l) > 90 {
			l = l[:90]
		}
		return l
	}
	return "<empty>"
}

// judgeC03 applies the acceptance oracle to an in-convention case.
func judgeC03(rep *core.Report, c *CaseResult) {
	s := c.S
	rep.Eval(1)
	if !s.InConv {
		return
	}
	if c.Run.TimedOut {
		rep.Inconclusive("tool watchdog: " + s.ID)
		return
	}
	feat := map[string]string{}
	for k, v := range s.Features {
		if strings.HasPrefix(k, "layout.") || k == "reject_hint" {
			feat[k] = v
		}
	}
	if c.Run.Exit != 0 {
		feat["stderr"] = stderrClass(c.Run.Stderr)
		sym := "rejected"
		if c.Run.Crashed() {
			sym = "crashed"
		}
		rep.Violate(&core.Violation{Property: "C03", Monitor: "acceptance", Symptom: sym, Features: feat, Case: s.ID,
			Detail: fmt.Sprintf("well-formed setup file rejected (exit %d): %s", c.Run.Exit, core.Trunc(c.Run.Stderr, 600)), Files: c.ReplayFiles()})
		return
	}
	if c.OutFile == nil {
		rep.Inconclusive("output not parsed: " + s.ID)
		return
	}
	want := ExpectedFuncKeys(s)
	wantSet := map[string]int{}
	for _, k := range want {
		wantSet[k]++
	}
	gotSet := map[string]int{}
	for _, p := range c.PlanList {
		if _, ok := wantSet[p.Key()]; ok {
			gotSet[p.Key()]++
		}
	}
	var missing, dup []string
	for k, n := range wantSet {
		if gotSet[k] < n {
			missing = append(missing, k)
		} else if gotSet[k] > n {
			dup = append(dup, k)
		}
	}
	sort.Strings(missing)
	sort.Strings(dup)
	if len(missing) > 0 || len(dup) > 0 {
		rep.Violate(&core.Violation{Property: "C03", Monitor: "function-multiset", Symptom: "function-set-mismatch", Features: feat, Case: s.ID,
			Detail: fmt.Sprintf("missing functions %v, duplicated %v", missing, dup), Files: c.ReplayFiles()})
		return
	}
	rep.Count("accepted", 1)
	rep.Count("functions_seen", len(want))
}

// RunC03 is the check for C03.
func RunC03(e *core.Env) int {
	rep := core.NewReport(e, "exploration",
		"in-convention setup files only: (a) layout profile - trivial struct pairs with the variation in method-name lengths 1..40, 0..40 methods, comments in every slot, blank lines, adjacent/far interfaces, "+
			"go:generate forms, documented notations in valid form; (b) the broad profile's in-convention scenarios. Oracle: exit 0 and the multiset of (receiver,name) of generated functions equals the methods of all converter interfaces. "+
			"distinct non-trivial = distinct layout vector (layout profile) or distinct (notation set, signature shape) (broad profile) of accepted files")
	rep.Assume("scenario generators mark as in-convention only files that follow the README conventions (converter interface on its own, struct operands, valid notations naming existing functions of acceptable shape)")
	nLayout, nBroad := 1200, 300
	if e.Tier == "thorough" {
		nLayout, nBroad = 20000, 4000
	}
	judge := func(c *CaseResult) {
		judgeC03(rep, c)
		if c.Run.Exit == 0 && c.S.InConv {
			rep.Distinct(layoutKey(c.S))
			rep.Sample(map[string]any{"case": c.S.ID, "setup": core.Trunc(c.S.Files[c.S.Setup], 1000), "functions": ExpectedFuncKeys(c.S)}, 2)
		}
	}
	// fixed valid uses of functions reached through the setup file's imports (dot import, blank import of a
	// package named unlike its directory, blank import in front of a same-named ordinary one)
	if cb, err := NewBatch(e, "validuses", corpusImportedFuncs("kc03")); err == nil {
		cb.RunTool(e, true)
		for _, c := range cb.Cases {
			c.S.Features["layout.vector"] = "corpus:" + c.S.ID
			judge(c)
		}
	} else {
		rep.Inconclusive("batch setup: " + err.Error())
	}
	runBroadBatches(e, rep, "layout", nLayout, 300, judge)
	runBroadBatches(e, rep, "broad", nBroad, 150, judge)
	return rep.Finish()
}

func layoutKey(s *scen.Scenario) string {
	if v, ok := s.Features["layout.vector"]; ok {
		return "L:" + v
	}
	// broad: notation names + shapes
	var parts []string
	for _, m := range s.AllMethods() {
		var ns []string
		for _, n := range m.Notations {
			ns = append(ns, n.Name)
		}
		sort.Strings(ns)
		parts = append(parts, fmt.Sprintf("%s|x%d|e%v|%v%v", strings.Join(ns, ","), len(m.Extras), m.HasErr, strings.HasPrefix(m.Src.Type, "*"), strings.HasPrefix(m.Dst.Type, "*")))
	}
	sort.Strings(parts)
	return "B:" + strings.Join(parts, ";")
}
