package checks

// C13 — output is a deterministic function of sources and flags.
//
// Every scenario is run in N fresh processes with varied environment, scheduling, working
// directory and spelling of the input path. Runs with identical argv+cwd form a group.
// Oracle: within a group all (exit, stdout, stderr, output bytes) tuples are byte-identical;
// across groups exit status and output bytes are identical and stderr is identical after
// the absolute module root / input path and the group's spelling of the input path are
// replaced by canonical tokens.

import (
	"fmt"
	"math/rand"
	"os"
	"os/exec"
	"path/filepath"
	"sort"
	"strings"
	"sync"
	"syscall"
	"time"

	"vh/core"
	"vh/scen"
)

func init() { Registry["C13"] = RunC13 }

// c13Scen is one input of the determinism check.
type c13Scen struct {
	ID       string
	Kind     string // broad | many-methods | two-ifaces | broken | ext-* (hand-written import tables)
	PkgRel   string
	SetupRel string
	Files    map[string]string
	NMethods int
}

// c13Group is one (cwd, spelling) class. Dry groups run `-dry -print` on the shared module
// directory (output = stdout); the write group runs without flags on private copies.
type c13Group struct {
	Name  string
	Write bool
	Log   bool
}

var c13Groups = []c13Group{
	{"pkgdir-rel", false, false},      // cwd = package dir, "setup.go"
	{"modroot-rel", false, false},     // cwd = module root, "<pkg>/setup.go"
	{"sibling-rel", false, false},     // cwd = sibling dir, "../<pkg>/setup.go"
	{"abs-inside", false, false},      // absolute path, cwd = another directory of the same module
	{"abs-outside", false, false},     // absolute path, cwd = a directory outside the module
	{"abs-modroot", false, false},     // absolute path, cwd = module root (an ancestor of the input file)
	{"abs-deleted-cwd", false, false}, // absolute path, started from a directory that no longer exists
	{"abs-via-symlink", false, false}, // absolute path that runs through a symbolic link to the module root, cwd outside the module
	{"write", true, false},            // cwd = package dir of a private copy, "setup.go", really writing
	// really writing with -log; the first and the last process of this group are started at least 1.1 s
	// apart (different wall-clock seconds), with everything else of the scenario in between
	{"write-log", true, true},
}

// spec returns argv[1:], cwd and the spelling of the input path.
func (g c13Group) spec(root, outside string, sc *c13Scen) (args []string, dir, spelling string) {
	abs := filepath.Join(root, sc.SetupRel)
	base := filepath.Base(sc.SetupRel)
	switch g.Name {
	case "modroot-rel":
		spelling, dir = sc.SetupRel, root
	case "sibling-rel":
		spelling, dir = "../"+sc.SetupRel, filepath.Join(root, "vtr")
	case "abs-inside":
		spelling, dir = abs, filepath.Join(root, "ext")
	case "abs-outside":
		spelling, dir = abs, outside
	case "abs-modroot":
		spelling, dir = abs, root
	case "abs-deleted-cwd":
		spelling, dir = abs, outside // (the runner replaces the working directory, see runOne)
	case "abs-via-symlink":
		spelling, dir = filepath.Join(root+"-lnk", sc.SetupRel), outside
	default:
		spelling, dir = base, filepath.Join(root, sc.PkgRel)
	}
	if g.Log {
		return []string{"-log", spelling}, dir, spelling
	}
	if g.Write {
		return []string{spelling}, dir, spelling
	}
	return []string{"-dry", "-print", spelling}, dir, spelling
}

// c13Obs is the tuple observed for one process.
type c13Obs struct {
	Group    int
	Idx      int
	Env      []string
	Parallel bool
	Root     string
	Exit     int
	Stdout   string
	Stderr   string
	Out      string // bytes at the output path after the run ("" + OutPresent=false if none)
	OutOK    bool
	Timeout  bool
	StartErr string
}

// ---------------------------------------------------------------------------------------
// scenarios

func c13ManyProfile() scen.Profile {
	p := scen.Broad()
	p.Name = "c13-many"
	p.MinMethods, p.MaxMethods = 6, 12
	p.Mechs = map[string]int{"same": 12, "diff": 10, "case": 4, "getter": 8, "nested": 8, "skip": 4, "map": 10, "conv": 25,
		"literal": 3, "none": 25, "slice": 6, "unexported": 3, "embedded": 2, "ptrnested": 3}
	return p
}

func c13FromScenario(s *scen.Scenario, kind string) *c13Scen {
	sc := &c13Scen{ID: s.ID, Kind: kind, PkgRel: s.PkgRel, SetupRel: s.Setup, Files: map[string]string{}, NMethods: len(s.AllMethods())}
	for k, v := range s.Files {
		sc.Files[k] = v
	}
	return sc
}

// c13TwoIfaces appends a second converter interface (marked with :convergen) that repeats
// the methods of the first one under different names.
func c13TwoIfaces(s *scen.Scenario) *c13Scen {
	sc := c13FromScenario(s, "two-ifaces")
	if len(s.Ifaces) == 0 {
		sc.Kind = "broad"
		return sc
	}
	it := *s.Ifaces[0]
	it.Name = "SecondConv"
	it.Notations = append([]scen.Notation{{Name: "convergen"}}, it.Notations...)
	it.Generate = false
	it.Methods = nil
	for _, m := range s.Ifaces[0].Methods {
		mc := *m
		mc.Name = m.Name + "Bis"
		it.Methods = append(it.Methods, &mc)
	}
	sc.Files[sc.SetupRel] += "\n" + scen.RenderIface(&it)
	sc.NMethods *= 2
	return sc
}

// c13Broken injects a notation that the tool must reject, so that diagnostics are compared.
func c13Broken(s *scen.Scenario, r *rand.Rand) *c13Scen {
	sc := c13FromScenario(s, "broken")
	if len(s.Ifaces) == 0 || len(s.Ifaces[0].Methods) == 0 {
		return sc
	}
	old := scen.RenderIface(s.Ifaces[0])
	it := *s.Ifaces[0]
	it.Methods = nil
	k := r.Intn(len(s.Ifaces[0].Methods))
	bad := []scen.Notation{
		{Name: "conv", Args: []string{"noSuchFunc13", "Nope", "Nope"}},
		{Name: "preprocess", Args: []string{"noSuchHook13"}},
		{Name: "match", Args: []string{"bogus"}},
		{Name: "map"},
		{Name: "skip", Args: []string{"/(unclosed/"}},
		// unknown or misplaced notations: accepted with a log/warning only - their diagnostics must be
		// as deterministic as everything else (names close to documented families on purpose)
		{Name: "getter:on"}, {Name: "case:on"}, {Name: "stringer:on"}, {Name: "typecast:on"}, {Name: "conv:foo", Args: []string{"f", "X"}},
		{Name: "skip:all"}, {Name: "style:arg"}, {Name: "convergen"}, {Name: "tag", Args: []string{"json"}}, {Name: "nosuchnotation13", Args: []string{"a", "b"}},
	}[r.Intn(15)]
	for i, m := range s.Ifaces[0].Methods {
		mc := *m
		if i == k {
			mc.DocOrder = nil
			mc.Notations = append(append([]scen.Notation{}, m.Notations...), bad)
		}
		it.Methods = append(it.Methods, &mc)
	}
	sc.Files[sc.SetupRel] = strings.Replace(sc.Files[sc.SetupRel], old, scen.RenderIface(&it), 1)
	return sc
}

const c13HandTypes = `package sc

type SA struct {
	ID int
	N  int
	M  int
}
type DA struct {
	ID int
	N  string
	M  string
}
`

// c13HandScenarios exercise the import table: two import paths whose last element is the
// same ("vb/ext" and "vb/<pkg>/sub/ext"), imported blank / named / both named, with a
// package-qualified converter that exists in both packages with different signatures.
func c13HandScenarios() []*c13Scen {
	var r []*c13Scen
	mk := func(id, kind, imports, subSig string) {
		sub := "package ext\n\nfunc ConvIntStr(v int) string { return \"sub\" }\n"
		if subSig == "err" {
			sub = "package ext\n\nfunc ConvIntStr(v int) (string, error) { return \"sub\", nil }\n"
		}
		setup := "//go:build convergen\n\npackage sc\n\nimport (\n" + strings.ReplaceAll(imports, "PKG", id) + ")\n\n" +
			"type Convergen interface {\n\t// :conv ext.ConvIntStr N\n\t// :conv ext.ConvIntStr M\n\tOuter(*SA) (*DA, error)\n\t// :conv ext.ConvIntStr ID N\n\tOther(*SA) (*DA, error)\n}\n"
		r = append(r, &c13Scen{ID: id, Kind: kind, PkgRel: id, SetupRel: id + "/setup.go", NMethods: 2, Files: map[string]string{
			id + "/types.go": c13HandTypes, id + "/setup.go": setup, id + "/sub/ext/ext.go": sub,
			id + "/sub/other/other.go": "package other\n\nfunc ConvIntStr(v int) (string, error) { return \"other\", nil }\n"}})
	}
	mk("hx1", "ext-blank+blank", "\t_ \"vb/ext\"\n\t_ \"vb/PKG/sub/ext\"\n", "err")
	mk("hx2", "ext-blank+blank", "\t_ \"vb/PKG/sub/ext\"\n\t_ \"vb/ext\"\n", "err")
	mk("hx3", "ext-named+blank", "\t\"vb/ext\"\n\t_ \"vb/PKG/sub/ext\"\n", "err")
	mk("hx4", "ext-named+blank", "\t_ \"vb/ext\"\n\t\"vb/PKG/sub/ext\"\n", "err")
	mk("hx5", "ext-alias+blank", "\t_ \"vb/ext\"\n\text \"vb/PKG/sub/other\"\n", "err")
	mk("hx6", "ext-alias+named", "\text2 \"vb/ext\"\n\text \"vb/PKG/sub/other\"\n", "err")
	// not valid Go (two imports declare the same name), accepted by the tool all the same
	mk("hx7", "dup-import-name", "\t\"vb/ext\"\n\t\"vb/PKG/sub/ext\"\n", "err")
	mk("hx8", "dup-import-name", "\t\"vb/ext\"\n\text \"vb/PKG/sub/other\"\n", "err")
	mk("hx9", "dup-import-name-same-sig", "\t\"vb/ext\"\n\t\"vb/PKG/sub/ext\"\n", "same")
	// a converter interface that EMBEDS interfaces declared in other (convergen-tagged) files of the package,
	// every method with unmatched fields: the order of the diagnostics must not depend on the order in which
	// the loader happens to parse the files
	{
		id := "hx10"
		part := func(name string, k int) string {
			var sb strings.Builder
			sb.WriteString("//go:build convergen\n\npackage sc\n\ntype " + name + " interface {\n")
			for i := 0; i < 4; i++ {
				fmt.Fprintf(&sb, "\t%sM%d(*WS%d) *WD%d\n", name, i, k, k)
			}
			sb.WriteString("}\n")
			return sb.String()
		}
		types := "package sc\n\n"
		for k := 0; k < 4; k++ {
			types += fmt.Sprintf("type WS%d struct{ A int }\n\ntype WD%d struct {\n\tA int\n\tMissing%da string\n\tMissing%db int\n}\n\n", k, k, k, k)
		}
		setup := "//go:build convergen\n\npackage sc\n\ntype Convergen interface {\n\tPartC\n\tPartA\n\tOwn(*WS0) *WD0\n\tPartD\n\tPartB\n}\n"
		r = append(r, &c13Scen{ID: id, Kind: "embeds-interfaces-of-other-files", PkgRel: id, SetupRel: id + "/setup.go", NMethods: 17, Files: map[string]string{
			id + "/types.go": types, id + "/setup.go": setup, id + "/a_part.go": part("PartA", 0), id + "/b_part.go": part("PartB", 1),
			id + "/m_part.go": part("PartC", 2), id + "/z_part.go": part("PartD", 3)}})
	}
	// every kind of source expression in the "typecast ... is not implemented(yet)" warning and in "no assignment"
	// warnings: a plain field, a converter call, a getter call, a String() call, an additional argument - diagnostics
	// name expressions, never addresses
	{
		id := "hx11"
		types := "package sc\n\ntype Lv int\n\nfunc (l Lv) String() string { return \"lv\" }\n\ntype TS struct {\n\tIntro string\n\tRaw   string\n\tL     Lv\n\tg     string\n}\n\n" +
			"func (s *TS) Get() string { return s.g }\n\ntype TD struct {\n\tIntro   []byte\n\tBody    []byte\n\tG       []byte\n\tS       []byte\n\tX       []byte\n\tMissing int\n}\n\nfunc Clean(s string) string { return s }\n"
		setup := "//go:build convergen\n\npackage sc\n\ntype Convergen interface {\n\t// :typecast\n\t// :stringer\n\t// :conv Clean Raw Body\n\t// :map Get() G\n\t// :map L S\n\t// :map $2 X\n\tWarn(*TS, string) *TD\n}\n"
		r = append(r, &c13Scen{ID: id, Kind: "every-warning-operand-kind", PkgRel: id, SetupRel: id + "/setup.go", NMethods: 1, Files: map[string]string{
			id + "/types.go": types, id + "/setup.go": setup}})
	}
	return r
}

// ---------------------------------------------------------------------------------------
// running

type c13EnvPool struct {
	homes, tmps []string
	otherFS     string // TMPDIR candidate on another file system ("" = none available)
}

func c13NewEnvPool(e *core.Env) c13EnvPool {
	p := c13EnvPool{homes: []string{e.Home}, tmps: []string{os.TempDir()}}
	for _, n := range []string{"homeB", "home C"} {
		d := filepath.Join(e.Work, n)
		_ = os.MkdirAll(d, 0o755)
		p.homes = append(p.homes, d)
	}
	for _, n := range []string{"tmpB", "tmp-C-ü"} {
		d := filepath.Join(e.Work, n)
		_ = os.MkdirAll(d, 0o755)
		p.tmps = append(p.tmps, d)
	}
	// a temporary directory on ANOTHER file system than the sources (a rename from there fails with EXDEV)
	var here syscall.Stat_t
	if syscall.Stat(e.Work, &here) == nil {
		for _, cand := range []string{"/dev/shm", os.Getenv("XDG_RUNTIME_DIR"), "/run"} {
			var st syscall.Stat_t
			if cand == "" || syscall.Stat(cand, &st) != nil || st.Dev == here.Dev {
				continue
			}
			d, err := os.MkdirTemp(cand, "vchk-c13-")
			if err != nil {
				continue
			}
			p.tmps = append(p.tmps, d, d) // drawn twice as often as each of the others
			p.otherFS = d
			break
		}
	}
	return p
}

// env draws one environment variation (entries are appended to Env.ToolEnv, later wins).
func (p c13EnvPool) env(r *rand.Rand) []string {
	env := []string{
		"HOME=" + p.homes[r.Intn(len(p.homes))],
		"TMPDIR=" + p.tmps[r.Intn(len(p.tmps))],
		"LANG=" + []string{"C", "en_US.UTF-8", "ja_JP.UTF-8", "de_DE", "tr_TR.UTF-8"}[r.Intn(5)],
		"GOMAXPROCS=" + []string{"1", "2", "16"}[r.Intn(3)],
	}
	if tz := []string{"", "UTC", "Asia/Tokyo", "America/New_York", "Pacific/Chatham"}[r.Intn(5)]; tz != "" {
		env = append(env, "TZ="+tz)
	}
	extras := []string{"FOO=bar", "CONVERGEN_DEBUG=1", "GOFILE=other.go", "GOPACKAGE=zzz", "GOLINE=5", "COLUMNS=10", "NO_COLOR=1", "TERM=dumb",
		"LC_ALL=tr_TR.UTF-8", "USER=nobody", "PWD=/nonexistent", "GODEBUG=gctrace=0", "GOGC=20", "LONG_" + strings.Repeat("X", 40) + "=" + strings.Repeat("y", 3000)}
	for _, x := range extras {
		if r.Intn(4) == 0 {
			env = append(env, x)
		}
	}
	return env
}

func c13Materialise(root string, sc *c13Scen) error {
	if err := scen.WriteModuleBase(root); err != nil {
		return err
	}
	return core.WriteTree(root, sc.Files)
}

// c13Normalise replaces the absolute input/output path, the spelling of the input path used
// by the group (and the default output path the tool derives from that spelling) and the
// module root by canonical tokens; nothing else is touched.
func c13Normalise(s, root, setupRel, spelling string) string {
	abs := filepath.Join(root, setupRel)
	gen := func(p string) string { return strings.TrimSuffix(p, ".go") + ".gen.go" }
	s = strings.ReplaceAll(s, gen(abs), "<OUTPUT>")
	s = strings.ReplaceAll(s, abs, "<INPUT>")
	if spelling != abs {
		s = strings.ReplaceAll(s, gen(spelling), "<OUTPUT>")
		s = strings.ReplaceAll(s, spelling, "<INPUT>")
	}
	s = strings.ReplaceAll(s, root+"-lnk", "<ROOT>") // the symbolic link to the module root (group abs-via-symlink)
	return strings.ReplaceAll(s, root, "<ROOT>")
}

// c13Diag returns the part of stderr that is compared. For a run that ended in a Go runtime
// crash (C14's subject) the goroutine dump — stack addresses, goroutine numbers, register
// values — is not a diagnostic of the tool: only the text before it (the tool's own messages
// and the panic message) is compared.
func c13Diag(exit int, stderr string) string {
	if exit != 2 && exit != -1 {
		return stderr
	}
	if i := strings.Index(stderr, "\ngoroutine "); i >= 0 {
		stderr = stderr[:i]
	}
	var keep []string
	for _, l := range strings.Split(stderr, "\n") {
		if strings.HasPrefix(l, "[signal ") {
			continue
		}
		keep = append(keep, l)
	}
	return strings.Join(keep, "\n")
}

func c13ExitsOf(obs []*c13Obs) string {
	set := map[int]bool{}
	for _, o := range obs {
		set[o.Exit] = true
	}
	var xs []int
	for x := range set {
		xs = append(xs, x)
	}
	sort.Ints(xs)
	return strings.Trim(strings.ReplaceAll(fmt.Sprint(xs), " ", ","), "[]")
}

func c13FirstDiffLine(a, b string) string {
	la, lb := strings.Split(a, "\n"), strings.Split(b, "\n")
	for i := 0; i < len(la) || i < len(lb); i++ {
		var x, y string
		if i < len(la) {
			x = la[i]
		}
		if i < len(lb) {
			y = lb[i]
		}
		if x != y {
			return fmt.Sprintf("line %d:\n  A: %s\n  B: %s", i+1, core.Trunc(x, 300), core.Trunc(y, 300))
		}
	}
	return "(no line differs)"
}

// ---------------------------------------------------------------------------------------
// the check

// RunC13 is the check for C13.
func RunC13(e *core.Env) int {
	rep := core.NewReport(e, "exploration",
		"scenarios = seeded broad setups (accepted and rejected), a many-methods/many-converters/many-no-match profile, setups with two converter interfaces, setups with an injected bad notation, "+
			"and fixed setups whose import table holds two paths with the same last element (blank/named/aliased/duplicated); each scenario is run in N fresh processes (quick 12, thorough 40) over ten groups "+
			"(package dir + relative path, module root + relative path, sibling dir + ../ path, absolute path from inside the module, absolute path from outside the module, absolute path from the module root, absolute path from a directory that has been removed, absolute path through a symbolic link to the module root, really writing runs on private copies, "+
			"really writing runs with -log whose first and last process are started in different wall-clock seconds) "+
			"with HOME, TMPDIR, LANG, TZ, GOMAXPROCS and unrelated variables varied, a third of the scenarios with all processes started concurrently. "+
			"A case is (scenario, group); it is counted distinct/non-trivial by (hash of the scenario sources, group) when at least two tuples were actually compared for it (within the group or against the reference group) and the run produced either generated functions or diagnostics")
	rep.Assume("the Go settings of Env.ToolEnv (GOFLAGS, GOPROXY, GOCACHE, ...) are part of 'the sources and flags' and are held constant; HOME, TMPDIR, locale, time zone, GOMAXPROCS and unrelated variables are 'environment'",
		"for -dry -print runs the output bytes are stdout; for writing runs the bytes at the output path; the two kinds are compared among themselves only (different flags)",
		"only the module root / input path spelling is normalised in stderr before the cross-group comparison")
	thorough := e.Tier == "thorough"
	nScen, perGroup := 400, []int{3, 2, 2, 2, 1, 1, 1, 1, 2, 2}
	if thorough {
		nScen, perGroup = 1500, []int{10, 6, 6, 6, 4, 3, 2, 3, 8, 4}
	}
	pool := c13NewEnvPool(e)
	if pool.otherFS != "" {
		defer os.RemoveAll(pool.otherFS)
	}
	rep.Extra("tmpdir_on_another_file_system", pool.otherFS != "")
	outside := filepath.Join(e.Work, "outside-cwd")
	_ = os.MkdirAll(outside, 0o755)

	// scenario list
	var scs []*c13Scen
	many := c13ManyProfile()
	for i := 0; i < nScen; i++ {
		id := fmt.Sprintf("s%04d", i)
		switch i % 10 {
		case 6, 7:
			scs = append(scs, c13TwoIfaces(GenByProfile("broad", e.Seed, i, id)))
		case 8:
			scs = append(scs, c13Broken(GenByProfile("broad", e.Seed, i, id), core.Rand(e.Seed, "c13-broken", i)))
		case 3, 9:
			scs = append(scs, c13FromScenario(scen.GenBroad(core.Rand(e.Seed, "c13-many", i), many, id, id), "many-methods"))
		default:
			scs = append(scs, c13FromScenario(GenByProfile("broad", e.Seed, i, id), "broad"))
		}
	}
	scs = append(scs, c13HandScenarios()...)

	var sampleMu sync.Mutex
	samples := 0
	e.Parallel(len(scs), func(si int) {
		sc := scs[si]
		root := filepath.Join(e.Work, fmt.Sprintf("c13-%04d", si))
		defer os.RemoveAll(root)
		_ = os.Symlink(filepath.Base(root), root+"-lnk")
		defer os.Remove(root + "-lnk")
		if err := c13Materialise(root, sc); err != nil {
			rep.Inconclusive("materialise: " + err.Error())
			return
		}
		r := core.Rand(e.Seed, "c13-env", sc.ID)
		concurrent := si%3 == 0
		// plan the processes
		var plan []*c13Obs
		for gi, g := range c13Groups {
			n := perGroup[gi]
			if strings.HasPrefix(sc.Kind, "ext-") || strings.HasPrefix(sc.Kind, "dup-") {
				n *= 2 // the import-table scenarios are the likeliest place for map-order effects
			}
			for k := 0; k < n; k++ {
				o := &c13Obs{Group: gi, Idx: k, Env: pool.env(r), Parallel: concurrent, Root: root}
				if g.Write {
					o.Root = filepath.Join(e.Work, fmt.Sprintf("c13-%04d-w%d-%d", si, gi, k))
				}
				plan = append(plan, o)
			}
		}
		// the order of execution is shuffled so that groups interleave
		order := r.Perm(len(plan))
		runOne := func(o *c13Obs) {
			g := c13Groups[o.Group]
			if g.Write {
				if err := c13Materialise(o.Root, sc); err != nil {
					o.StartErr = err.Error()
					return
				}
				defer os.RemoveAll(o.Root)
			}
			args, dir, _ := g.spec(o.Root, outside, sc)
			spec := core.RunSpec{Args: args, Dir: dir, Env: o.Env, WallSec: 180}
			if g.Name == "abs-deleted-cwd" {
				// the shell enters a fresh directory, removes it and only then starts the tool
				gone := filepath.Join(outside, fmt.Sprintf("gone-%04d-%d", si, o.Idx))
				spec.Wrap = []string{"/bin/sh", "-c", `d="$1"; shift; mkdir -p "$d" && cd "$d" && rmdir "$d" && exec "$@"`, "sh", gone}
			}
			res := e.Run(spec)
			o.Exit, o.Stdout, o.Stderr, o.Timeout, o.StartErr = res.Exit, res.Stdout, res.Stderr, res.TimedOut, res.StartErr
			if g.Write {
				if b, err := os.ReadFile(filepath.Join(o.Root, strings.TrimSuffix(sc.SetupRel, ".go")+".gen.go")); err == nil {
					o.Out, o.OutOK = string(b), true
				}
			} else {
				o.Out, o.OutOK = o.Stdout, true
			}
		}
		// the -log group brackets the scenario: its first process runs before everything else, its last
		// one after everything else and not earlier than 1.1 s after the first (spacing of the workload
		// only; no verdict depends on the clock)
		var early, late *c13Obs
		var rest []int
		for _, pi := range order {
			o := plan[pi]
			switch {
			case c13Groups[o.Group].Log && o.Idx == 0:
				early = o
			case c13Groups[o.Group].Log && o.Idx == perGroup[o.Group]-1:
				late = o
			default:
				rest = append(rest, pi)
			}
		}
		order = rest
		var t0 time.Time
		if early != nil {
			runOne(early)
			t0 = time.Now()
		}
		if concurrent {
			var wg sync.WaitGroup
			sem := make(chan struct{}, 6)
			for _, pi := range order {
				wg.Add(1)
				go func(o *c13Obs) {
					defer wg.Done()
					sem <- struct{}{}
					runOne(o)
					<-sem
				}(plan[pi])
			}
			wg.Wait()
		} else {
			for _, pi := range order {
				runOne(plan[pi])
			}
		}
		if late != nil {
			if d := 1100*time.Millisecond - time.Since(t0); early != nil && d > 0 {
				time.Sleep(d)
			}
			runOne(late)
		}
		rep.Eval(len(plan))
		// the shared directory must be untouched by the dry runs (no output file may appear)
		byGroup := map[int][]*c13Obs{}
		bad := false
		for _, o := range plan {
			if o.Timeout || o.StartErr != "" {
				bad = true
			}
			byGroup[o.Group] = append(byGroup[o.Group], o)
		}
		if bad {
			rep.Inconclusive("watchdog/start failure in scenario " + sc.ID)
			return
		}
		files := func(a, b *c13Obs, ga, gb c13Group) map[string]string {
			f := map[string]string{}
			for k, v := range sc.Files {
				f[k] = v
			}
			f["go.mod"] = "module " + scen.ModName + "\n\ngo 1.19\n"
			f["vtr/vtr.go"] = scen.VtrSrc
			f["ext/ext.go"] = scen.ExtSrc
			argsA, dirA, _ := ga.spec("<root>", "<dir outside the module>", sc)
			argsB, dirB, _ := gb.spec("<root>", "<dir outside the module>", sc)
			f["run.txt"] = fmt.Sprintf("A: cd %s && env %s convergen %s   -> exit %d\nB: cd %s && env %s convergen %s   -> exit %d\n",
				dirA, strings.Join(a.Env, " "), strings.Join(argsA, " "), a.Exit, dirB, strings.Join(b.Env, " "), strings.Join(argsB, " "), b.Exit)
			f["A.stdout"], f["A.stderr"], f["A.output"] = a.Stdout, a.Stderr, a.Out
			f["B.stdout"], f["B.stderr"], f["B.output"] = b.Stdout, b.Stderr, b.Out
			return f
		}
		norm := func(o *c13Obs, s string) string {
			_, _, sp := c13Groups[o.Group].spec(o.Root, outside, sc)
			return c13Normalise(s, o.Root, sc.SetupRel, sp)
		}
		crashes := 0
		for _, o := range plan {
			if d := c13Diag(o.Exit, o.Stderr); d != o.Stderr {
				o.Stderr = d
				crashes++
			}
		}
		if crashes > 0 {
			rep.Count("crashed_runs_goroutine_dump_not_compared", crashes)
		}
		srcHash := c13SrcHash(sc)
		nontrivial := func(o *c13Obs) bool {
			return o.Exit == 0 && strings.Contains(o.Out, "\nfunc ") || o.Exit != 0 && strings.TrimSpace(o.Stderr) != ""
		}
		groupOK := map[int]bool{}
		for gi, g := range c13Groups {
			obs := byGroup[gi]
			if len(obs) == 0 {
				continue
			}
			groupOK[gi] = true
			a := obs[0]
			for _, b := range obs[1:] {
				what := ""
				switch {
				case a.Exit != b.Exit:
					what = "exit"
				case a.OutOK != b.OutOK || a.Out != b.Out:
					what = "output"
				case !g.Write && a.Stderr != b.Stderr, g.Write && norm(a, a.Stderr) != norm(b, b.Stderr):
					what = "stderr"
				case !g.Write && a.Stdout != b.Stdout, g.Write && norm(a, a.Stdout) != norm(b, b.Stdout):
					what = "stdout"
				}
				if what == "" {
					continue
				}
				groupOK[gi] = false
				diff := ""
				switch what {
				case "output":
					diff = c13FirstDiffLine(a.Out, b.Out)
				case "stderr":
					diff = c13FirstDiffLine(norm(a, a.Stderr), norm(b, b.Stderr))
				case "stdout":
					diff = c13FirstDiffLine(a.Stdout, b.Stdout)
				}
				rep.Violate(&core.Violation{Property: "C13", Monitor: "repeat", Symptom: "nondeterministic-within-group",
					Features: map[string]string{"what": what, "kind": sc.Kind, "group": g.Name, "exits": c13ExitsOf(obs)},
					Case:     sc.ID + "/" + g.Name,
					Detail: fmt.Sprintf("scenario %s (%s): two of %d processes with identical argv and cwd (group %s) differ in %s\n%s\nenv A: %s\nenv B: %s",
						sc.ID, sc.Kind, len(obs), g.Name, what, diff, strings.Join(a.Env, " "), strings.Join(b.Env, " ")),
					Files: files(a, b, g, g)})
				break
			}
			if len(obs) >= 2 && nontrivial(a) {
				rep.Distinct(srcHash + "|" + g.Name)
			}
			rep.Histo("group_runs", g.Name)
		}
		// across groups, against the reference group
		ref := byGroup[0][0]
		if groupOK[0] {
			for gi, g := range c13Groups {
				if gi == 0 || !groupOK[gi] || len(byGroup[gi]) == 0 {
					continue
				}
				b := byGroup[gi][0]
				what := ""
				switch {
				case ref.Exit != b.Exit:
					what = "exit"
				case !g.Write && ref.Out != b.Out && norm(ref, ref.Out) != norm(b, b.Out):
					// (stdout of a -dry -print run may carry a positioned notice; its path follows the spelling)
					what = "output"
				case norm(ref, ref.Stderr) != norm(b, b.Stderr):
					what = "stderr"
				}
				if g.Write && what == "" {
					// informational only: the flags differ, so the property does not relate the two
					if b.OutOK && b.Out+"\n" == ref.Stdout || !b.OutOK && ref.Exit != 0 {
						rep.Count("written_equals_dry_print", 1)
					} else {
						rep.Count("written_differs_from_dry_print", 1)
					}
				}
				if len(byGroup[gi]) == 1 && nontrivial(b) {
					rep.Distinct(srcHash + "|" + g.Name)
				}
				if what == "" || g.Log {
					continue // -log is a different flag set: the property does not relate it to the reference group
				}
				diff := ""
				switch what {
				case "output":
					diff = c13FirstDiffLine(ref.Out, b.Out)
				case "stderr", "exit":
					diff = c13FirstDiffLine(norm(ref, ref.Stderr), norm(b, b.Stderr))
				}
				rep.Violate(&core.Violation{Property: "C13", Monitor: "cwd", Symptom: "differs-across-groups",
					Features: map[string]string{"what": what, "kind": sc.Kind, "group": g.Name, "exits": fmt.Sprintf("%d,%d", ref.Exit, b.Exit)},
					Case:     sc.ID + "/" + g.Name,
					Detail: fmt.Sprintf("scenario %s (%s): group %s differs from group %s in %s (exit %d vs %d)\n%s",
						sc.ID, sc.Kind, g.Name, c13Groups[0].Name, what, b.Exit, ref.Exit, diff),
					Files: files(ref, b, c13Groups[0], g)})
			}
		}
		// groups that spell the input IDENTICALLY (the absolute path) and differ only in the working
		// directory: nothing to normalise, the tuples must be byte-identical
		var absRef *c13Obs
		var absRefG c13Group
		for gi, g := range c13Groups {
			if !(g.Name == "abs-inside" || g.Name == "abs-outside" || g.Name == "abs-modroot" || g.Name == "abs-deleted-cwd") || !groupOK[gi] || len(byGroup[gi]) == 0 {
				continue
			}
			b := byGroup[gi][0]
			if absRef == nil {
				absRef, absRefG = b, g
				continue
			}
			what := ""
			switch {
			case absRef.Exit != b.Exit:
				what = "exit"
			case absRef.Out != b.Out:
				what = "output"
			case absRef.Stderr != b.Stderr:
				what = "stderr"
			}
			rep.Count("same_spelling_different_cwd_compared", 1)
			if what == "" {
				continue
			}
			diff := c13FirstDiffLine(absRef.Stderr, b.Stderr)
			if what == "output" {
				diff = c13FirstDiffLine(absRef.Out, b.Out)
			}
			rep.Violate(&core.Violation{Property: "C13", Monitor: "cwd", Symptom: "same-spelling-differs-by-cwd",
				Features: map[string]string{"what": what, "kind": sc.Kind, "group": g.Name, "exits": fmt.Sprintf("%d,%d", absRef.Exit, b.Exit)},
				Case:     sc.ID + "/" + g.Name,
				Detail: fmt.Sprintf("scenario %s (%s): the same absolute input path run from two working directories (groups %s and %s) differs in %s\n%s",
					sc.ID, sc.Kind, absRefG.Name, g.Name, what, diff),
				Files: files(absRef, b, absRefG, g)})
		}
		rep.Histo("scenario_kind", sc.Kind)
		rep.Histo("reference_exit", fmt.Sprint(ref.Exit))
		rep.Histo("scheduling", map[bool]string{true: "concurrent", false: "serial"}[concurrent])
		if ref.Exit == 0 {
			rep.Histo("functions", fmt.Sprint(strings.Count(ref.Out, "\nfunc ")))
			rep.Histo("no_match_warnings", c13Bucket(strings.Count(ref.Stderr, "no assignment for")))
		}
		sampleMu.Lock()
		take := samples < 3 && (samples == 0 || sc.Kind != "broad")
		if take {
			samples++
		}
		sampleMu.Unlock()
		if take {
			var runs []string
			for _, o := range plan {
				args, dir, _ := c13Groups[o.Group].spec("<root>", "<outside>", sc)
				runs = append(runs, fmt.Sprintf("[%s] cd %s && env %s convergen %s -> exit %d, %d bytes of output, %d bytes of stderr", c13Groups[o.Group].Name, dir,
					strings.Join(o.Env, " "), strings.Join(args, " "), o.Exit, len(o.Out), len(o.Stderr)))
			}
			rep.Sample(map[string]any{"scenario": sc.ID, "kind": sc.Kind, "setup": core.Trunc(sc.Files[sc.SetupRel], 900), "concurrent": concurrent, "processes": runs}, 3)
		}
	})
	if thorough {
		c13RaceObservation(e, rep, scs)
	}
	return rep.Finish()
}

func c13Bucket(n int) string {
	switch {
	case n == 0:
		return "0"
	case n < 5:
		return "1-4"
	case n < 20:
		return "5-19"
	}
	return "20+"
}

func c13SrcHash(sc *c13Scen) string {
	var keys []string
	for k := range sc.Files {
		keys = append(keys, k)
	}
	sort.Strings(keys)
	var parts []string
	for _, k := range keys {
		// the scenario id occurs in import paths; strip it so that equal sources hash equally
		parts = append(parts, strings.ReplaceAll(k, sc.ID, "#"), strings.ReplaceAll(sc.Files[k], sc.ID, "#"))
	}
	return core.Hash(parts...)
}

// c13RaceObservation (thorough tier) replays a few scenarios on a -race build of the tool
// and records race reports. It never decides a verdict: no property quantifies over schedules.
func c13RaceObservation(e *core.Env, rep *core.Report, scs []*c13Scen) {
	bin := filepath.Join(e.Work, "convergen-race")
	cmd := exec.Command("go", "build", "-race", "-tags", "verif", "-o", bin, ".")
	cmd.Dir = e.Repo
	env := e.GoEnv(false)
	env = append(env, "CGO_ENABLED=1")
	cmd.Env = env
	if out, err := cmd.CombinedOutput(); err != nil {
		rep.Extra("race_build", "unavailable: "+core.Trunc(string(out), 300))
		return
	}
	n := 40
	if n > len(scs) {
		n = len(scs)
	}
	var mu sync.Mutex
	races, runs := 0, 0
	e.Parallel(n, func(i int) {
		sc := scs[len(scs)-1-i] // hand scenarios first, then the tail of the generated ones
		root := filepath.Join(e.Work, fmt.Sprintf("c13-race-%d", i))
		defer os.RemoveAll(root)
		if c13Materialise(root, sc) != nil {
			return
		}
		res := e.Run(core.RunSpec{Bin: bin, Args: []string{"-dry", "-print", filepath.Base(sc.SetupRel)}, Dir: filepath.Join(root, sc.PkgRel), WallSec: 180})
		mu.Lock()
		runs++
		if strings.Contains(res.Stderr, "WARNING: DATA RACE") {
			races++
		}
		mu.Unlock()
	})
	rep.Extra("race_build", fmt.Sprintf("%d runs on a -race build, %d with a data race report (observation only, not judged)", runs, races))
}
