package checks

import (
	"fmt"
	"strings"

	"vh/core"
	"vh/execmon"
	"vh/refmodel"
	"vh/scen"
)

func init() { Registry["C06"] = RunC06 }

var explicitGov = map[string]bool{"skip": true, "conv": true, "map": true, "literal": true}

// modelPlan builds an execution plan from the MODEL (not from the output): leaves governed by explicit
// notations get the model's source, skipped leaves must keep their value, everything else is ignored.
func modelPlan(fp *execmon.FuncPlan, exps []*refmodel.Expect) (judgedLeaves int) {
	fp.Items = nil
	fp.OnlyListed = true // leaves the model does not enumerate (inaccessible members, default-governed ones) are not judged here
	for r := range map[string]bool{"src": true, "x0": true, "x1": true, "x2": true, "x3": true} {
		fp.RootNames[r] = r
	}
	for _, e := range exps {
		path := strings.Split(e.Path, ".")
		switch {
		case explicitGov[e.Governed] && e.Class == "none":
			fp.Items = append(fp.Items, execmon.PlanItem{Kind: "keep", Path: path})
			judgedLeaves++ // the leaf must keep its previous value
		case explicitGov[e.Governed] && e.Class == "assign" && len(e.Sources) == 1 && !e.AlsoNone():
			x := ParseCanon(e.Sources[0])
			if x == nil {
				fp.Items = append(fp.Items, execmon.PlanItem{Kind: "ignore", Path: path})
				continue
			}
			fp.Items = append(fp.Items, execmon.PlanItem{Kind: "assign", Path: path, RHS: x})
			judgedLeaves++
		default:
			fp.Items = append(fp.Items, execmon.PlanItem{Kind: "ignore", Path: path})
		}
	}
	return
}

// RunC06 is the check for C06.
func RunC06(e *core.Env) int {
	rep := core.NewReport(e, "exploration",
		"interaction profile: :skip (exact, /regexp/, case variants) / :map (fields, getters, getter chains, nested sources, $n, $n.path, unresolvable, wrong case, typed sources) / :conv (local, imported, pointer/value parameter, with error, result needing typecast) / :literal, "+
			"on top-level and nested destination paths, each competing with a default candidate, an enclosing whole-struct copy or another notation, under both case modes. Two oracles: (1) the reference model's expectation per notation-governed leaf vs the observed plan; "+
			"(2) dynamic: the generated function is executed and the value actually stored in each notation-governed leaf is compared with the MODEL's source evaluated on the inputs (skipped leaves must keep their previous value). "+
			"distinct non-trivial = (notation kind, nested?, competitor/variant, case mode, model class, observed kind) with the notation deciding the leaf")
	rep.Assume("two notations naming one path: any of them is acceptable (the property does not rank them)", "source paths through a pointer that is nil in a valuation are not judged (E-g)")
	n, k := 400, 2
	if e.Tier == "thorough" {
		n, k = 5000, 6
	}
	sampledModel := 0
	after := func(fi *FuncInfo, exps []*refmodel.Expect) {
		roleOf := RoleOf(fi)
		if sampledModel < 2 {
			var rows []map[string]any
			for _, ex := range exps {
				if explicitGov[ex.Governed] {
					lo := ObserveLeaf(fi, roleOf, ex.Path)
					rows = append(rows, map[string]any{"leaf": ex.Path, "governed_by": ex.Governed, "model": ex.Class + " " + ex.Reason, "acceptable_sources": ex.Sources, "observed": lo.Kind + " " + lo.Canon})
				}
			}
			if len(rows) >= 2 {
				sampledModel++
				rep.Sample(map[string]any{"scenario": fi.Case.S.ID, "function": fi.Plan.Key(), "method_notations": notationsStr(fi.Method.Notations), "model_vs_output": rows}, 4)
			}
		}
		for _, ex := range exps {
			if !explicitGov[ex.Governed] {
				continue
			}
			lo := ObserveLeaf(fi, roleOf, ex.Path)
			_, _, _, extra := probeFeat(fi.Method, ex.Path)
			rep.Distinct(fmt.Sprintf("%s|%v|%s|case=%v|%s|%s", ex.Governed, strings.Contains(ex.Path, "."), extra, fi.Opts.Case, ex.Class, lo.Kind))
			rep.Histo("notation", ex.Governed)
			rep.Histo("model_class", ex.Governed+":"+ex.Class)
		}
	}
	for start, bi := 0, 0; start < n; start, bi = start+150, bi+1 {
		end := start + 150
		if end > n {
			end = n
		}
		var ss []*scen.Scenario
		if bi == 0 {
			ss = append(ss, corpusC06()...)
		}
		for i := start; i < end; i++ {
			ss = append(ss, GenByProfile("notate", e.Seed, i, fmt.Sprintf("s%05d", i)))
		}
		b, err := NewBatch(e, fmt.Sprintf("notate-b%d", bi), ss)
		if err != nil {
			rep.Inconclusive(err.Error())
			continue
		}
		b.RunTool(e, true)
		var units []*execmon.Unit
		infosByScen := map[string]map[string]*FuncInfo{}
		modelsByScen := map[string]map[string][]*refmodel.Expect{}
		for _, c := range b.Cases {
			modelCase(rep, "C06", c, explicitGov, false, after)
			if !Runnable(c) {
				continue
			}
			models, _, err := BuildModels(c)
			if err != nil {
				continue
			}
			u, infos := PrepareUnit(c)
			judged := 0
			for i := range u.Plan.Funcs {
				fp := &u.Plan.Funcs[i]
				if exps := models[fp.Key]; exps != nil {
					judged += modelPlan(fp, exps)
				} else {
					fp.Items = nil
					fp.Judge = false
				}
			}
			if judged == 0 {
				continue
			}
			units = append(units, u)
			infosByScen[c.S.ID] = infos
			modelsByScen[c.S.ID] = models
		}
		if len(units) == 0 {
			continue
		}
		res := execmon.Exec(e, b.Root, units, execmon.Job{NRandom: k, Seed: uint64(e.Seed)}, "m")
		for id, msg := range res.Dropped {
			rep.Inconclusive("exec build dropped " + id + ": " + core.Trunc(msg, 300))
		}
		if res.DriverErr != "" {
			rep.Inconclusive("driver: " + res.DriverErr + "\n" + core.Trunc(res.DriverTail, 1000))
		}
		seen := map[string]bool{}
		for _, r := range res.Recs {
			fi := infosByScen[r.Scen][r.Fn]
			if fi == nil || r.SigErr != "" || !r.Judged || r.Fail != "" {
				continue
			}
			rep.Eval(1)
			rep.Count("calls", 1)
			if r.Panic != "" || (r.Err != "none" && r.Err != "nil") {
				continue
			}
			rep.Count("dynamic_leaves_compared", r.Checked)
			for _, mm := range r.Mismatches {
				fp := fieldPathOfDump(mm.Path)
				mech, dk, sk, extra := probeFeat(fi.Method, fp)
				lo := ObserveLeaf(fi, RoleOf(fi), fp)
				why := ""
				for _, ex := range modelsByScen[r.Scen][r.Fn] {
					if ex.Path == fp || strings.HasPrefix(fp, ex.Path+".") {
						why = strings.Join(ex.Notes, ",")
					}
				}
				v := &core.Violation{Property: "C06", Monitor: "exec-model", Symptom: "stored-value-differs-from-notation", Case: r.Scen,
					Features: map[string]string{"mech": mech, "dst_kind": dk, "src_kind": sk, "extra": extra, "nested": fmt.Sprint(strings.Contains(fp, ".")), "toggles": togglesOf(fi.Opts), "cover": coverOf(lo), "obs": lo.Kind, "why": why},
					Detail:   fmt.Sprintf("%s(%s): leaf %s holds %s; the notation (per reference model) denotes %s", r.Fn, r.Val, mm.Path, mm.Got, mm.Want)}
				if seen[r.Scen+v.Fingerprint()] {
					continue
				}
				seen[r.Scen+v.Fingerprint()] = true
				v.Files = recFiles(fi.Case, r)
				rep.Violate(v)
			}
		}
		if len(res.Recs) > 0 {
			r := res.Recs[0]
			rep.Sample(map[string]any{"scenario": r.Scen, "function": r.Fn, "valuation": r.Val, "dynamic_leaves_compared": r.Checked, "trace": r.Trace}, 2)
		}
	}
	return rep.Finish()
}

// corpusC06 holds the witnesses of known findings (run on every invocation).
func corpusC06() []*scen.Scenario {
	b := scen.NewBuilder(nil, scen.Profile{}, "kw-c06-nested", "kwc06a")
	b.Struct("", "AI", "V int", "W int")
	b.Struct("", "A", "In AI", "K int", "Spare int")
	b.Struct("", "B", "In AI", "K int")
	b.Struct("", "DI", "X int", "Y int")
	b.Struct("", "C", "K int", "Spare int")
	b.Struct("", "D", "In DI", "K int")
	m1 := &scen.Method{Name: "SkipNestedWhole", Src: scen.Param{Type: "*A"}, Dst: scen.Param{Type: "*B"},
		Notations: []scen.Notation{scen.N("skip", "In.V")},
		Probes:    []scen.Probe{{Dst: "In", Mech: "nested", DstT: "AI", SrcT: "AI"}, {Dst: "In.V", Mech: "skip", Extra: "exact/same"}}}
	m2 := &scen.Method{Name: "MapNestedWhole", Src: scen.Param{Type: "*A"}, Dst: scen.Param{Type: "*B"},
		Notations: []scen.Notation{scen.N("map", "Spare", "In.W")},
		Probes:    []scen.Probe{{Dst: "In", Mech: "nested", DstT: "AI", SrcT: "AI"}, {Dst: "In.W", Mech: "map", Extra: "field"}}}
	m3 := &scen.Method{Name: "LiteralNestedNoCounterpart", Src: scen.Param{Type: "*C"}, Dst: scen.Param{Type: "*D"},
		Notations: []scen.Notation{scen.N("literal", "In.X", "5"), scen.N("map", "Spare", "In.Y")},
		Probes:    []scen.Probe{{Dst: "In", Mech: "none", DstT: "DI"}, {Dst: "In.X", Mech: "literal", Extra: "5"}, {Dst: "In.Y", Mech: "map", Extra: "field"}}}
	b2 := scen.NewBuilder(nil, scen.Profile{}, "kw-c06-conv", "kwc06b")
	b2.Struct("", "E", "P LPS", "T string")
	b2.Struct("", "F", "S string", "B []byte")
	m4 := &scen.Method{Name: "MapNeedsStringer", Src: scen.Param{Type: "*E"}, Dst: scen.Param{Type: "*F"},
		Notations: []scen.Notation{scen.N("stringer"), scen.N("map", "P", "S"), scen.N("skip", "B")},
		Probes:    []scen.Probe{{Dst: "S", Mech: "map", DstT: "string", SrcT: "LPS", Extra: "typed"}}}
	m5 := &scen.Method{Name: "MapNeedsTypecast", Src: scen.Param{Type: "*E"}, Dst: scen.Param{Type: "*F"},
		Notations: []scen.Notation{scen.N("typecast"), scen.N("map", "T", "B"), scen.N("skip", "S")},
		Probes:    []scen.Probe{{Dst: "B", Mech: "map", DstT: "[]byte", SrcT: "string", Extra: "typed"}}}
	// regular (not a known finding): two-digit operand indexes
	b3 := scen.NewBuilder(nil, scen.Profile{}, "kw-c06-many-args", "kwc06c")
	b3.Struct("", "MA", "K int")
	b3.Struct("", "MX", "Deep int", "Name string")
	b3.Struct("", "MB", "K int", "N int", "M string", "P string", "Q int")
	var extras []scen.Param
	for i := 0; i < 8; i++ {
		extras = append(extras, scen.Param{Type: "int"})
	}
	extras = append(extras, scen.Param{Type: "MX"}, scen.Param{Type: "string"}, scen.Param{Type: "*MX"})
	m6 := &scen.Method{Name: "ManyArgs", Src: scen.Param{Type: "*MA"}, Dst: scen.Param{Type: "*MB"}, Extras: extras,
		Notations: []scen.Notation{scen.N("map", "$10.Deep", "N"), scen.N("map", "$11", "M"), scen.N("map", "$12.Name", "P"), scen.N("map", "$2", "Q")},
		Probes: []scen.Probe{{Dst: "N", Mech: "map", DstT: "int", Extra: "argpath"}, {Dst: "M", Mech: "map", DstT: "string", Extra: "arg"}, {Dst: "P", Mech: "map", DstT: "string", Extra: "argpath"}, {Dst: "Q", Mech: "map", DstT: "int", Extra: "arg"}}}
	// regular (not a known finding): two struct fields with the same NAME at different destination paths
	// (Billing.Address / Shipping.Address, a shared type, parents copied member by member); notations address
	// members of the second one only, and in the third method of the first one only
	b4 := scen.NewBuilder(nil, scen.Profile{}, "kw-c06-same-leaf-name", "kwc06d")
	b4.Struct("", "Addr", "Country string", "Phone string", "Zip string")
	b4.Struct("", "SParty", "Address Addr", "N int")
	b4.Struct("", "DParty", "Address Addr", "N int")
	b4.Struct("", "SOrd", "Billing SParty", "Shipping SParty", "Aux string")
	b4.Struct("", "DOrd", "Billing DParty", "Shipping DParty")
	pr := []scen.Probe{{Dst: "Billing", Mech: "nested", DstT: "DParty", SrcT: "SParty"}, {Dst: "Shipping", Mech: "nested", DstT: "DParty", SrcT: "SParty"}}
	m7 := &scen.Method{Name: "SameLeafSecond", Src: scen.Param{Type: "*SOrd"}, Dst: scen.Param{Type: "*DOrd"},
		Notations: []scen.Notation{scen.N("literal", "Shipping.Address.Country", "\"JP\""), scen.N("skip", "Shipping.Address.Phone")}, Probes: pr}
	m8 := &scen.Method{Name: "SameLeafSecondArg", Src: scen.Param{Type: "*SOrd"}, Dst: scen.Param{Type: "*DOrd"},
		Notations: []scen.Notation{scen.N("style", "arg"), scen.N("map", "Aux", "Shipping.Address.Zip"), scen.N("skip", "Shipping.Address.Phone")}, Probes: pr}
	m9 := &scen.Method{Name: "SameLeafFirst", Src: scen.Param{Type: "*SOrd"}, Dst: scen.Param{Type: "*DOrd"},
		Notations: []scen.Notation{scen.N("literal", "Billing.Address.Country", "\"JP\""), scen.N("skip", "Billing.Address.Phone")}, Probes: pr}
	return []*scen.Scenario{b.Manual(m1, m2, m3), b2.Manual(m4, m5), b3.Manual(m6), b4.Manual(m7, m8, m9)}
}
