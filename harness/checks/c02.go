package checks

import (
	"fmt"
	"regexp"
	"sort"
	"strings"

	"vh/core"
	"vh/execmon"
	"vh/scen"
)

func init() { Registry["C02"] = RunC02 }

var reDumpIdx = regexp.MustCompile(`\[\d+\]|\{[^}]*\}|~|->`)

// fieldPathOfDump turns a dump key ("D.A->.B[0].C") into a field path ("A.B.C").
func fieldPathOfDump(k string) string {
	k = strings.TrimPrefix(k, "D")
	k = reDumpIdx.ReplaceAllString(k, "")
	return strings.Trim(k, ".")
}

func valClass(v string) string {
	if strings.HasPrefix(v, "random") {
		return "random"
	}
	return v
}

func panicClass(p string) string {
	switch {
	case strings.Contains(p, "nil pointer dereference"):
		return "panic-nil-deref"
	case strings.Contains(p, "index out of range"):
		return "panic-index"
	case strings.Contains(p, "reflect:"):
		return "panic-reflect"
	}
	return "panic-other"
}

// nilDerefSuspects lists assignments of the observed plan that read through a pointer-typed
// member without any guard: candidates for a nil dereference.
func mechsOfFunc(fi *FuncInfo) string {
	set := map[string]bool{}
	for _, p := range fi.Method.Probes {
		set[p.Mech] = true
	}
	var l []string
	for k := range set {
		l = append(l, k)
	}
	sort.Strings(l)
	return strings.Join(l, ",")
}

func recFiles(c *CaseResult, r *execmon.Rec) map[string]string {
	files := c.ReplayFiles()
	files["record.txt"] = fmt.Sprintf("%+v", *r)
	return files
}

// judgeC02 applies the C02 oracle to the records of one function.
func judgeC02(rep *core.Report, fi *FuncInfo, recs []*execmon.Rec) {
	c := fi.Case
	mf := methodFeatures(fi)
	if len(fi.Foreign) > 0 {
		rep.Violate(&core.Violation{Property: "C02", Monitor: "plan", Symptom: "assigns-non-destination", Features: mf, Case: c.S.ID,
			Detail: "assignment to a variable that is not the destination operand: " + strings.Join(fi.Foreign, " | "), Files: c.ReplayFiles()})
	}
	for i := range fi.Plan.Items {
		if it := &fi.Plan.Items[i]; it.Kind == "other" {
			rep.Violate(&core.Violation{Property: "C02", Monitor: "plan", Symptom: "unrecognized-statement", Features: mf, Case: c.S.ID,
				Detail: "generated function " + fi.Plan.Key() + " contains a statement outside the documented vocabulary (assignment, guarded slice copy, nested-struct block, hook call, error check, skip/no-match comment): " + it.Text, Files: c.ReplayFiles()})
			break
		}
	}
	// "after only the OPTED-IN String()/type conversion": a type conversion in the observed plan
	// (scalar or slice elements) needs :typecast in the method's effective options
	if !fi.Opts.Typecast {
		for i := range fi.Plan.Items {
			it := &fi.Plan.Items[i]
			what := ""
			switch {
			case it.Kind == "slice" && it.SliceMode == "cast":
				what = "slice elements converted to " + it.SliceCast
			case it.Kind == "assign" && it.RHS != nil:
				for x := it.RHS; x != nil; x = x.X {
					if x.Op == "conv" {
						what = "conversion " + x.Text
					}
				}
			}
			if what != "" {
				rep.Violate(&core.Violation{Property: "C02", Monitor: "plan", Symptom: "conversion-without-opt-in", Features: mf, Case: c.S.ID,
					Detail: "generated function " + fi.Plan.Key() + " converts without :typecast in force: dst." + it.PathStr() + ": " + what + " (" + it.Text + ")", Files: c.ReplayFiles()})
				break
			}
		}
	}
	seen := map[string]bool{}
	for _, r := range recs {
		if r.Fail != "" {
			continue
		}
		rep.Eval(1)
		rep.Count("calls", 1)
		if r.SigErr != "" {
			rep.Count("signature_mismatch_skipped", 1)
			continue
		}
		if !r.Judged {
			rep.Count("unjudged_E-i", 1)
			continue
		}
		feat := func(extra map[string]string) map[string]string {
			f := map[string]string{}
			for k, v := range mf {
				f[k] = v
			}
			f["val"] = valClass(r.Val)
			for k, v := range extra {
				f[k] = v
			}
			return f
		}
		report := func(v *core.Violation) {
			if seen[v.Fingerprint()] {
				return
			}
			seen[v.Fingerprint()] = true
			v.Files = recFiles(c, r)
			rep.Violate(v)
		}
		if r.Panic != "" {
			if r.PanicAt != "" {
				continue // injected panic inside a user callback: allowed
			}
			// a callback (e.g. a generated function used as :conv target, fed a nil operand) that panics on
			// this input also panics when the oracle re-invokes it: a user-supplied callback panic, allowed
			cbPanic := false
			for _, sk := range r.Skipped {
				if strings.Contains(sk, ": panic:") {
					cbPanic = true
				}
			}
			if cbPanic {
				rep.Count("unjudged_callback_panics_on_this_input", 1)
				continue
			}
			// suspects: items whose source path runs through a nil pointer in this valuation
			susp := map[string]bool{}
			causes := map[string]bool{}
			explicitOnly := true
			for _, sk := range r.Skipped {
				if !strings.Contains(sk, ": nilpath:") {
					continue
				}
				// is the item an explicit :map/:conv path (E-g) or something the tool chose itself?
				p0 := sk[:strings.Index(sk, ":")]
				isExplicit := false
				for _, pr := range fi.Method.Probes {
					if pr.Dst == p0 && (pr.Mech == "map" || pr.Mech == "conv" || strings.HasSuffix(pr.Extra, "/map") || strings.HasSuffix(pr.Extra, "/conv")) {
						isExplicit = true
					}
				}
				switch {
				case isExplicit:
					// not a cause the tool is answerable for
				case strings.Contains(sk, "value method String"):
					causes["stringer-on-nil-pointer"] = true
				case strings.Contains(sk, "value method"):
					causes["value-getter-on-nil-pointer"] = true
				case strings.Contains(sk, "deref of nil"):
					causes["deref-of-nil"] = true
				default:
					causes["member-through-nil-pointer"] = true
				}
				path := sk[:strings.Index(sk, ":")]
				mech := "?"
				if pr := MechOf(fi.Method, path); pr != nil {
					mech = pr.Mech
				}
				// a :skip probe wraps the mechanism it was laid over (its Extra ends in "/map", "/conv", ...)
				explicit := false
				for _, pr := range fi.Method.Probes {
					if pr.Dst == path && (pr.Mech == "map" || pr.Mech == "conv" || strings.HasSuffix(pr.Extra, "/map") || strings.HasSuffix(pr.Extra, "/conv")) {
						explicit = true
						mech = "map/conv"
					}
				}
				susp[mech] = true
				if !explicit {
					explicitOnly = false
				}
			}
			if panicClass(r.Panic) == "panic-nil-deref" && len(susp) > 0 && explicitOnly {
				// E-g: an explicit :map/:conv source path through a pointer that is nil denotes nothing
				rep.Count("unjudged_E-g_nil_explicit_path", 1)
				continue
			}
			var sl []string
			for k := range susp {
				sl = append(sl, k)
			}
			sort.Strings(sl)
			report(&core.Violation{Property: "C02", Monitor: "exec", Symptom: panicClass(r.Panic), Features: feat(map[string]string{"nil_suspects": strings.Join(sl, ","), "nil_cause": strings.Join(sortedKeys(causes), ",")}), Case: c.S.ID,
				Detail: fmt.Sprintf("%s(%s valuation) panicked in generated code: %s; trace=%v", r.Fn, r.Val, r.Panic, r.Trace)})
			continue
		}
		if len(r.SrcMutated) > 0 {
			report(&core.Violation{Property: "C02", Monitor: "exec", Symptom: "source-modified", Features: feat(nil), Case: c.S.ID,
				Detail: fmt.Sprintf("%s(%s): source/additional operands changed: %s", r.Fn, r.Val, strings.Join(r.SrcMutated, "; "))})
		}
		for _, mm := range r.Mismatches {
			fp := fieldPathOfDump(mm.Path)
			ex := map[string]string{}
			if pr := MechOf(fi.Method, fp); pr != nil {
				ex["mech"] = pr.Mech
				ex["dst_kind"] = scen.KindOf(pr.DstT)
				ex["src_kind"] = scen.KindOf(pr.SrcT)
			}
			report(&core.Violation{Property: "C02", Monitor: "exec", Symptom: "wrong-value", Features: feat(ex), Case: c.S.ID,
				Detail: fmt.Sprintf("%s(%s): destination leaf %s holds %s, the model (observed plan evaluated on the inputs; untouched leaves keep their previous value) says %s",
					r.Fn, r.Val, mm.Path, mm.Got, mm.Want)})
		}
		if r.Checked > 0 && r.Executed > 0 && r.Err != "other" {
			rep.Distinct(fmt.Sprintf("%s|%s|%s|%s|%s|%s|%s", mf["style"], mf["recv"], mf["reverse"], mf["src_ptr"], mf["dst_ptr"], mechsOfFunc(fi), valClass(r.Val)))
			rep.Count("leaves_compared", r.Checked)
			rep.Count("assignments_executed", r.Executed)
			rep.Count("fresh_storage_verified", r.Fresh)
		}
		rep.Count("oracle_skipped_items", len(r.Skipped))
		for _, s := range r.Skipped {
			i := strings.Index(s, ": ")
			cl := s[i+2:]
			if j := strings.Index(cl, ":"); j > 0 {
				cl = cl[:j]
			}
			rep.Histo("oracle_skip_reason", cl)
		}
		rep.Histo("valuation", valClass(r.Val))
	}
}

// RunC02 is the check for C02.
func RunC02(e *core.Env) int {
	rep := core.NewReport(e, "exploration",
		"every generated function of accepted, type-correct random scenarios (broad profile) is compiled with instrumented callbacks and CALLED on 6 fixed valuations "+
			"(all-unique, all-zero, nil nested pointers, empty slices, extreme scalars, shared backing arrays) + K seeded random ones; per call the destination after the call is compared leaf by leaf "+
			"with a model = previous destination state overwritten by the observed plan's source expressions evaluated by reflection on the inputs; source/extra operands are dumped before/after; "+
			"distinct non-trivial = (style, recv, reverse, operand pointer-ness, mechanisms in the function, valuation class) with >=1 executed assignment and >=1 compared leaf")
	rep.Assume("callbacks are pure tagged functions, so re-invoking them (muted) in the oracle returns what the generated code's invocation returned",
		"leaves whose source expression traverses a nil pointer in that valuation are not judged (E-g)", "by-value destination operands under :reverse are compiled but not judged (E-i)")
	n, k := 300, 4
	if e.Tier == "thorough" {
		n, k = 4000, 20
	}
	runExecBatchesC(e, rep, "broad", n, 150, execmon.Job{NRandom: k}, corpusC02(), func(b *Batch, eo *ExecOut) {
		for id, infos := range eo.Infos {
			for key, fi := range infos {
				judgeC02(rep, fi, eo.Recs[id+"/"+key])
			}
		}
		if len(eo.Result.Recs) > 0 {
			r := eo.Result.Recs[0]
			rep.Sample(map[string]any{"scenario": r.Scen, "function": r.Fn, "valuation": r.Val, "trace": r.Trace, "leaves_compared": r.Checked, "assignments_executed": r.Executed,
				"setup": core.Trunc(findCase(b, r.Scen).S.Files[findCase(b, r.Scen).S.Setup], 800)}, 3)
		}
	})
	// functions of the other profiles as well (hooks, slices, error-heavy, notation-heavy, shapes)
	nx := 60
	if e.Tier == "thorough" {
		nx = 800
	}
	for _, prof := range []string{"notate", "shapes", "errs", "hooks", "slices", "match"} {
		runExecBatches(e, rep, prof, nx, 150, execmon.Job{NRandom: k, MutateHooks: prof == "hooks"}, func(b *Batch, eo *ExecOut) {
			for id, infos := range eo.Infos {
				for key, fi := range infos {
					judgeC02(rep, fi, eo.Recs[id+"/"+key])
				}
			}
		})
	}
	return rep.Finish()
}

// runExecBatches generates scenarios, runs the tool, then the exec engine per batch.
func runExecBatches(e *core.Env, rep *core.Report, profile string, n, batchSize int, job execmon.Job, judge func(b *Batch, eo *ExecOut)) {
	runExecBatchesC(e, rep, profile, n, batchSize, job, nil, judge)
}

func sortedKeys(m map[string]bool) []string {
	var r []string
	for k := range m {
		r = append(r, k)
	}
	sort.Strings(r)
	return r
}

// corpusC02 holds the witness of KF-C02-stringer-on-nil-pointer.
func corpusC02() []*scen.Scenario {
	b := scen.NewBuilder(nil, scen.Profile{}, "kw-c02-nilstringer", "kwc02a")
	b.Struct("", "A", "S *LStr", "K int")
	b.Struct("", "B", "S string", "K int")
	m := &scen.Method{Name: "StringerOnPointerField", Src: scen.Param{Type: "*A"}, Dst: scen.Param{Type: "*B"}, Notations: []scen.Notation{scen.N("stringer")},
		Probes: []scen.Probe{{Dst: "S", Mech: "diff", DstT: "string", SrcT: "*LStr"}, {Dst: "K", Mech: "same", DstT: "int", SrcT: "int"}}}
	return []*scen.Scenario{b.Manual(m)}
}

// runExecBatchesC is runExecBatches with corpus scenarios added to the first batch.
func runExecBatchesC(e *core.Env, rep *core.Report, profile string, n, batchSize int, job execmon.Job, corpus []*scen.Scenario, judge func(b *Batch, eo *ExecOut)) {
	for start, bi := 0, 0; start < n; start, bi = start+batchSize, bi+1 {
		end := start + batchSize
		if end > n {
			end = n
		}
		var ss []*scen.Scenario
		if bi == 0 {
			ss = append(ss, corpus...)
		}
		for i := start; i < end; i++ {
			ss = append(ss, GenByProfile(profile, e.Seed, i, fmt.Sprintf("s%05d", i)))
		}
		b, err := NewBatch(e, fmt.Sprintf("%s-x%d", profile, bi), ss)
		if err != nil {
			rep.Inconclusive("batch setup: " + err.Error())
			continue
		}
		b.RunTool(e, true)
		eo := ExecBatch(e, rep, b, job, "x")
		rep.Count("scenarios_generated", len(b.Cases))
		rep.Count("scenarios_not_runnable", eo.Skipped)
		if eo.Result == nil {
			continue
		}
		judge(b, eo)
	}
}
