package checks

// C19 — name and pattern matchers implement equality, case folding and RE2 search.
//
// The exported matcher API of pkg/option is driven in-process by the optprobe child
// (c19probe.go) on generated (pattern, path, case rule) cases; the reference answers are
// computed here with the standard library only:
//
//	plain pattern      <=>  pattern == path            (case rule on)
//	                        strings.EqualFold           (case rule off)
//	/re/ pattern       <=>  regexp.MustCompile(["(?i)"+]re).MatchString(path)
//	invalid /re/        =>  constructor error, and never a panic later
//	IdentMatcher.Match(x, true) <=> ==, (x, false) <=> EqualFold; CompareFieldName alike
//	FieldConverter.Match / NameMatcher.Match(.., true)  <=>  == on both paths
//	query k of a sequence on one matcher == the same query on a fresh matcher
//
// Parts: (a) exhaustive small scope, (b) random regexps from a grammar against sampled paths,
// (c) query sequences alternating the case rule, (m) the remaining comparison functions,
// (t) end to end through the tool (c19e2e.go).
// Failing inputs are shrunk (unit deletions, re-judged through the probe) and classified by
// the case-sensitive constructs left in the minimal input.

import (
	"bufio"
	"encoding/json"
	"fmt"
	"math/rand"
	"os"
	"path/filepath"
	"regexp"
	"regexp/syntax"
	"sort"
	"strings"
	"sync"
	"time"
	"unicode"
	"unicode/utf8"

	"vh/core"
)

func init() { Registry["C19"] = RunC19 }

type c19Query struct {
	Path  string `json:"path"`
	Path2 string `json:"path2,omitempty"`
	Exact bool   `json:"exact"`
}

type c19Case struct {
	Op        string     `json:"op"`
	ID        int        `json:"id"`
	Kind      string     `json:"kind"`
	Pattern   string     `json:"pattern"`
	Pattern2  string     `json:"pattern2,omitempty"`
	More      []string   `json:"more,omitempty"`
	ExactCtor bool       `json:"exact_ctor"`
	PathSet   string     `json:"pathset,omitempty"`
	Exact     bool       `json:"exact"`
	Queries   []c19Query `json:"queries,omitempty"`

	part    string   // a | b | c | m | shrink
	feats   []string // grammar features (coverage)
	seqOf   *c19Case // fresh-matcher twin of query seqIdx of this sequence case
	seqIdx  int
	row     int // (a): index of the pattern in its scope
	scope   *c19Scope
	group   int
	setOff  int // (a): index offset of the path set within scope.paths
	shrink  *c19Shrink
	candIdx int
}

type c19Out struct {
	ID        int               `json:"id"`
	CtorErr   string            `json:"ctor_err"`
	CtorPanic string            `json:"ctor_panic"`
	Ans       string            `json:"ans"`
	Panics    map[string]string `json:"panics"`
}

type c19PathSet struct {
	Op    string   `json:"op"`
	Name  string   `json:"name"`
	Paths []string `json:"paths"`
}

// c19Ref is the standard-library reference for one :skip pattern. The two regexps are compiled
// on first use (compiling (?i) over large Unicode classes is the expensive part of the oracle).
type c19Ref struct {
	isRe      bool
	valid     bool
	undecided bool // validity differs between the two case rules: the oracle abstains
	plain     string
	body      string
	reExact   *regexp.Regexp
	reFold    *regexp.Regexp
}

// c19RefCache memoises references per goroutine (one per batch).
type c19RefCache map[string]*c19Ref

func (rc c19RefCache) get(pattern string) *c19Ref {
	if rc == nil {
		return c19NewRef(pattern)
	}
	if r, ok := rc[pattern]; ok {
		return r
	}
	if len(rc) > 200_000 {
		for k := range rc {
			delete(rc, k)
		}
	}
	r := c19NewRef(pattern)
	rc[pattern] = r
	return r
}

func c19NewRef(pattern string) *c19Ref {
	r := &c19Ref{}
	if !c19IsRegexpForm(pattern) {
		r.plain = pattern
		r.valid = true
		return r
	}
	r.isRe = true
	r.body = pattern[1 : len(pattern)-1]
	// validity is decided by the parser alone (cheap); the prefix (?i) can only matter for size limits
	_, e1 := syntax.Parse(r.body, syntax.Perl)
	r.valid = e1 == nil
	if r.valid {
		var err error
		if r.reExact, err = regexp.Compile(r.body); err != nil {
			r.valid, r.undecided = false, true
		}
	}
	return r
}

func (r *c19Ref) match(path string, exact bool) bool {
	if !r.isRe {
		if exact {
			return r.plain == path
		}
		return strings.EqualFold(r.plain, path)
	}
	if exact {
		return r.reExact.MatchString(path)
	}
	if r.reFold == nil {
		re, err := regexp.Compile("(?i)" + r.body)
		if err != nil {
			r.undecided = true // (?i) form not compilable although the body is: the oracle abstains
			return false
		}
		r.reFold = re
	}
	return r.reFold.MatchString(path)
}

func (r *c19Ref) kind() string {
	if r.isRe {
		return "regexp"
	}
	return "plain"
}

// c19Fail is one failing singleton observation (constructor or one query on a fresh object).
type c19Fail struct {
	API       string
	Kind      string // plain | regexp | ident ...
	Symptom   string
	ProbeKind string
	Patterns  []string
	Pattern2  string
	CtorExact bool
	HasQuery  bool
	Path      string
	Path2     string
	Exact     bool
	Got       string
	Want      string
	Part      string
	Origin    string // description of the unshrunk input
	Minimal   bool   // already 1-minimal (exhaustive scope)
}

func (f *c19Fail) key() string {
	return fmt.Sprintf("%s|%s|%q|%q|%v|%v|%q|%q|%v", f.Symptom, f.ProbeKind, f.Patterns, f.Pattern2, f.CtorExact, f.HasQuery, f.Path, f.Path2, f.Exact)
}

var c19APIName = map[string]string{
	"pattern": "PatternMatcher.Match", "skip": "Options.ShouldSkip", "ident": "IdentMatcher.Match", "cmpname": "Options.CompareFieldName",
	"conv": "FieldConverter.Match", "namematch": "NameMatcher.Match", "literal": "LiteralSetter.Match",
}

// c19Scope is one exhaustive pattern x path scope of part (a).
type c19Scope struct {
	name     string
	patterns []string
	paths    []string
	// setFor returns the path-set name and its offset in paths for a pattern
	setFor func(p string) (string, int)
	sets   map[string][2]int // name -> [offset, end)
	pIndex map[string]int
	sIndex map[string]int
	// failing bits per group (kind x case x constructor-rule-switched): rows allocated on first failure
	mu    sync.Mutex
	wrong [8][][]uint64
	panic [8][][]uint64
}

func (s *c19Scope) init() {
	s.pIndex = map[string]int{}
	for i, p := range s.patterns {
		s.pIndex[p] = i
	}
	s.sIndex = map[string]int{}
	for i, p := range s.paths {
		s.sIndex[p] = i
	}
	for g := 0; g < 8; g++ {
		s.wrong[g] = make([][]uint64, len(s.patterns))
		s.panic[g] = make([][]uint64, len(s.patterns))
	}
}

func c19Bit(rows [][]uint64, row, col int) bool {
	r := rows[row]
	return r != nil && r[col/64]&(1<<uint(col%64)) != 0
}

type c19Ctx struct {
	e     *core.Env
	rep   *core.Report
	probe string
	dir   string

	mu       sync.Mutex
	nextID   int
	batchSeq int
	fails    []*c19Fail
	failSeen map[string]bool
	distinct map[string]bool
	nFailRaw int64
	nHistory map[string]int
}

// phase prints progress when VERIF_DEBUG is set.
func (x *c19Ctx) phase(name string) {
	if os.Getenv("VERIF_DEBUG") != "" {
		fmt.Fprintf(os.Stderr, "[c19 %6.1fs] %s (fails so far: %d)\n", time.Since(x.e.Start).Seconds(), name, len(x.fails))
	}
}

func (x *c19Ctx) addFail(f *c19Fail) {
	x.mu.Lock()
	defer x.mu.Unlock()
	x.nFailRaw++
	k := f.key()
	if x.failSeen[k] {
		return
	}
	x.failSeen[k] = true
	x.fails = append(x.fails, f)
}

func (x *c19Ctx) markDistinct(keys map[string]bool) {
	x.mu.Lock()
	for k := range keys {
		if !x.distinct[k] {
			x.distinct[k] = true
			x.rep.Distinct(k)
		}
	}
	x.mu.Unlock()
}

// c19BuildProbe writes the optprobe module under e.Work and builds it against e.Repo.
func c19BuildProbe(e *core.Env) (string, error) {
	dir := filepath.Join(e.Work, "optprobe")
	if err := os.MkdirAll(dir, 0o755); err != nil {
		return "", err
	}
	repo, err := filepath.Abs(e.Repo)
	if err != nil {
		return "", err
	}
	var sb strings.Builder
	sb.WriteString("module optprobe\n\ngo 1.19\n\nrequire github.com/reedom/convergen v0.0.0\n\nreplace github.com/reedom/convergen => " + repo + "\n")
	if b, err := os.ReadFile(filepath.Join(repo, "go.mod")); err == nil {
		in := false
		for _, line := range strings.Split(string(b), "\n") {
			t := strings.TrimSpace(line)
			switch {
			case strings.HasPrefix(t, "require ("):
				in = true
				sb.WriteString("\nrequire (\n")
			case in && t == ")":
				in = false
				sb.WriteString(")\n")
			case in:
				sb.WriteString(line + "\n")
			case strings.HasPrefix(t, "require "):
				sb.WriteString("\n" + t + "\n")
			}
		}
	}
	if err := os.WriteFile(filepath.Join(dir, "go.mod"), []byte(sb.String()), 0o644); err != nil {
		return "", err
	}
	if b, err := os.ReadFile(filepath.Join(repo, "go.sum")); err == nil {
		_ = os.WriteFile(filepath.Join(dir, "go.sum"), b, 0o644)
	}
	if err := os.WriteFile(filepath.Join(dir, "main.go"), []byte(c19ProbeSrc), 0o644); err != nil {
		return "", err
	}
	return e.BuildAux(dir, ".", "optprobe-bin")
}

// runBatch writes the batch to disk, feeds it to a probe child and returns the results by position.
func (x *c19Ctx) runBatch(sets []c19PathSet, cases []*c19Case) ([]*c19Out, error) {
	x.mu.Lock()
	x.batchSeq++
	name := fmt.Sprintf("batch-%05d", x.batchSeq)
	for _, c := range cases {
		x.nextID++
		c.ID = x.nextID
		c.Op = "case"
	}
	x.mu.Unlock()
	inPath := filepath.Join(x.dir, name+".in.jsonl")
	outPath := filepath.Join(x.dir, name+".out.jsonl")
	f, err := os.Create(inPath)
	if err != nil {
		return nil, err
	}
	w := bufio.NewWriterSize(f, 1<<20)
	enc := json.NewEncoder(w)
	enc.SetEscapeHTML(false)
	for i := range sets {
		sets[i].Op = "paths"
		if err := enc.Encode(&sets[i]); err != nil {
			return nil, err
		}
	}
	for _, c := range cases {
		if err := enc.Encode(c); err != nil {
			return nil, err
		}
	}
	if err := w.Flush(); err != nil {
		return nil, err
	}
	if err := f.Close(); err != nil {
		return nil, err
	}
	res := x.e.Run(core.RunSpec{Bin: "/bin/sh", Args: []string{"-c", `exec "$0" < "$1" > "$2"`, x.probe, inPath, outPath},
		Dir: x.dir, BaseEnv: []string{"PATH=" + os.Getenv("PATH"), "LANG=C", "GOTRACEBACK=single"}, WallSec: 900})
	outs := make([]*c19Out, len(cases))
	byID := map[int]int{}
	for i, c := range cases {
		byID[c.ID] = i
	}
	of, err := os.Open(outPath)
	if err == nil {
		rd := bufio.NewReaderSize(of, 1<<20)
		for {
			line, rerr := rd.ReadBytes('\n')
			if len(line) > 1 {
				var o c19Out
				if json.Unmarshal(line, &o) == nil {
					if i, ok := byID[o.ID]; ok {
						oc := o
						outs[i] = &oc
					}
				}
			}
			if rerr != nil {
				break
			}
		}
		of.Close()
	}
	missing := -1
	for i := range outs {
		if outs[i] == nil {
			missing = i
			break
		}
	}
	if res.TimedOut {
		return outs, fmt.Errorf("probe watchdog on %s", inPath)
	}
	if missing >= 0 || res.Exit != 0 {
		// a crash that recover() cannot catch: the first case without a result is the culprit
		if missing >= 0 && res.Exit != 0 && res.Exit != 3 {
			c := cases[missing]
			cb, _ := json.Marshal(c)
			x.rep.Violate(&core.Violation{Property: "C19", Monitor: "optprobe", Symptom: "fatal-crash",
				Features: map[string]string{"api": c19APIName[c.Kind]}, Case: fmt.Sprintf("%s#%d", name, c.ID),
				Detail: fmt.Sprintf("probe process died (exit %d %s) while executing case %s\nstderr: %s", res.Exit, res.Signal, cb, core.Trunc(res.Stderr, 1500)),
				Files:  map[string]string{"case.jsonl": string(cb) + "\n", "optprobe_main.go": c19ProbeSrc, "stderr.txt": res.Stderr}})
		}
		return outs, fmt.Errorf("probe exit=%d, %d results missing from %s: %s", res.Exit, len(cases)-missing, inPath, core.Trunc(res.Stderr, 300))
	}
	_ = os.Remove(inPath)
	_ = os.Remove(outPath)
	return outs, nil
}

// c19Symptom judges the constructor outcome of a case against the reference.
// It returns (symptom, proceed): proceed says whether the answers are to be judged.
func c19CtorSymptom(c *c19Case, o *c19Out, refs []*c19Ref) (string, bool) {
	if o.CtorPanic != "" {
		return "ctor-panic", false
	}
	if c.Kind != "pattern" && c.Kind != "skip" {
		if o.CtorErr != "" {
			return "ctor-error", false
		}
		return "", true
	}
	valid, allPlain := true, true
	for _, r := range refs {
		if r.undecided {
			return "", false
		}
		valid = valid && r.valid
		allPlain = allPlain && !r.isRe
	}
	switch {
	case o.CtorErr != "" && valid && allPlain:
		return "ctor-rejects-plain-pattern", false
	case o.CtorErr != "" && valid:
		return "ctor-rejects-valid-regexp", false
	case o.CtorErr == "" && !valid:
		return "ctor-accepts-invalid-regexp", false
	case o.CtorErr != "":
		return "", false // invalid regexp rejected: held
	}
	return "", true
}

// c19Want computes the reference answer of one query.
func c19Want(c *c19Case, q *c19Query, refs []*c19Ref) bool {
	switch c.Kind {
	case "pattern", "skip":
		for _, r := range refs {
			if r.match(q.Path, q.Exact) {
				return true
			}
		}
		return false
	case "ident", "cmpname", "literal":
		if q.Exact {
			return c.Pattern == q.Path
		}
		return strings.EqualFold(c.Pattern, q.Path)
	case "conv":
		return c.Pattern == q.Path && c.Pattern2 == q.Path2
	case "namematch":
		if q.Exact {
			return c.Pattern == q.Path && c.Pattern2 == q.Path2
		}
		return strings.EqualFold(c.Pattern, q.Path) && strings.EqualFold(c.Pattern2, q.Path2)
	}
	return false
}

func c19Refs(c *c19Case, rc c19RefCache) []*c19Ref {
	if c.Kind != "pattern" && c.Kind != "skip" {
		return nil
	}
	refs := []*c19Ref{rc.get(c.Pattern)}
	for _, p := range c.More {
		refs = append(refs, rc.get(p))
	}
	return refs
}

func c19KindOf(c *c19Case, refs []*c19Ref) string {
	if len(refs) == 0 {
		return c.Kind
	}
	k := refs[0].kind()
	for _, r := range refs[1:] {
		if r.kind() != k {
			return "mixed"
		}
	}
	return k
}

// c19SymptomsOf returns the symptom of the constructor ("" if fine) and of every query.
func c19SymptomsOf(c *c19Case, o *c19Out, rc c19RefCache) (ctor string, qs []string, wants []bool) {
	refs := c19Refs(c, rc)
	ctor, proceed := c19CtorSymptom(c, o, refs)
	if !proceed {
		return ctor, nil, nil
	}
	qs = make([]string, len(c.Queries))
	wants = make([]bool, len(c.Queries))
	for i := range c.Queries {
		if i >= len(o.Ans) {
			qs[i] = "no-answer"
			continue
		}
		wants[i] = c19Want(c, &c.Queries[i], refs)
		switch o.Ans[i] {
		case 'P':
			qs[i] = "panic"
		case '1':
			if !wants[i] {
				qs[i] = "wrong-answer"
			}
		case '0':
			if wants[i] {
				qs[i] = "wrong-answer"
			}
		}
	}
	for _, r := range refs {
		if r.undecided {
			return "", nil, nil
		}
	}
	return ctor, qs, wants
}

func c19Bool01(b bool) string {
	if b {
		return "1"
	}
	return "0"
}

// judgeExplicit judges a case with an explicit query list (parts b, c, m); every query is treated
// as a fresh-object observation only when the case has a single case rule throughout
// (no history), otherwise only through its fresh twins.
func (x *c19Ctx) judgeExplicit(c *c19Case, o *c19Out, dk map[string]bool, rc c19RefCache) {
	refs := c19Refs(c, rc)
	kind := c19KindOf(c, refs)
	ctor, qs, wants := c19SymptomsOf(c, o, rc)
	x.rep.Eval(1 + len(qs))
	pats := append([]string{c.Pattern}, c.More...)
	origin := fmt.Sprintf("kind=%s patterns=%q pattern2=%q exact_ctor=%v", c.Kind, pats, c.Pattern2, c.ExactCtor)
	if ctor != "" {
		x.addFail(&c19Fail{API: c19APIName[c.Kind], Kind: kind, Symptom: ctor, ProbeKind: c.Kind, Patterns: pats, Pattern2: c.Pattern2,
			CtorExact: c.ExactCtor, Got: "ctor_err=" + o.CtorErr + " ctor_panic=" + o.CtorPanic, Part: c.part, Origin: origin})
		dk[fmt.Sprintf("%s|%s|%s|ctor-case=%v|%s", c.part, c.Kind, kind, c.ExactCtor, ctor)] = true
		return
	}
	if qs == nil {
		outcome := "oracle-abstains"
		if o.CtorErr != "" {
			outcome = "invalid-rejected"
			x.rep.Count("invalid_regexp_rejected", 1)
		}
		dk[fmt.Sprintf("%s|%s|%s|ctor-case=%v|%s", c.part, c.Kind, kind, c.ExactCtor, outcome)] = true
		for _, f := range c.feats {
			dk[fmt.Sprintf("%s|feat=%s|%s", c.part, f, outcome)] = true
		}
		return
	}
	if c.seqOf == nil && c.part == "c" {
		return // the sequence itself: judged against its fresh twins by the caller
	}
	for i, q := range c.Queries {
		switched := c.ExactCtor != q.Exact && (c.Kind == "pattern" || c.Kind == "skip")
		dk[fmt.Sprintf("%s|%s|%s|case=%v|switched=%v|want=%v|%s", c.part, c.Kind, kind, q.Exact, switched, wants[i], map[bool]string{true: "agree", false: "differ"}[qs[i] == ""])] = true
		for _, f := range c.feats {
			dk[fmt.Sprintf("%s|feat=%s|case=%v|want=%v", c.part, f, q.Exact, wants[i])] = true
		}
		if qs[i] == "" {
			continue
		}
		got := string(o.Ans[i])
		if p, ok := o.Panics[fmt.Sprint(i)]; ok {
			got = "panic: " + p
		}
		x.addFail(&c19Fail{API: c19APIName[c.Kind], Kind: kind, Symptom: qs[i], ProbeKind: c.Kind, Patterns: pats, Pattern2: c.Pattern2,
			CtorExact: c.ExactCtor, HasQuery: true, Path: q.Path, Path2: q.Path2, Exact: q.Exact, Got: got, Want: c19Bool01(wants[i]),
			Part: c.part, Origin: origin + fmt.Sprintf(" path=%q path2=%q exact=%v", q.Path, q.Path2, q.Exact)})
	}
}

// judgeSet judges a path-set case of part (a) and records failing bits in the scope.
func (x *c19Ctx) judgeSet(c *c19Case, o *c19Out, dk map[string]bool) {
	s := c.scope
	ref := c19NewRef(c.Pattern)
	set := s.sets[c.PathSet]
	paths := s.paths[set[0]:set[1]]
	refs := []*c19Ref{ref}
	ctor, proceed := c19CtorSymptom(c, o, refs)
	plen := len([]rune(s.patterns[c.row]))
	if ctor != "" {
		x.rep.Eval(1)
		x.addFail(&c19Fail{API: c19APIName[c.Kind], Kind: ref.kind(), Symptom: ctor, ProbeKind: c.Kind, Patterns: []string{c.Pattern},
			CtorExact: c.ExactCtor, Got: "ctor_err=" + o.CtorErr + " ctor_panic=" + o.CtorPanic, Part: "a", Origin: "scope " + s.name})
		dk[fmt.Sprintf("a|%s|%s|case=%v|plen=%d|%s", s.name, ref.kind(), c.Exact, plen, ctor)] = true
		return
	}
	if !proceed {
		x.rep.Eval(1)
		dk[fmt.Sprintf("a|%s|%s|case=%v|plen=%d|no-matcher", s.name, ref.kind(), c.Exact, plen)] = true
		return
	}
	x.rep.Eval(1 + len(paths))
	if len(o.Ans) != len(paths) {
		x.rep.Inconclusive(fmt.Sprintf("probe answered %d of %d queries for pattern %q", len(o.Ans), len(paths), c.Pattern))
		return
	}
	var wrong, pan []uint64
	nw := (len(s.paths) + 63) / 64
	var seenLen [8][2]bool
	for i, p := range paths {
		want := ref.match(p, c.Exact)
		if rl := utf8.RuneCountInString(p); rl < 8 {
			w := 0
			if want {
				w = 1
			}
			seenLen[rl][w] = true
		}
		a := o.Ans[i]
		col := set[0] + i
		switch {
		case a == 'P':
			if pan == nil {
				pan = make([]uint64, nw)
			}
			pan[col/64] |= 1 << uint(col%64)
		case (a == '1') != want:
			if wrong == nil {
				wrong = make([]uint64, nw)
			}
			wrong[col/64] |= 1 << uint(col%64)
		}
	}
	if ref.undecided {
		return
	}
	for l := range seenLen {
		for w := 0; w < 2; w++ {
			if seenLen[l][w] {
				dk[fmt.Sprintf("a|%s|%s|case=%v|switched=%v|plen=%d|slen=%d|want=%v", s.name, ref.kind(), c.Exact, c.Exact != c.ExactCtor, plen, l, w == 1)] = true
			}
		}
	}
	if wrong != nil || pan != nil {
		s.mu.Lock()
		if wrong != nil {
			s.wrong[c.group][c.row] = wrong
		}
		if pan != nil {
			s.panic[c.group][c.row] = pan
		}
		s.mu.Unlock()
	}
}

func c19DropRune(s string) []string {
	rs := []rune(s)
	var out []string
	for i := range rs {
		out = append(out, string(rs[:i])+string(rs[i+1:]))
	}
	return out
}

// minimalFails turns the failing bits of a scope into fail records, keeping only pairs none of
// whose single-rune deletions (of pattern or path) fails in the same way.
func (x *c19Ctx) minimalFails(s *c19Scope) {
	for g := 0; g < 8; g++ {
		isRe, exact, switched := g&1 != 0, g&2 != 0, g&4 != 0
		for symIdx, rows := range [2][][]uint64{s.wrong[g], s.panic[g]} {
			sym := []string{"wrong-answer", "panic"}[symIdx]
			total, minimal := 0, 0
			for pi, row := range rows {
				if row == nil {
					continue
				}
				for si := range s.paths {
					if row[si/64]&(1<<uint(si%64)) == 0 {
						continue
					}
					total++
					isMin := true
					for _, p2 := range c19DropRune(s.patterns[pi]) {
						if j, ok := s.pIndex[p2]; ok && c19Bit(rows, j, si) {
							isMin = false
							break
						}
					}
					if isMin {
						for _, s2 := range c19DropRune(s.paths[si]) {
							if j, ok := s.sIndex[s2]; ok && c19Bit(rows, pi, j) {
								isMin = false
								break
							}
						}
					}
					if isMin {
					pairs:
						for _, p2 := range c19DropRune(s.patterns[pi]) {
							j, ok := s.pIndex[p2]
							if !ok || rows[j] == nil {
								continue
							}
							for _, s2 := range c19DropRune(s.paths[si]) {
								if k, ok := s.sIndex[s2]; ok && c19Bit(rows, j, k) {
									isMin = false
									break pairs
								}
							}
						}
					}
					if !isMin {
						continue
					}
					minimal++
					pat := s.patterns[pi]
					kind := "plain"
					if isRe {
						pat = "/" + pat + "/"
						kind = "regexp"
					}
					ref := c19NewRef(pat)
					want := ref.match(s.paths[si], exact)
					got := c19Bool01(!want)
					if sym == "panic" {
						got = "panic"
					}
					x.addFail(&c19Fail{API: c19APIName["pattern"], Kind: kind, Symptom: sym, ProbeKind: "pattern", Patterns: []string{pat},
						CtorExact: exact != switched, HasQuery: true, Path: s.paths[si], Exact: exact, Got: got, Want: c19Bool01(want), Part: "a",
						Origin: "exhaustive scope " + s.name, Minimal: true})
				}
			}
			if total > 0 {
				x.rep.Count(fmt.Sprintf("a_%s_%s_kind=%s_case=%v_switched=%v_failing_pairs", s.name, sym, map[bool]string{false: "plain", true: "regexp"}[isRe], exact, switched), total)
				x.rep.Count(fmt.Sprintf("a_%s_%s_kind=%s_case=%v_switched=%v_minimal_pairs", s.name, sym, map[bool]string{false: "plain", true: "regexp"}[isRe], exact, switched), minimal)
			}
		}
	}
}

// runScope enumerates one scope of part (a): every pattern as plain and as /regexp/, queried under
// both case rules, constructed under the same and under the other rule, against its path set.
func (x *c19Ctx) runScope(s *c19Scope) {
	s.init()
	var cases []*c19Case
	for g := 0; g < 8; g++ {
		isRe, exact, switched := g&1 != 0, g&2 != 0, g&4 != 0
		for pi, p := range s.patterns {
			pat := p
			if isRe {
				pat = "/" + p + "/"
			}
			name, off := s.setFor(p)
			cases = append(cases, &c19Case{Kind: "pattern", Pattern: pat, ExactCtor: exact != switched, Exact: exact, PathSet: name,
				part: "a", row: pi, scope: s, group: g, setOff: off})
		}
	}
	var sets []c19PathSet
	var names []string
	for n := range s.sets {
		names = append(names, n)
	}
	sort.Strings(names)
	for _, n := range names {
		r := s.sets[n]
		sets = append(sets, c19PathSet{Name: n, Paths: s.paths[r[0]:r[1]]})
	}
	// batches bounded by number of queries (about 4 M per child)
	var batches [][]*c19Case
	var cur []*c19Case
	w := 0
	for _, c := range cases {
		r := s.sets[c.PathSet]
		cur = append(cur, c)
		w += r[1] - r[0]
		if w >= 4_000_000 || len(cur) >= 50_000 {
			batches = append(batches, cur)
			cur, w = nil, 0
		}
	}
	if len(cur) > 0 {
		batches = append(batches, cur)
	}
	x.e.Parallel(len(batches), func(bi int) {
		b := batches[bi]
		outs, err := x.runBatch(append([]c19PathSet{}, sets...), b)
		if err != nil {
			x.rep.Inconclusive("part a " + s.name + ": " + err.Error())
		}
		dk := map[string]bool{}
		for i, c := range b {
			if outs[i] == nil {
				continue
			}
			x.judgeSet(c, outs[i], dk)
		}
		x.markDistinct(dk)
	})
	x.minimalFails(s)
}

// runExplicit runs explicit-query cases in batches of about 4 000 (so that all cores are used) and judges them.
func (x *c19Ctx) runExplicit(label string, cases []*c19Case) {
	const per = 4_000
	var batches [][]*c19Case
	for i := 0; i < len(cases); {
		j := i + per
		if j > len(cases) {
			j = len(cases)
		}
		// keep a sequence and its fresh twins in one batch
		for j < len(cases) && cases[j].seqOf != nil {
			j++
		}
		batches = append(batches, cases[i:j])
		i = j
	}
	x.e.Parallel(len(batches), func(bi int) {
		b := batches[bi]
		outs, err := x.runBatch(nil, b)
		if err != nil {
			x.rep.Inconclusive("part " + label + ": " + err.Error())
		}
		dk := map[string]bool{}
		rc := c19RefCache{}
		outOf := map[*c19Case]*c19Out{}
		for i, c := range b {
			if outs[i] == nil {
				continue
			}
			outOf[c] = outs[i]
			x.judgeExplicit(c, outs[i], dk, rc)
		}
		// history independence: answer k of a sequence == answer of its fresh twin
		for _, c := range b {
			if c.seqOf == nil {
				continue
			}
			so, fo := outOf[c.seqOf], outOf[c]
			if so == nil || fo == nil {
				continue
			}
			if so.CtorErr != fo.CtorErr || so.CtorPanic != fo.CtorPanic {
				x.historyViolation(c, so, fo, "constructor outcome differs between two constructions of the same matcher")
				continue
			}
			if so.CtorErr != "" || so.CtorPanic != "" {
				continue
			}
			x.rep.Count("sequence_answers_compared_with_fresh_matcher", 1)
			if c.seqIdx >= len(so.Ans) || len(fo.Ans) < 1 || so.Ans[c.seqIdx] != fo.Ans[0] {
				x.historyViolation(c, so, fo, "")
			} else {
				dk[fmt.Sprintf("c|history|%s|pos=%d|case=%v|ans=%c", c.Kind, c.seqIdx, c.Queries[0].Exact, fo.Ans[0])] = true
			}
		}
		x.markDistinct(dk)
	})
}

func (x *c19Ctx) historyViolation(c *c19Case, so, fo *c19Out, what string) {
	seq := c.seqOf
	sb, _ := json.Marshal(seq)
	fb, _ := json.Marshal(c)
	if what == "" {
		what = fmt.Sprintf("query %d of the sequence answered %q, the same query on a fresh matcher answered %q", c.seqIdx, so.Ans, fo.Ans)
	}
	kind := c19KindOf(c, c19Refs(c, nil))
	x.mu.Lock()
	x.nHistory[c19APIName[c.Kind]+"/"+kind]++
	n := x.nHistory[c19APIName[c.Kind]+"/"+kind]
	x.mu.Unlock()
	if n > 3 {
		x.rep.Count("history_violations_not_stored_individually", 1)
		return
	}
	x.rep.Violate(&core.Violation{Property: "C19", Monitor: "optprobe", Symptom: "history-dependent-answer",
		Features: map[string]string{"api": c19APIName[c.Kind], "kind": kind},
		Case:     fmt.Sprintf("seq#%d/%d", seq.ID, c.seqIdx),
		Detail:   what + "\nsequence case: " + string(sb) + "\nfresh case:    " + string(fb) + fmt.Sprintf("\nsequence result: %+v\nfresh result:    %+v", *so, *fo),
		Files:    map[string]string{"cases.jsonl": string(sb) + "\n" + string(fb) + "\n", "optprobe_main.go": c19ProbeSrc, "README.txt": c19ReplayReadme}})
}

const c19ReplayReadme = `Replay: create a module (go.mod: module optprobe; go 1.19; require github.com/reedom/convergen v0.0.0;
replace github.com/reedom/convergen => /repo), copy /repo/go.sum, save optprobe_main.go as main.go,
go build -tags verif -o optprobe . && ./optprobe < cases.jsonl
Answers: one character per query, 0 = false, 1 = true, P = panic.
`

// ---------------------------------------------------------------------------------------
// shrinking

type c19State struct {
	patterns []string
	pattern2 string
	path     string
	path2    string
	hasQuery bool
}

type c19Shrink struct {
	f     *c19Fail
	cur   c19State
	cands []c19State
	phase int
	alias *c19Shrink // merged into another problem with the same state
	got   string     // observation on the current (shrunk) state
	want  string
}

func (st c19State) size() int {
	n := len(st.pattern2) + len(st.path) + len(st.path2)
	for _, p := range st.patterns {
		n += len(p)
	}
	return n
}

// candidates lists smaller states, most aggressive first (bounded).
func c19Candidates(st c19State, probeKind string) []c19State {
	var out []c19State
	add := func(n c19State) {
		if len(out) < 160 {
			out = append(out, n)
		}
	}
	if len(st.patterns) > 1 {
		for i := range st.patterns {
			n := st
			n.patterns = []string{st.patterns[i]}
			add(n)
		}
	}
	if st.hasQuery {
		for _, p := range c19DeleteCandidates(c19Units(st.path), false) {
			n := st
			n.path = p
			add(n)
		}
	}
	for i, p := range st.patterns {
		var vars []string
		if c19IsRegexpForm(p) && (probeKind == "pattern" || probeKind == "skip") {
			for _, b := range c19DeleteCandidates(c19Units(p[1:len(p)-1]), true) {
				vars = append(vars, "/"+b+"/")
			}
		} else {
			for _, b := range c19DeleteCandidates(c19Units(p), false) {
				if c19IsRegexpForm(b) && !c19IsRegexpForm(p) {
					continue // do not turn a plain pattern into a regexp
				}
				vars = append(vars, b)
			}
		}
		for _, v := range vars {
			n := st
			n.patterns = append(append([]string{}, st.patterns[:i]...), v)
			n.patterns = append(n.patterns, st.patterns[i+1:]...)
			add(n)
		}
	}
	if st.pattern2 != "" || st.path2 != "" {
		for _, p := range c19DeleteCandidates(c19Units(st.pattern2), false) {
			if p == "" {
				continue // an empty destination means "same as source" to NewNameMatcher
			}
			n := st
			n.pattern2 = p
			add(n)
		}
		for _, p := range c19DeleteCandidates(c19Units(st.path2), false) {
			n := st
			n.path2 = p
			add(n)
		}
	}
	return out
}

func c19StateCase(f *c19Fail, st c19State) *c19Case {
	c := &c19Case{Kind: f.ProbeKind, Pattern: st.patterns[0], More: st.patterns[1:], Pattern2: st.pattern2, ExactCtor: f.CtorExact, part: "shrink"}
	if st.hasQuery {
		c.Queries = []c19Query{{Path: st.path, Path2: st.path2, Exact: f.Exact}}
	}
	return c
}

// stateKey identifies a shrink problem: two fails with the same key shrink identically.
func (sh *c19Shrink) stateKey() string {
	f := sh.f
	return fmt.Sprintf("%s|%s|%v|%v|%q|%q|%q|%q|%v", f.Symptom, f.ProbeKind, f.CtorExact, f.Exact, sh.cur.patterns, sh.cur.pattern2, sh.cur.path, sh.cur.path2, sh.cur.hasQuery)
}

// c19PairCandidates removes one unit of the (single) pattern together with one unit of the path:
// a plain pattern and its path only stay comparable when both shrink in step.
func c19PairCandidates(st c19State) []c19State {
	if !st.hasQuery || len(st.patterns) != 1 {
		return nil
	}
	p := st.patterns[0]
	isRe := c19IsRegexpForm(p)
	body := p
	if isRe {
		body = p[1 : len(p)-1]
	}
	pu, su := c19Units(body), c19Units(st.path)
	var out []c19State
	for i := range pu {
		for j := range su {
			if len(out) >= 144 {
				return out
			}
			nb := strings.Join(pu[:i], "") + strings.Join(pu[i+1:], "")
			if isRe {
				nb = "/" + nb + "/"
			} else if c19IsRegexpForm(nb) {
				continue
			}
			n := st
			n.patterns = []string{nb}
			n.path = strings.Join(su[:j], "") + strings.Join(su[j+1:], "")
			out = append(out, n)
		}
	}
	return out
}

// shrinkAll minimises every non-minimal fail by rounds of candidate evaluation through the probe.
// Phase 0 tries one-sided deletions, phase 1 (only at a phase-0 fixpoint) paired deletions.
// Fails that reach the same state are merged.
func (x *c19Ctx) shrinkAll(fails []*c19Fail) map[*c19Fail]c19State {
	res := map[*c19Fail]c19State{}
	var all, live []*c19Shrink
	for _, f := range fails {
		st := c19State{patterns: f.Patterns, pattern2: f.Pattern2, path: f.Path, path2: f.Path2, hasQuery: f.HasQuery}
		res[f] = st
		if !f.Minimal {
			sh := &c19Shrink{f: f, cur: st, phase: -1}
			all = append(all, sh)
			live = append(live, sh)
		}
	}
	for round := 0; round < 200 && len(live) > 0; round++ {
		// merge identical problems
		byKey := map[string]*c19Shrink{}
		var uniq []*c19Shrink
		for _, sh := range live {
			k := sh.stateKey() + fmt.Sprint(sh.phase)
			if r, ok := byKey[k]; ok {
				sh.alias = r
				continue
			}
			byKey[k] = sh
			uniq = append(uniq, sh)
		}
		live = uniq
		const chunk = 400
		nb := (len(live) + chunk - 1) / chunk
		progressed := make([]bool, len(live))
		x.e.Parallel(nb, func(bi int) {
			lo, hi := bi*chunk, (bi+1)*chunk
			if hi > len(live) {
				hi = len(live)
			}
			var cases []*c19Case
			for _, sh := range live[lo:hi] {
				switch sh.phase {
				case -1:
					sh.cands = c19IsolateCandidates(sh.cur)
				case 0:
					sh.cands = c19Candidates(sh.cur, sh.f.ProbeKind)
				case 1:
					sh.cands = c19PairCandidates(sh.cur)
				default:
					sh.cands = c19CanonCandidates(sh.cur)
				}
				for k, cand := range sh.cands {
					c := c19StateCase(sh.f, cand)
					c.shrink, c.candIdx = sh, k
					cases = append(cases, c)
				}
			}
			x.rep.Count("shrink_probe_cases", len(cases))
			if len(cases) == 0 {
				return
			}
			outs, err := x.runBatch(nil, cases)
			if err != nil {
				x.rep.Inconclusive("shrink: " + err.Error())
			}
			rc := c19RefCache{}
			best := map[*c19Shrink]int{}
			bestCase := map[*c19Shrink]int{}
			for i, c := range cases {
				if outs[i] == nil {
					continue
				}
				ctor, qs, _ := c19SymptomsOf(c, outs[i], rc)
				sym := ctor
				if sym == "" && len(qs) > 0 {
					sym = qs[0]
				}
				if sym != c.shrink.f.Symptom {
					continue
				}
				if k, ok := best[c.shrink]; !ok || c.candIdx < k {
					best[c.shrink] = c.candIdx
					bestCase[c.shrink] = i
				}
			}
			for i, sh := range live[lo:hi] {
				if k, ok := best[sh]; ok {
					sh.cur = sh.cands[k]
					sh.phase = 0
					progressed[lo+i] = true
					c, o := cases[bestCase[sh]], outs[bestCase[sh]]
					if _, qs, wants := c19SymptomsOf(c, o, rc); len(qs) > 0 && len(o.Ans) > 0 {
						sh.got, sh.want = string(o.Ans[0]), c19Bool01(wants[0])
						if p, ok := o.Panics["0"]; ok {
							sh.got = "panic: " + p
						}
					} else {
						sh.got = "ctor_err=" + o.CtorErr + " ctor_panic=" + o.CtorPanic
					}
				}
			}
		})
		var next []*c19Shrink
		for i, sh := range live {
			switch {
			case progressed[i]:
				next = append(next, sh)
			case sh.phase < 2:
				sh.phase++
				next = append(next, sh)
			}
		}
		if os.Getenv("VERIF_DEBUG") != "" {
			fmt.Fprintf(os.Stderr, "[c19 %6.1fs] shrink round %d: %d problems, %d remain\n", time.Since(x.e.Start).Seconds(), round, len(live), len(next))
		}
		live = next
	}
	for _, sh := range all {
		r := sh
		for r.alias != nil {
			r = r.alias
		}
		res[sh.f] = r.cur
		if r.got != "" {
			sh.f.Got, sh.f.Want = r.got, r.want
		}
	}
	return res
}

// c19IsolateCandidates is the first, most aggressive step: one unit of the pattern alone against
// one rune of the path (then against the whole path). Most failures are caused by one construct.
func c19IsolateCandidates(st c19State) []c19State {
	if !st.hasQuery || len(st.patterns) == 0 {
		return nil
	}
	var out []c19State
	rs := []rune(st.path)
	var singles []string
	seen := map[string]bool{}
	for _, c := range rs {
		if !seen[string(c)] {
			seen[string(c)] = true
			singles = append(singles, string(c))
		}
	}
	for _, p := range st.patterns {
		isRe := c19IsRegexpForm(p)
		body := p
		if isRe {
			body = p[1 : len(p)-1]
		}
		seenU := map[string]bool{}
		for _, u := range c19Units(body) {
			if seenU[u] || u == "/" && !isRe {
				continue
			}
			seenU[u] = true
			np := u
			if isRe {
				np = "/" + u + "/"
			}
			for _, one := range append(append([]string{}, singles...), st.path) {
				if len(out) >= 240 {
					return out
				}
				n := st
				n.patterns = []string{np}
				n.path = one
				if n.size() < st.size() {
					out = append(out, n)
				}
			}
		}
	}
	return out
}

// c19CanonCandidates replaces single characters by 'a' (path runes, and letter/digit literals of
// the pattern outside escapes) so that incidental characters do not show up in the cause.
func c19CanonCandidates(st c19State) []c19State {
	var out []c19State
	if st.hasQuery {
		rs := []rune(st.path)
		for i, c := range rs {
			if c != 'a' {
				n := st
				n.path = string(rs[:i]) + "a" + string(rs[i+1:])
				out = append(out, n)
			}
		}
	}
	for pi, p := range st.patterns {
		isRe := c19IsRegexpForm(p)
		body := p
		if isRe {
			body = p[1 : len(p)-1]
		}
		us := c19Units(body)
		for i, u := range us {
			rs := []rune(u)
			if len(rs) != 1 || rs[0] == 'a' || !(unicode.IsLetter(rs[0]) || unicode.IsDigit(rs[0])) {
				continue
			}
			nb := strings.Join(us[:i], "") + "a" + strings.Join(us[i+1:], "")
			if isRe {
				nb = "/" + nb + "/"
			}
			n := st
			n.patterns = append(append(append([]string{}, st.patterns[:pi]...), nb), st.patterns[pi+1:]...)
			out = append(out, n)
		}
	}
	if len(out) > 60 {
		out = out[:60]
	}
	return out
}

// report shrinks the collected fails and turns them into violations (at most 3 per fingerprint).
func (x *c19Ctx) report() {
	sort.SliceStable(x.fails, func(i, j int) bool { return x.fails[i].key() < x.fails[j].key() })
	shrunk := x.shrinkAll(x.fails)
	perFP := map[string]int{}
	seenMin := map[string]bool{}
	var vs []*core.Violation
	for _, f := range x.fails {
		st := shrunk[f]
		var paths []string
		if st.hasQuery {
			paths = []string{st.path, st.path2}
		}
		cause := c19Cause(append(append([]string{}, st.patterns...), st.pattern2), paths...)
		kind := f.Kind
		if f.ProbeKind == "pattern" || f.ProbeKind == "skip" {
			kind = "plain"
			for _, p := range st.patterns {
				if c19IsRegexpForm(p) {
					kind = "regexp"
				}
			}
		}
		feat := map[string]string{"api": f.API, "kind": kind, "cause": cause}
		if f.HasQuery {
			feat["case"] = map[bool]string{true: "on", false: "off"}[f.Exact]
		}
		// the constructor's case rule is part of the class only where it is the trigger
		if (f.ProbeKind == "pattern" || f.ProbeKind == "skip") && f.Symptom != "wrong-answer" {
			feat["ctor_case"] = map[bool]string{true: "on", false: "off"}[f.CtorExact]
		}
		c := c19StateCase(f, st)
		c.Op = "case"
		cb, _ := json.Marshal(c)
		minKey := f.Symptom + "|" + string(cb)
		if seenMin[minKey] {
			x.rep.Count("fails_with_identical_minimal_input", 1)
			continue
		}
		seenMin[minKey] = true
		vs = append(vs, &core.Violation{Property: "C19", Monitor: "optprobe", Symptom: f.Symptom, Features: feat,
			Case: fmt.Sprintf("%s:%s", f.Part, core.Hash(string(cb))),
			Detail: fmt.Sprintf("minimal input: %s\nobserved: %s   reference: %s\nfound in part (%s) from: %s", cb, f.Got,
				map[bool]string{true: f.Want, false: "constructor outcome per regexp.Compile"}[f.HasQuery], f.Part, f.Origin),
			Files: map[string]string{"cases.jsonl": string(cb) + "\n", "optprobe_main.go": c19ProbeSrc, "README.txt": c19ReplayReadme}})
	}
	// Options.ShouldSkip only iterates PatternMatcher.Match: its violations are reported only when
	// the same class was not observed on PatternMatcher.Match itself in this run.
	direct := map[string]bool{}
	for _, v := range vs {
		if v.Features["api"] == c19APIName["pattern"] {
			direct[v.Fingerprint()] = true
		}
	}
	for _, v := range vs {
		if v.Features["api"] == c19APIName["skip"] {
			v.Features["api"] = c19APIName["pattern"]
			sub := direct[v.Fingerprint()]
			v.Features["api"] = c19APIName["skip"]
			if sub {
				x.rep.Count("shouldskip_violations_explained_by_patternmatcher_class", 1)
				continue
			}
		}
		fp := v.Fingerprint()
		perFP[fp]++
		if perFP[fp] <= 3 {
			x.rep.Violate(v)
		}
	}
	if len(perFP) > 0 {
		x.rep.Extra("distinct_minimal_failing_inputs_per_fingerprint", perFP)
	}
	x.rep.Count("failing_observations", int(x.nFailRaw))
	x.rep.Count("failing_observations_distinct", len(x.fails))
}

// ---------------------------------------------------------------------------------------
// case generation

func c19RandPlain(r *rand.Rand) string {
	segs := 1 + r.Intn(3)
	var parts []string
	words := []string{"Name", "ID", "userID", "Status", "kind", "Strasse", "Straße", "Kelvin", "ΣΑΣ", "σας", "İstanbul", "istanbul", "ſet", "Set", "x", "URL", "a1", "_tmp", "É", "é"}
	for i := 0; i < segs; i++ {
		parts = append(parts, words[r.Intn(len(words))])
	}
	return strings.Join(parts, ".")
}

func c19Perturb(r *rand.Rand, s string) string {
	rs := []rune(s)
	switch r.Intn(6) {
	case 0:
		return s
	case 1:
		return strings.ToUpper(s)
	case 2:
		return strings.ToLower(s)
	case 3:
		if len(rs) > 0 {
			rs[r.Intn(len(rs))] = c19PathRunes[r.Intn(len(c19PathRunes))]
		}
		return string(rs)
	}
	for k := range rs {
		if r.Intn(2) == 0 {
			rs[k] = c19SwapCase(r, rs[k])
		}
	}
	return string(rs)
}

// genB: random regexps (and a share of random plain patterns) against sampled paths; one case
// rule per case; a quarter of the cases query under the other rule than the constructor's.
func (x *c19Ctx) genB(n int) []*c19Case {
	var cases []*c19Case
	for i := 0; i < n; i++ {
		r := core.Rand(x.e.Seed, "c19-b", i)
		c := &c19Case{Kind: "pattern", part: "b", ExactCtor: r.Intn(2) == 0}
		var paths []string
		if r.Intn(6) == 0 {
			c.Pattern = c19RandPlain(r)
			c.feats = []string{"plain-random"}
			for k := 0; k < 4; k++ {
				paths = append(paths, c19Perturb(r, c.Pattern))
			}
		} else {
			g := &c19Gen{r: r}
			re := g.top()
			c.Pattern = "/" + re.Text + "/"
			c.feats = re.Feats
			paths = c19Paths(r, re, 4)
		}
		if r.Intn(8) == 0 {
			c.Kind = "skip"
			if r.Intn(2) == 0 {
				c.More = []string{c19RandPlain(r)}
				paths = append(paths, c19Perturb(r, c.More[0]))
			}
		}
		exact := c.ExactCtor
		if r.Intn(4) == 0 {
			exact = !exact
		}
		for _, p := range paths {
			c.Queries = append(c.Queries, c19Query{Path: p, Exact: exact})
		}
		for _, f := range c.feats {
			x.rep.Histo("regexp_feature", f)
		}
		cases = append(cases, c)
	}
	return cases
}

// genC: query sequences of length 2..6 on one matcher, alternating the case rule, each followed
// by its fresh-matcher twins.
func (x *c19Ctx) genC(n int) []*c19Case {
	small := c19Strings(c19FullAlphabet, 1, 2)
	var cases []*c19Case
	for i := 0; i < n; i++ {
		r := core.Rand(x.e.Seed, "c19-c", i)
		seq := &c19Case{Kind: "pattern", part: "c", ExactCtor: r.Intn(2) == 0}
		var pool []string
		switch r.Intn(4) {
		case 0:
			seq.Pattern = small[r.Intn(len(small))]
			for k := 0; k < 6; k++ {
				pool = append(pool, c19Perturb(r, seq.Pattern))
			}
		case 1:
			seq.Pattern = "/" + small[r.Intn(len(small))] + "/"
			for k := 0; k < 6; k++ {
				pool = append(pool, c19Perturb(r, strings.Trim(seq.Pattern, "/"))+string(c19PathRunes[r.Intn(len(c19PathRunes))]))
			}
		case 2:
			seq.Pattern = c19RandPlain(r)
			for k := 0; k < 6; k++ {
				pool = append(pool, c19Perturb(r, seq.Pattern))
			}
		default:
			g := &c19Gen{r: r}
			re := g.top()
			seq.Pattern = "/" + re.Text + "/"
			seq.feats = re.Feats
			pool = c19Paths(r, re, 6)
		}
		if r.Intn(6) == 0 {
			seq.Kind = "skip"
		}
		k := 2 + r.Intn(5)
		exact := r.Intn(2) == 0
		for j := 0; j < k; j++ {
			seq.Queries = append(seq.Queries, c19Query{Path: pool[r.Intn(len(pool))], Exact: exact})
			if r.Intn(8) != 0 { // mostly strict alternation, sometimes a repeat
				exact = !exact
			}
		}
		cases = append(cases, seq)
		for j, q := range seq.Queries {
			cases = append(cases, &c19Case{Kind: seq.Kind, Pattern: seq.Pattern, ExactCtor: seq.ExactCtor, part: "c",
				Queries: []c19Query{q}, seqOf: seq, seqIdx: j, feats: seq.feats})
		}
		x.rep.Histo("sequence_length", fmt.Sprint(k))
	}
	return cases
}

// genM: identifier comparison functions.
func (x *c19Ctx) genM(n int) ([]c19PathSet, []*c19Case) {
	s2 := c19Strings(c19FullAlphabet, 0, 2)
	fold := c19Strings([]rune{'s', 'S', 'ſ', 'k', 'K', 'K', 'i', 'I', 'İ', 'ı', 'σ', 'ς', 'Σ'}, 1, 2)
	all := append(append([]string{}, s2...), fold...)
	sets := []c19PathSet{{Name: "M", Paths: all}}
	var cases []*c19Case
	for _, kind := range []string{"ident", "cmpname", "literal"} {
		for _, p := range all {
			for _, exact := range []bool{true, false} {
				cases = append(cases, &c19Case{Kind: kind, Pattern: p, part: "m", PathSet: "M", Exact: exact})
			}
		}
	}
	for i := 0; i < n; i++ {
		r := core.Rand(x.e.Seed, "c19-m", i)
		src, dst := c19RandPlain(r), c19RandPlain(r)
		kind := []string{"conv", "namematch"}[r.Intn(2)]
		c := &c19Case{Kind: kind, Pattern: src, Pattern2: dst, part: "m"}
		for k := 0; k < 4; k++ {
			a, b := src, dst
			if r.Intn(2) == 0 {
				a = c19Perturb(r, a)
			}
			if r.Intn(2) == 0 {
				b = c19Perturb(r, b)
			}
			c.Queries = append(c.Queries, c19Query{Path: a, Path2: b, Exact: true})
		}
		cases = append(cases, c)
	}
	return sets, cases
}

// runM runs part (m); path-set cases of the identifier kinds are judged inline.
func (x *c19Ctx) runM(n int) {
	sets, cases := x.genM(n)
	all := sets[0].Paths
	outs, err := x.runBatch(sets, cases)
	if err != nil {
		x.rep.Inconclusive("part m: " + err.Error())
	}
	dk := map[string]bool{}
	rc := c19RefCache{}
	for i, c := range cases {
		o := outs[i]
		if o == nil {
			continue
		}
		if c.PathSet == "" {
			x.judgeExplicit(c, o, dk, rc)
			continue
		}
		// expand to explicit queries for the shared judge (small: |all| queries)
		cc := *c
		cc.PathSet = ""
		for _, p := range all {
			cc.Queries = append(cc.Queries, c19Query{Path: p, Exact: c.Exact})
		}
		x.judgeExplicit(&cc, o, dk, rc)
	}
	x.markDistinct(dk)
}

// RunC19 is the check for C19.
func RunC19(e *core.Env) int {
	rep := core.NewReport(e, "exploration",
		"in-process calls of the exported matcher API judged against the standard library (==, strings.EqualFold, regexp with (?i)); "+
			"(a) exhaustive pattern x path scopes, (b) seeded random regexps from a grammar, (c) seeded query sequences vs fresh matchers, (m) identifier comparisons, "+
			"(t) end to end: :skip patterns through the real tool, skip decision per destination path of the generated functions under both case rules; "+
			"one evaluation = one constructor or Match call; a case is non-trivial/distinct by (part, API, pattern kind, case rule, constructor/query rule switched, "+
			"pattern and path length class or grammar feature, reference answer, agree/differ)")
	rep.Assume("a :skip pattern is in /regexp/ form iff it has at least two characters and starts and ends with '/'",
		"the reference for case-insensitive regexp search is regexp.Compile(\"(?i)\"+re); where validity of re and (?i)re differ the oracle abstains",
		"violations are reported on inputs shrunk by unit deletion (re-judged through the probe); at most 3 minimal inputs per fingerprint are stored")
	probe, err := c19BuildProbe(e)
	if err != nil {
		fmt.Println("INCONCLUSIVE: cannot build optprobe:", err)
		rep.Inconclusive("optprobe build: " + err.Error())
		rep.Eval(1)
		return rep.Finish()
	}
	x := &c19Ctx{e: e, rep: rep, probe: probe, dir: filepath.Join(e.Work, "c19"), failSeen: map[string]bool{}, distinct: map[string]bool{}, nHistory: map[string]int{}}
	_ = os.MkdirAll(x.dir, 0o755)
	thorough := e.Tier == "thorough"

	// (a) exhaustive small scope
	full := c19Strings(c19FullAlphabet, 0, 3)
	scopeFull := &c19Scope{name: "full-len3", patterns: full, paths: full,
		setFor: func(string) (string, int) { return "full3", 0 }, sets: map[string][2]int{"full3": {0, len(full)}}}
	ascii := c19Strings(c19AsciiAlphabet, 0, 4)
	n3 := len(c19Strings(c19AsciiAlphabet, 0, 3))
	// pairs with both sides of length <= 3 are part of the full scope: short patterns only meet the length-4 paths
	scopeASCII := &c19Scope{name: "ascii-len4", patterns: ascii, paths: ascii,
		setFor: func(p string) (string, int) {
			if len(p) < 4 {
				return "ascii4only", n3
			}
			return "ascii4all", 0
		}, sets: map[string][2]int{"ascii4only": {n3, len(ascii)}, "ascii4all": {0, len(ascii)}}}
	foldLen := 2
	if thorough {
		foldLen = 3
	}
	// partners of the special folds (s/ſ, k/K, i/İ/ı, σ/ς/Σ) which the DESIGN alphabet lacks
	foldStr := c19Strings([]rune{'s', 'S', 'ſ', 'k', 'K', 'K', 'i', 'I', 'İ', 'ı', 'σ', 'ς', 'Σ', '.', 'a'}, 0, foldLen)
	scopeFold := &c19Scope{name: fmt.Sprintf("fold-partners-len%d", foldLen), patterns: foldStr, paths: foldStr,
		setFor: func(string) (string, int) { return "fold", 0 }, sets: map[string][2]int{"fold": {0, len(foldStr)}}}
	for _, s := range []*c19Scope{scopeFold, scopeFull, scopeASCII} {
		x.phase("scope " + s.name)
		x.runScope(s)
		rep.Extra("scope_"+s.name, map[string]int{"patterns": len(s.patterns), "paths": len(s.paths)})
	}
	// corner cases of the /regexp/ form itself
	var corner []*c19Case
	for _, p := range []string{"/", "//", "///", "/a", "a/", "/a/b/", "", "/./", "/^$/", "a.b", "/a.b/", "/A/", "/\\//"} {
		for _, ce := range []bool{true, false} {
			c := &c19Case{Kind: "pattern", Pattern: p, ExactCtor: ce, part: "b", feats: []string{"corner-form"}}
			for _, s := range []string{"", "/", "//", "a", "A", "/a", "a/", "/a/", "a.b", "axb", "A.B", "/a/b/", "a/b"} {
				c.Queries = append(c.Queries, c19Query{Path: s, Exact: ce})
			}
			corner = append(corner, c)
		}
	}
	nB, nC, nM := 20_000, 20_000, 5_000
	if thorough {
		nB, nC, nM = 500_000, 200_000, 50_000
	}
	x.phase("part b")
	bCases := x.genB(nB)
	x.runExplicit("b", append(corner, bCases...))
	x.phase("part c")
	x.runExplicit("c", x.genC(nC))
	x.phase("part m")
	x.runM(nM)
	x.phase("part t")
	nT := 200
	if thorough {
		nT = 2500
	}
	c19RunE2E(e, rep, nT)
	x.phase("shrink+report")
	rep.Extra("random_regexps", nB)
	rep.Extra("sequences", nC)
	rep.Exhaustive(false)
	x.report()
	x.phase("done")
	// samples
	rep.Sample(map[string]any{"part": "a", "scope": "full-len3", "example": "pattern \"a.B\" (plain and as /a.B/) against all 4369 paths under both case rules"}, 3)
	for i := 0; i < 2 && i < len(bCases); i++ {
		c := bCases[i]
		rep.Sample(map[string]any{"part": "b", "kind": c.Kind, "pattern": c.Pattern, "exact_ctor": c.ExactCtor, "queries": c.Queries}, 3)
	}
	return rep.Finish()
}
