package checks

import (
	"fmt"
	"go/ast"
	"go/parser"
	"go/token"
	"go/types"
	"path/filepath"
	"regexp"
	"strings"

	"vh/core"
	"vh/refmodel"
	"vh/scen"
)

func init() { Registry["C05"] = RunC05 }

// methodLines returns, per method name, the set of setup-file lines of the method and of its notation lines.
func methodLines(s *scen.Scenario) map[string]map[int]bool {
	out := map[string]map[int]bool{}
	fset := token.NewFileSet()
	f, err := parser.ParseFile(fset, "setup.go", s.Files[s.Setup], parser.ParseComments)
	if err != nil {
		return out
	}
	ast.Inspect(f, func(n ast.Node) bool {
		it, ok := n.(*ast.InterfaceType)
		if !ok || it.Methods == nil {
			return true
		}
		for _, fld := range it.Methods.List {
			if len(fld.Names) == 0 {
				continue
			}
			set := map[int]bool{fset.Position(fld.Names[0].Pos()).Line: true}
			if fld.Doc != nil {
				for _, c := range fld.Doc.List {
					if reNotationLine.MatchString(c.Text) {
						set[fset.Position(c.Pos()).Line] = true
					}
				}
			}
			out[fld.Names[0].Name] = set
		}
		return true
	})
	return out
}

var reNotationLine = regexp.MustCompile(`^\s*//\s*:\S+`)
var reWarnPos = regexp.MustCompile(`^(\S*?)([^/\s]+\.go):(\d+):(\d+): `)

// pathAccessible walks a destination path through the destination type.
func pathAccessible(pkg *types.Package, t types.Type, path []string) (bool, string) {
	for _, seg := range path {
		for {
			if p, ok := t.Underlying().(*types.Pointer); ok {
				t = p.Elem()
				continue
			}
			break
		}
		st, ok := t.Underlying().(*types.Struct)
		if !ok {
			return false, "segment " + seg + " of a non-struct"
		}
		var fld *types.Var
		for i := 0; i < st.NumFields(); i++ {
			if st.Field(i).Name() == seg {
				fld = st.Field(i)
			}
		}
		if fld == nil {
			return false, "no field " + seg
		}
		if !fld.Exported() && fld.Pkg() != nil && fld.Pkg().Path() != pkg.Path() {
			return false, "unexported member " + seg + " of package " + fld.Pkg().Path()
		}
		t = fld.Type()
	}
	return true, ""
}

// judgeC05 checks the covering relation and the warnings of one function.
func judgeC05(rep *core.Report, c *CaseResult, v *SetupView, fi *FuncInfo, exps []*refmodel.Expect, lines map[int]bool) {
	roleOf := RoleOf(fi)
	mf := methodFeatures(fi)
	seenLeaf := map[string]bool{}
	report := func(sym string, feat map[string]string, detail string) {
		for k, val := range mf {
			if _, ok := feat[k]; !ok && (k == "style" || k == "reverse") {
				feat[k] = val
			}
		}
		rep.Violate(&core.Violation{Property: "C05", Monitor: "covering", Symptom: sym, Features: feat, Case: c.S.ID, Detail: fi.Plan.Key() + ": " + detail, Files: c.ReplayFiles()})
	}
	for _, ex := range exps {
		if seenLeaf[ex.Path] {
			rep.Inconclusive("model emitted leaf twice: " + c.S.ID + " " + ex.Path)
			return
		}
		seenLeaf[ex.Path] = true
	}
	nNoMatch := 0
	for i := range fi.Plan.Items {
		it := &fi.Plan.Items[i]
		if it.Kind == "nomatch" {
			nNoMatch++
		}
	}
	for _, ex := range exps {
		lo := ObserveLeaf(fi, roleOf, ex.Path)
		mech, dk, _, _ := probeFeat(fi.Method, ex.Path)
		feat := map[string]string{"mech": mech, "dst_kind": dk, "leaf_kind": typeKind(ex.Type), "nested": fmt.Sprint(strings.Contains(ex.Path, ".")), "governed": ex.Governed}
		switch {
		case lo.Kind == "missing":
			report("leaf-not-accounted-for", feat, fmt.Sprintf("destination leaf %s [%s] is covered by no assignment, '// skip:' or '// no match:' item", ex.Path, typeKind(ex.Type)))
		case lo.Kind == "descended":
			// items below a pointer-to-struct leaf: the tool descended through the pointer (E-c); each sub-path must be covered once - checked by the duplicate test below
			rep.Count("leaves_covered_by_descent_through_pointer", 1)
		case len(lo.Items) > 1:
			var texts []string
			for _, it := range lo.Items {
				texts = append(texts, strings.TrimSpace(core.Trunc(it.Text, 80)))
			}
			feat["count"] = fmt.Sprint(len(lo.Items))
			report("leaf-covered-twice", feat, fmt.Sprintf("destination leaf %s is covered by %d items: %s", ex.Path, len(lo.Items), strings.Join(texts, " | ")))
		default:
			rep.Count("leaves_covered_exactly_once", 1)
			rep.Distinct(fmt.Sprintf("%s|%s|%s|%v|%s|%s", mech, typeKind(ex.Type), lo.Kind, strings.Contains(ex.Path, "."), coverOf(lo), ex.Governed))
		}
	}
	// (2) no item mentions an inaccessible member; (3) no two items with equal paths
	dstT := deref2(v, fi)
	paths := map[string]int{}
	for i := range fi.Plan.Items {
		it := &fi.Plan.Items[i]
		switch it.Kind {
		case "assign", "slice", "skip", "nomatch", "nestinit":
		default:
			continue
		}
		if it.Root != fi.DstVar || dstT == nil {
			continue
		}
		if ok, why := pathAccessible(v.Loaded.Pkg, dstT, it.Path); !ok {
			report("inaccessible-member-mentioned", map[string]string{"item": it.Kind}, fmt.Sprintf("item %q: %s", strings.TrimSpace(core.Trunc(it.Text, 100)), why))
		}
		if it.Kind != "nestinit" {
			paths[it.PathStr()]++
		}
	}
	for p, n := range paths {
		if n > 1 {
			report("path-emitted-twice", map[string]string{"count": fmt.Sprint(n)}, fmt.Sprintf("destination path %s has %d items", p, n))
		}
	}
	judgeC05Warnings(rep, c, fi, lines, "plain")
}

// judgeC05Warnings: positioned stderr warnings >= number of '// no match:' items of the function.
func judgeC05Warnings(rep *core.Report, c *CaseResult, fi *FuncInfo, lines map[int]bool, mode string) {
	nNoMatch := 0
	for i := range fi.Plan.Items {
		if fi.Plan.Items[i].Kind == "nomatch" {
			nNoMatch++
		}
	}
	report := func(sym string, feat map[string]string, detail string) {
		feat["mode"] = mode
		rep.Violate(&core.Violation{Property: "C05", Monitor: "warnings", Symptom: sym, Features: feat, Case: c.S.ID, Detail: fi.Plan.Key() + " [" + mode + "]: " + detail, Files: c.ReplayFiles()})
	}
	// (4) warnings
	nWarn := 0
	base := filepath.Base(c.S.Setup)
	for _, l := range strings.Split(c.Run.Stderr, "\n") {
		m := reWarnPos.FindStringSubmatch(l)
		if m == nil || m[2] != base {
			continue
		}
		var ln int
		fmt.Sscanf(m[3], "%d", &ln)
		if lines[ln] {
			nWarn++
		}
	}
	if nNoMatch > 0 {
		rep.Count("functions_with_nomatch", 1)
		rep.Count("nomatch_items", nNoMatch)
		rep.Count("positioned_warnings", nWarn)
	}
	if nWarn < nNoMatch {
		report("nomatch-without-warning", map[string]string{}, fmt.Sprintf("%d '// no match:' items but only %d stderr lines positioned at the method or one of its notation lines (lines %v); stderr:\n%s",
			nNoMatch, nWarn, keysOf(lines), core.Trunc(c.Run.Stderr, 800)))
	}
	if strings.Contains(c.Run.Stdout, "no assignment") {
		report("warning-on-stdout", map[string]string{}, "warning text on stdout: "+core.Trunc(c.Run.Stdout, 300))
	}
}

func keysOf(m map[int]bool) []int {
	var r []int
	for k := range m {
		r = append(r, k)
	}
	return r
}

// deref2 returns the destination operand type of the method (copy destination under :reverse).
func deref2(v *SetupView, fi *FuncInfo) types.Type {
	it := fi.Case.S.IfaceOf(fi.Method)
	if it == nil {
		return nil
	}
	sig := v.MethodSig(it.Name, fi.Method.Name)
	if sig == nil {
		return nil
	}
	if fi.Opts.Reverse {
		return sig.Params().At(0).Type()
	}
	return sig.Results().At(0).Type()
}

// RunC05 is the check for C05.
func RunC05(e *core.Env) int {
	rep := core.NewReport(e, "exploration",
		"destination-shape profile: flat, nested up to 4 levels, embedded (local/imported/pointer), anonymous, imported with unexported members, empty structs, structs whose every member is inaccessible, notation sets that target a field, its parent or its child; "+
			"plus the broad profile. The reachable-leaf set is recomputed from go/types (accessible by-value struct fields down to non-struct/pointer/memberless leaves). Oracle: every leaf covered by exactly one body item on itself or an enclosing field; "+
			"no item mentions an inaccessible member; no path emitted twice; positioned stderr warnings (setup file : line of the method or of one of its notation lines) >= number of '// no match:' items. "+
			"distinct non-trivial = (mechanism, leaf type kind, covering item kind, nested?, cover exact/enclosing, governing rule)")
	n1, n2 := 300, 150
	if e.Tier == "thorough" {
		n1, n2 = 5000, 2500
	}
	judge := func(c *CaseResult) {
		rep.Eval(1)
		if c.Run.Exit != 0 || c.Out == nil || c.Plans == nil {
			rep.Count("not_accepted", 1)
			return
		}
		models, v, err := BuildModels(c)
		if err != nil {
			rep.Inconclusive("model: " + c.S.ID + ": " + err.Error())
			return
		}
		ml := methodLines(c.S)
		_, infos := PrepareUnit(c)
		for key, fi := range infos {
			if exps := models[key]; exps != nil {
				judgeC05(rep, c, v, fi, exps, ml[fi.Method.Name])
			}
		}
		// the warnings must reach stderr with -log as well (the log file is an addition, not a replacement)
		if strings.Contains(string(c.Out), "// no match:") && core.Rand(e.Seed, "c05-log", c.S.ID).Intn(4) == 0 {
			r2 := e.Run(core.RunSpec{Args: []string{"-log", filepath.Base(c.S.Setup)}, Dir: filepath.Join(c.Root, c.S.PkgRel), WallSec: 120})
			rep.Count("reruns_with_log", 1)
			if r2.Exit == 0 {
				c2 := *c
				c2.Run = r2
				for key, fi := range infos {
					if exps := models[key]; exps != nil {
						f2 := *fi
						f2.Case = &c2
						judgeC05Warnings(rep, &c2, &f2, ml[fi.Method.Name], "with-log")
					}
				}
			}
		}
		if strings.Contains(string(c.Out), "// no match:") {
			rep.Sample(map[string]any{"case": c.S.ID, "stderr": core.Trunc(c.Run.Stderr, 500), "output_excerpt": core.Trunc(string(c.Out), 800)}, 2)
		}
	}
	runBroadBatches(e, rep, "shapes", n1, 150, judge)
	runBroadBatches(e, rep, "broad", n2, 150, judge)
	return rep.Finish()
}
