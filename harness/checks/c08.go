package checks

import (
	"fmt"
	"go/types"
	"strings"

	"vh/core"
	"vh/execmon"
	"vh/scen"
)

func init() { Registry["C08"] = RunC08 }

func qual(p *types.Package) string { return p.Path() }

func tstr(t types.Type) string { return types.TypeString(t, qual) }

type sigParam struct{ name, typ string }

func (p sigParam) String() string { return strings.TrimSpace(p.name + " " + p.typ) }

func baseOf(t types.Type) types.Type {
	if p, ok := t.(*types.Pointer); ok {
		return p.Elem()
	}
	return t
}

// expectedSig computes the documented signature of a method from its interface signature.
func expectedSig(m *scen.Method, o scen.Opts, sig *types.Signature) (recv *sigParam, params, results []sigParam) {
	first := sig.Params().At(0)
	res := sig.Results().At(0)
	dstPtr := "*" + tstr(baseOf(res.Type()))
	if o.Recv != "" {
		recv = &sigParam{o.Recv, tstr(first.Type())}
	}
	if o.Style == "arg" || o.Reverse {
		params = append(params, sigParam{res.Name(), dstPtr})
	}
	if o.Recv == "" {
		params = append(params, sigParam{first.Name(), tstr(first.Type())})
	}
	if !o.Reverse {
		for i := 1; i < sig.Params().Len(); i++ {
			params = append(params, sigParam{sig.Params().At(i).Name(), tstr(sig.Params().At(i).Type())})
		}
	}
	if o.Style != "arg" && !o.Reverse {
		results = append(results, sigParam{res.Name(), tstr(res.Type())})
	}
	if m.HasErr {
		results = append(results, sigParam{"err", "error"}) // "`err error` last", whatever name the interface declares
	}
	return
}

func tupleParams(t *types.Tuple) []sigParam {
	var r []sigParam
	for i := 0; i < t.Len(); i++ {
		r = append(r, sigParam{t.At(i).Name(), tstr(t.At(i).Type())})
	}
	return r
}

// cmpParams compares types always and names where the expectation declares one.
func cmpParams(what string, want, got []sigParam) string {
	if len(want) != len(got) {
		return fmt.Sprintf("%s: want %v, got %v", what, want, got)
	}
	for i := range want {
		if want[i].typ != got[i].typ {
			return fmt.Sprintf("%s[%d]: want type %s, got %s", what, i, want[i].typ, got[i].typ)
		}
		if want[i].name != "" && want[i].name != got[i].name {
			return fmt.Sprintf("%s[%d]: declared name %q not preserved (got %q)", what, i, want[i].name, got[i].name)
		}
	}
	return ""
}

// judgeC08Legal checks every function of an accepted shape file.
func judgeC08Legal(rep *core.Report, c *CaseResult, shapes map[string]scen.Shape) {
	s := c.S
	v, err := LoadSetupView(c)
	if err != nil {
		rep.Inconclusive("setup view: " + s.ID + ": " + err.Error())
		return
	}
	if c.Loaded == nil || c.Loaded.Pkg == nil {
		rep.Inconclusive("output not type-checked: " + s.ID)
		return
	}
	counts := map[string]int{}
	for _, p := range c.PlanList {
		counts[p.Key()]++
	}
	for _, it := range s.Converters() {
		for _, m := range it.Methods {
			sh := shapes[m.Name]
			rep.Eval(1)
			key := FuncKey(m)
			feat := map[string]string{"shape": sh.String()}
			viol := func(sym, detail string) {
				rep.Violate(&core.Violation{Property: "C08", Monitor: "signature", Symptom: sym, Features: feat, Case: s.ID, Detail: fmt.Sprintf("%s (shape %s): %s", key, sh, detail), Files: c.ReplayFiles()})
			}
			if counts[key] != 1 {
				// maybe generated under another receiver/name
				viol("function-count", fmt.Sprintf("expected exactly one function %s, found %d (functions in output: %v)", key, counts[key], planKeys(c)))
				continue
			}
			p := c.Plans[key]
			obj, _ := c.Loaded.Info.Defs[p.Decl.Name].(*types.Func)
			if obj == nil {
				rep.Inconclusive("no type info for " + key)
				continue
			}
			got := obj.Type().(*types.Signature)
			o := scen.Effective(it, m)
			isig := v.MethodSig(it.Name, m.Name)
			if isig == nil {
				rep.Inconclusive("interface method not found: " + m.Name)
				continue
			}
			wr, wp, wres := expectedSig(m, o, isig)
			var problems []string
			if (wr == nil) != (got.Recv() == nil) {
				problems = append(problems, fmt.Sprintf("receiver: want %v, got %v", wr, got.Recv()))
			} else if wr != nil {
				if tstr(got.Recv().Type()) != wr.typ {
					problems = append(problems, fmt.Sprintf("receiver type: want %s, got %s", wr.typ, tstr(got.Recv().Type())))
				}
				if got.Recv().Name() != wr.name {
					problems = append(problems, fmt.Sprintf("receiver name: want %s, got %s", wr.name, got.Recv().Name()))
				}
			}
			if d := cmpParams("params", wp, tupleParams(got.Params())); d != "" {
				problems = append(problems, d)
			}
			if d := cmpParams("results", wres, tupleParams(got.Results())); d != "" {
				problems = append(problems, d)
			}
			if len(problems) > 0 {
				viol("signature-mismatch", strings.Join(problems, "; ")+"\n  got: "+strings.TrimSpace(strings.SplitN(string(c.Out[c.Loader.Fset.Position(p.Decl.Pos()).Offset:]), "{", 2)[0]))
				continue
			}
			rep.Distinct(sh.String())
			rep.Count("legal_shapes_verified", 1)
		}
	}
}

func planKeys(c *CaseResult) []string {
	var r []string
	for _, p := range c.PlanList {
		r = append(r, p.Key())
	}
	return r
}

// RunC08 is the check for C08.
func RunC08(e *core.Env) int {
	rep := core.NewReport(e, "exploration",
		"complete enumeration of style{return,arg} x recv{none,named} x reverse x src{ptr,val} x dst{ptr,val} x error x 0..3 additional args x named/unnamed params x local/imported source x local/imported destination (2048 shapes, all of them in both tiers). Legal shapes are packed 16 per file, illegal ones (:reverse without :style arg or with additional args, :recv on an imported type) one per file. Oracle: one function per method whose receiver, "+
			"parameters and results (go/types of the output, compared by fully qualified type strings) are the documented ones, declared names preserved, error last; illegal shapes exit non-zero with a positioned diagnostic and no crash; "+
			"legal shapes are also compiled and executed (copy direction, incl. :reverse). distinct non-trivial = shape label verified")
	all := scen.AllShapes()
	parts := 1 // the space is small enough to be enumerated completely in both tiers
	nrand := 1
	if e.Tier == "thorough" {
		nrand = 12
	}
	var legal, illegal []scen.Shape
	for i, sh := range all {
		if parts > 1 && core.Rand(e.Seed, "c08-slice", i).Intn(parts) != 0 {
			continue
		}
		if sh.Legal() {
			legal = append(legal, sh)
		} else {
			illegal = append(illegal, sh)
		}
	}
	rep.Extra("shapes_total", len(all))
	rep.Extra("legal_run", len(legal))
	rep.Extra("illegal_run", len(illegal))
	if parts == 1 {
		rep.Exhaustive(true)
	}
	// legal
	var ss []*scen.Scenario
	shapeOf := map[string]map[string]scen.Shape{}
	for start, k := 0, 0; start < len(legal); start, k = start+16, k+1 {
		end := start + 16
		if end > len(legal) {
			end = len(legal)
		}
		id := fmt.Sprintf("lg%04d", k)
		sc := scen.GenShapes(legal[start:end], id, id)
		ss = append(ss, sc)
		shapeOf[id] = map[string]scen.Shape{}
		for i, sh := range legal[start:end] {
			shapeOf[id][fmt.Sprintf("M%d", i)] = sh
			shapeOf[id][fmt.Sprintf("D%d", i)] = sh // recv shapes named like their result type (scen.GenShapes)
		}
	}
	for start, bi := 0, 0; start < len(ss); start, bi = start+60, bi+1 {
		end := start + 60
		if end > len(ss) {
			end = len(ss)
		}
		b, err := NewBatch(e, fmt.Sprintf("legal-b%d", bi), ss[start:end])
		if err != nil {
			rep.Inconclusive(err.Error())
			continue
		}
		b.RunTool(e, true)
		for _, c := range b.Cases {
			if c.Run.Exit != 0 || c.Out == nil {
				// bisect: run each shape alone to name the offending ones
				rep.Violate(&core.Violation{Property: "C08", Monitor: "acceptance", Symptom: "legal-shape-file-rejected", Features: map[string]string{"stderr": stderrClass(c.Run.Stderr)}, Case: c.S.ID,
					Detail: fmt.Sprintf("file of legal shapes rejected (exit %d): %s", c.Run.Exit, core.Trunc(c.Run.Stderr, 600)), Files: c.ReplayFiles()})
				continue
			}
			for _, te := range c.TypeErrs {
				rep.Violate(&core.Violation{Property: "C08", Monitor: "typecheck", Symptom: "legal-shape-does-not-compile", Features: map[string]string{"class": classifyTypeErr(te)}, Case: c.S.ID, Detail: te, Files: c.ReplayFiles()})
			}
			judgeC08Legal(rep, c, shapeOf[c.S.ID])
		}
		// execution: copy direction
		eo := ExecBatch(e, rep, b, execmon.Job{NRandom: nrand}, "s")
		for id, infos := range eo.Infos {
			for key, fi := range infos {
				for _, r := range eo.Recs[id+"/"+key] {
					rep.Count("calls", 1)
					sh := shapeOf[id][fi.Method.Name]
					if !r.Judged {
						rep.Count("unjudged_E-i_by_value_destination_under_reverse", 1)
						continue
					}
					if r.SigErr != "" {
						rep.Violate(&core.Violation{Property: "C08", Monitor: "exec", Symptom: "not-callable-as-documented", Features: map[string]string{"shape": sh.String()}, Case: id,
							Detail: fmt.Sprintf("%s: %s", r.Fn, r.SigErr), Files: recFiles(fi.Case, r)})
						break
					}
					if !r.Judged || r.Panic != "" {
						continue
					}
					if len(r.Mismatches) > 0 || len(r.SrcMutated) > 0 || len(fi.Foreign) > 0 {
						rep.Violate(&core.Violation{Property: "C08", Monitor: "exec", Symptom: "copy-direction", Features: map[string]string{"shape": sh.String()}, Case: id,
							Detail: fmt.Sprintf("%s(%s): mismatches=%v source-modified=%v foreign=%v", r.Fn, r.Val, r.Mismatches, r.SrcMutated, fi.Foreign), Files: recFiles(fi.Case, r)})
						break
					}
					if r.Executed > 0 {
						rep.Count("executions_with_correct_direction", 1)
					}
				}
			}
		}
	}
	// illegal: one per file
	var is []*scen.Scenario
	ishape := map[string]scen.Shape{}
	for i, sh := range illegal {
		id := fmt.Sprintf("il%04d", i)
		sc := scen.GenShapes([]scen.Shape{sh}, id, id)
		sc.InConv = false
		is = append(is, sc)
		ishape[id] = sh
	}
	for start, bi := 0, 0; start < len(is); start, bi = start+300, bi+1 {
		end := start + 300
		if end > len(is) {
			end = len(is)
		}
		b, err := NewBatch(e, fmt.Sprintf("illegal-b%d", bi), is[start:end])
		if err != nil {
			rep.Inconclusive(err.Error())
			continue
		}
		b.RunTool(e, false)
		for _, c := range b.Cases {
			rep.Eval(1)
			sh := ishape[c.S.ID]
			why := "reverse-without-arg"
			if sh.Reverse && sh.Arg && sh.NExtras > 0 {
				why = "reverse-with-extras"
			} else if !sh.Reverse || sh.Arg {
				why = "recv-imported"
			}
			feat := map[string]string{"why": why}
			switch {
			case c.Run.TimedOut:
				rep.Inconclusive("watchdog " + c.S.ID)
			case c.Run.Crashed():
				rep.Violate(&core.Violation{Property: "C08", Monitor: "rejection", Symptom: "illegal-shape-crashes", Features: feat, Case: c.S.ID, Detail: sh.String() + ": " + core.Trunc(c.Run.Stderr, 500), Files: c.ReplayFiles()})
			case c.Run.Exit == 0:
				rep.Violate(&core.Violation{Property: "C08", Monitor: "rejection", Symptom: "illegal-shape-accepted", Features: feat, Case: c.S.ID,
					Detail: fmt.Sprintf("shape %s is documented as illegal (%s) but was accepted", sh, why), Files: c.ReplayFiles()})
			case !reWarnPos.MatchString(firstLine(c.Run.Stderr)):
				rep.Violate(&core.Violation{Property: "C08", Monitor: "rejection", Symptom: "illegal-shape-unpositioned-diagnostic", Features: feat, Case: c.S.ID,
					Detail: fmt.Sprintf("shape %s rejected without file:line:col: %s", sh, core.Trunc(c.Run.Stderr, 300)), Files: c.ReplayFiles()})
			default:
				rep.Distinct("illegal:" + sh.String())
				rep.Count("illegal_shapes_rejected", 1)
			}
		}
	}
	if len(ss) > 0 {
		rep.Sample(map[string]any{"legal_file": core.Trunc(ss[0].Files[ss[0].Setup], 1500)}, 1)
	}
	if len(is) > 0 {
		rep.Sample(map[string]any{"illegal_file": core.Trunc(is[0].Files[is[0].Setup], 600)}, 2)
	}
	return rep.Finish()
}

func firstLine(s string) string {
	for _, l := range strings.Split(s, "\n") {
		if strings.TrimSpace(l) != "" && !strings.Contains(l, ": no assignment ") {
			return l
		}
	}
	return ""
}
