package checks

import (
	"fmt"
	"strings"

	"vh/core"
	"vh/execmon"
	"vh/scen"
)

func init() { Registry["C16"] = RunC16 }

func isSliceTypeExpr(t string) bool {
	return strings.HasPrefix(t, "[]") || t == "LTags" || t == "ext.Tags" || t == "ext.Ints"
}

// judgeC16 checks slice copies of one function: static shape + runtime aliasing/values.
func judgeC16(rep *core.Report, fi *FuncInfo, recs []*execmon.Rec) {
	c := fi.Case
	o := fi.Opts
	seen := map[string]bool{}
	report := func(v *core.Violation, r *execmon.Rec) {
		if seen[v.Fingerprint()] {
			return
		}
		seen[v.Fingerprint()] = true
		if r != nil {
			v.Files = recFiles(c, r)
		} else {
			v.Files = c.ReplayFiles()
		}
		rep.Violate(v)
	}
	// static: which destination slice fields are name-matched and how they were emitted
	nameMatched := map[string]*scen.Probe{}
	for i := range fi.Plan.Items {
		it := &fi.Plan.Items[i]
		if it.Kind != "assign" && it.Kind != "slice" {
			continue
		}
		pr := MechOf(fi.Method, it.PathStr())
		if pr == nil || !isSliceTypeExpr(pr.DstT) {
			continue
		}
		switch pr.Mech {
		case "same", "diff", "slice", "case", "getter", "unexported":
		default:
			continue // explicit notations may alias; the property speaks of name match
		}
		nameMatched[it.PathStr()] = pr
		feat := map[string]string{"dst_kind": scen.KindOf(pr.DstT), "src_kind": scen.KindOf(pr.SrcT), "typecast": fmt.Sprint(o.Typecast), "emitted": it.Kind + it.SliceMode}
		if it.Kind == "slice" && it.SliceMode == "cast" && !o.Typecast {
			report(&core.Violation{Property: "C16", Monitor: "static", Symptom: "element-conversion-without-typecast", Features: feat, Case: c.S.ID,
				Detail: fmt.Sprintf("%s converts slice elements although :typecast is off: %s", fi.Plan.Key(), it.Text)}, nil)
		}
		if it.Kind == "assign" && it.RHS != nil && !it.RHS.Has("call", "") && !it.RHS.Has("conv", "") {
			report(&core.Violation{Property: "C16", Monitor: "static", Symptom: "slice-assigned-by-reference", Features: feat, Case: c.S.ID,
				Detail: fmt.Sprintf("%s copies a name-matched slice field by plain assignment (shares the backing array): %s", fi.Plan.Key(), it.Text)}, nil)
		}
		rep.Distinct(fmt.Sprintf("%s|%s|tc=%v|%s", pr.DstT, pr.SrcT, o.Typecast, it.Kind+it.SliceMode))
		rep.Histo("emitted_form", it.Kind+it.SliceMode)
	}
	hasSliceProbe := false
	for _, p := range fi.Method.Probes {
		if isSliceTypeExpr(p.DstT) {
			hasSliceProbe = true
		}
	}
	if len(nameMatched) == 0 && !hasSliceProbe {
		return
	}
	for _, r := range recs {
		if r.Fail != "" || r.SigErr != "" || !r.Judged {
			continue
		}
		rep.Eval(1)
		if r.Panic != "" {
			rep.Count("panicking_calls_left_to_C02", 1)
			continue
		}
		for _, a := range r.SliceAlias {
			path := a[:strings.Index(a, ":")]
			pr := nameMatched[path]
			if pr == nil {
				continue
			}
			report(&core.Violation{Property: "C16", Monitor: "exec", Symptom: "slice-aliasing-observed", Features: map[string]string{"dst_kind": scen.KindOf(pr.DstT), "src_kind": scen.KindOf(pr.SrcT)}, Case: c.S.ID,
				Detail: fmt.Sprintf("%s(%s): %s", r.Fn, r.Val, a)}, r)
		}
		// plan-independent: a name-matched slice FIELD (not a member of a struct that is itself copied as
		// a whole) whose backing array is a backing array of the source operand
		for _, a := range r.TreeAlias {
			dp, sp := a[:strings.Index(a, "|")], a[strings.Index(a, "|")+1:]
			var pr *scen.Probe
			for i := range fi.Method.Probes {
				if q := &fi.Method.Probes[i]; q.Dst == dp && isSliceTypeExpr(q.DstT) {
					pr = q
				}
			}
			if pr == nil {
				continue
			}
			switch pr.Mech {
			case "same", "diff", "slice", "case", "getter", "unexported":
			default:
				continue
			}
			if strings.Contains(dp, ".") {
				whole := false
				for i := range fi.Plan.Items {
					it := &fi.Plan.Items[i]
					if it.Kind == "assign" && it.Root == fi.DstVar && strings.HasPrefix(dp, it.PathStr()+".") {
						whole = true // an enclosing struct field is copied as a whole: its members are not "slice fields copied by name match"
					}
				}
				if whole {
					continue
				}
			}
			report(&core.Violation{Property: "C16", Monitor: "exec", Symptom: "slice-shares-backing-array-with-source", Features: map[string]string{"dst_kind": scen.KindOf(pr.DstT), "src_kind": scen.KindOf(pr.SrcT), "nested": fmt.Sprint(strings.Contains(dp, "."))}, Case: c.S.ID,
				Detail: fmt.Sprintf("%s(%s): destination slice %s has the same backing array as source slice %s after the call", r.Fn, r.Val, dp, sp)}, r)
		}
		rep.Count("destination_slices_seen_sharing_a_source_backing_array_incl_permitted", len(r.TreeAlias))
		for _, mm := range r.Mismatches {
			fp := fieldPathOfDump(mm.Path)
			var pr *scen.Probe
			for p, q := range nameMatched {
				if fp == p || strings.HasPrefix(fp, p+".") {
					pr = q
				}
			}
			if pr == nil {
				// a slice field whose emitted code the plan extractor could not even recognise
				if q := MechOf(fi.Method, fp); q != nil && isSliceTypeExpr(q.DstT) {
					switch q.Mech {
					case "same", "diff", "slice", "case", "getter", "unexported":
						pr = q
					}
				}
			}
			if pr == nil {
				continue
			}
			sym := "slice-wrong-content"
			if strings.Contains(mm.Want, "@?") {
				sym = "slice-not-fresh"
			} else if mm.Got == "slice@empty len=0" && (mm.Want == "nil" || strings.HasPrefix(mm.Want, "slice@")) {
				sym = "nil-became-empty"
			}
			report(&core.Violation{Property: "C16", Monitor: "exec", Symptom: sym, Features: map[string]string{"dst_kind": scen.KindOf(pr.DstT), "src_kind": scen.KindOf(pr.SrcT), "val": valClass(r.Val)}, Case: c.S.ID,
				Detail: fmt.Sprintf("%s(%s): destination %s holds %s, expected %s (fresh storage '@?', same length, elements equal to the (converted) source elements; nil source leaves the field as it was)", r.Fn, r.Val, mm.Path, mm.Got, mm.Want)}, r)
		}
		rep.Count("slice_copies_observed", r.SliceObs)
		rep.Count("nil_sources_observed", r.NilKept)
		rep.Count("fresh_storage_verified", r.Fresh)
		rep.Histo("valuation", valClass(r.Val))
	}
}

// RunC16 is the check for C16.
func RunC16(e *core.Env) int {
	rep := core.NewReport(e, "exploration",
		"slice-heavy random scenarios over an element-type pair list (identical basic/named/struct/pointer/interface, assignable-not-identical T->interface, convertible under typecast, not convertible, named slice types), typecast on/off, "+
			"top-level and nested fields, via field and via getter; each generated function is executed on nil / empty / non-empty / shared-backing-array values; after the call the driver writes through every source element and re-dumps "+
			"the destination (and the reverse). Oracle: nil source leaves the field as it was; otherwise fresh data pointer (not seen before the call, not shared with another destination slice), same length, elements equal to the "+
			"(converted) source elements, mutations invisible across; conversion only under :typecast; no plain assignment of a name-matched slice. distinct non-trivial = (dst type, src type, typecast, emitted form) of a name-matched slice field")
	n, k := 300, 2
	if e.Tier == "thorough" {
		n, k = 3000, 8
	}
	runExecBatches(e, rep, "slices", n, 150, execmon.Job{NRandom: k, SliceMutate: true}, func(b *Batch, eo *ExecOut) {
		for id, infos := range eo.Infos {
			for key, fi := range infos {
				judgeC16(rep, fi, eo.Recs[id+"/"+key])
			}
		}
		for _, r := range eo.Result.Recs {
			if r.SliceObs > 0 {
				rep.Sample(map[string]any{"scenario": r.Scen, "function": r.Fn, "valuation": r.Val, "slice_copies_observed": r.SliceObs, "fresh_storage_verified": r.Fresh, "nil_sources": r.NilKept}, 3)
			}
		}
	})
	return rep.Finish()
}
