package checks

// C12 — regeneration ignores whatever is already at the output path.
//
// Fault enumeration over pre-states of the output path (crash points of the final write,
// stale / corrupted / foreign content) and over short edit→run histories. The oracle is
// metamorphic: run(S | P) must end with the same exit status and leave the same bytes at
// the output path as run(S | output path absent), for the same argv and cwd.

import (
	"bytes"
	"fmt"
	"go/build"
	"io"
	"io/fs"
	"math/rand"
	"os"
	"path/filepath"
	"regexp"
	"sort"
	"strings"
	"sync"
	"time"

	"vh/core"
	"vh/scen"
)

func init() { Registry["C12"] = RunC12 }

// c12Version is one version of the setup file of a scenario (index 0 = current version S,
// the others are "older versions" S').
type c12Version struct {
	Name  string
	Setup string
}

// c12Scen is a scenario in one directory layout.
type c12Scen struct {
	ID       string
	Layout   string // "orig": generator's file names; "outfirst": siblings renamed so that the output file sorts first in its directory
	Origin   string // "broad" | "hand"
	PkgRel   string
	PkgName  string
	SetupRel string
	Files    map[string]string // module-root relative; Files[SetupRel] = version 0
	Versions []c12Version
	Alien    map[string]string // a different scenario with the same package dir/name (source of a foreign stale output)
}

// c12Form is one way of invoking the tool on a scenario.
type c12Form struct {
	Name string
}

// "via-symlink": absolute input path through a symbolic link to the module root, started outside the module
// (the output path then is spelled through the link as well); "out-otherdir": -out into a directory of
// its own, where the old output is the only Go file.
// "dry-print": -dry -print; what is observed instead of the written bytes is the printed code (a dry run, too,
// behaves as if the output path were empty).
// "out-noext": an -out name without the .go extension (the tool writes exactly where it is told).
// "with-log": -log (a log file next to the output): whatever the run logs, the old output is not an input.
// "gofile": no argument, the input comes from $GOFILE as under go generate (the file put at the output path is
// always newer than every source file: "up to date" is no reason to leave it alone).
var c12Forms = []c12Form{{"pkgdir-rel"}, {"modroot-rel"}, {"out-flag"}, {"abs"}, {"via-symlink"}, {"out-otherdir"}, {"dry-print"}, {"out-noext"}, {"with-log"}, {"gofile"}}

const c12OutFlagName = "aa_conv.gen.go" // sorts before every generated sibling name

// spec returns argv[1:], cwd and the absolute output path for a module root.
func (f c12Form) spec(root string, sc *c12Scen) (args []string, dir, out string) {
	setupAbs := filepath.Join(root, sc.SetupRel)
	defOut := strings.TrimSuffix(setupAbs, ".go") + ".gen.go"
	switch f.Name {
	case "modroot-rel":
		return []string{sc.SetupRel}, root, defOut
	case "out-flag":
		return []string{"-out", c12OutFlagName, filepath.Base(sc.SetupRel)}, filepath.Join(root, sc.PkgRel), filepath.Join(root, sc.PkgRel, c12OutFlagName)
	case "abs":
		return []string{setupAbs}, filepath.Join(root, "vtr"), defOut
	case "via-symlink":
		return []string{filepath.Join(root+"-lnk", sc.SetupRel)}, filepath.Dir(root), defOut
	case "out-noext":
		return []string{"-out", "ab_conv.gen", filepath.Base(sc.SetupRel)}, filepath.Join(root, sc.PkgRel), filepath.Join(root, sc.PkgRel, "ab_conv.gen")
	case "dry-print":
		return []string{"-dry", "-print", filepath.Base(sc.SetupRel)}, filepath.Join(root, sc.PkgRel), defOut
	case "with-log":
		return []string{"-log", filepath.Base(sc.SetupRel)}, filepath.Join(root, sc.PkgRel), defOut
	case "gofile":
		return nil, filepath.Join(root, sc.PkgRel), defOut
	case "out-otherdir":
		return []string{"-out", "../c12out/conv.gen.go", filepath.Base(sc.SetupRel)}, filepath.Join(root, sc.PkgRel), filepath.Join(root, "c12out", "conv.gen.go")
	}
	return []string{filepath.Base(sc.SetupRel)}, filepath.Join(root, sc.PkgRel), defOut
}

// c12Ref is the observed behaviour of run(version | output path absent).
type c12Ref struct {
	OK      bool // two clean runs agreed and no watchdog fired
	// FirstDiffers is set when the first clean run differs from the (agreeing) second and third ones.
	FirstDiffers string
	Exit    int
	Present bool // output path exists afterwards
	Out     []byte
	Stderr  string
}

// c12Pre is one pre-state of the output path.
type c12Pre struct {
	Class    string
	Label    string
	OffClass string
	Data     []byte
	Absent   bool
	AllForms bool
}

type c12Job struct {
	Form int
	Pre  *c12Pre
}

// ---------------------------------------------------------------------------------------
// scenario construction

const c12HandTypes = `package sc

type SI struct{ V int }
type DI struct{ V int }
type SA struct {
	ID int
	In *SI
}
type DA struct {
	ID int
	In *DI
}
`

func c12HandSetup(body string) string {
	return "//go:build convergen\n\npackage sc\n\n// Convergen is the converter definition.\ntype Convergen interface {\n" + body + "}\n"
}

// c12HandScenarios are fixed scenarios in which a generated function is itself used as a
// :conv target, so that a stale output declaring that function with an older signature
// would change the result if the loader saw it.
func c12HandScenarios() []*c12Scen {
	var r []*c12Scen
	mk := func(id string, cur string, older ...c12Version) *c12Scen {
		sc := &c12Scen{ID: id, Layout: "orig", Origin: "hand", PkgRel: id, PkgName: "sc", SetupRel: id + "/setup.go",
			Files: map[string]string{id + "/types.go": c12HandTypes, id + "/setup.go": cur}}
		sc.Versions = append([]c12Version{{Name: "S", Setup: cur}}, older...)
		return sc
	}
	r = append(r, mk("hconv1",
		c12HandSetup("\t// :conv Inner In\n\tOuter(*SA) (*DA, error)\n\tInner(*SI) (*DI, error)\n"),
		c12Version{"toggle-err", c12HandSetup("\t// :conv Inner In\n\tOuter(*SA) *DA\n\tInner(*SI) *DI\n")},
		c12Version{"change-sig", c12HandSetup("\t// :conv Inner ID In\n\tOuter(*SA) *DA\n\tInner(int) *DI\n")},
		c12Version{"drop-method", c12HandSetup("\t// :skip In\n\tOuter(*SA) (*DA, error)\n")},
		c12Version{"rename-method", c12HandSetup("\t// :conv Inner2 In\n\tOuter(*SA) (*DA, error)\n\tInner2(*SI) (*DI, error)\n")},
		c12Version{"broken", c12HandSetup("\t// :conv NoSuchFunc In\n\tOuter(*SA) (*DA, error)\n")},
	))
	r = append(r, mk("hconv2",
		c12HandSetup("\t// :conv Inner In\n\tOuter(*SA) *DA\n\tInner(*SI) *DI\n"),
		c12Version{"toggle-err", c12HandSetup("\t// :conv Inner In\n\tOuter(*SA) (*DA, error)\n\tInner(*SI) (*DI, error)\n")},
		c12Version{"style-arg", c12HandSetup("\t// :skip In\n\tOuter(*SA) *DA\n\t// :style arg\n\tInner(*SI) *DI\n")},
		c12Version{"recv", c12HandSetup("\t// :skip In\n\tOuter(*SA) *DA\n\t// :recv s\n\tInner(*SI) *DI\n")},
	))
	// imported field types that do not match: if the loader loses the imports of the package
	// (which a NUL byte in the stale file causes) the two fields look assignable
	h3 := mk("himp1",
		c12HandSetup("\tConv(*SB) *DB\n"),
		c12Version{"rename-method", c12HandSetup("\tConvOld(*SB) *DB\n")},
		c12Version{"toggle-err", c12HandSetup("\tConv(*SB) (*DB, error)\n")},
	)
	h3.Files["himp1/types.go"] = "package sc\n\nimport \"vb/ext\"\n\ntype SB struct {\n\tK ext.MInt\n\tC int\n}\ntype DB struct {\n\tK ext.MStr\n\tC int\n}\n"
	r = append(r, h3)
	// the generated code needs a package that NO file of the directory imports (goimports has to add
	// the import): a stale output importing a same-named package under another path must not be consulted
	himp2 := mk("himp2",
		"//go:build convergen\n\npackage sc\n\nimport \"vb/himp2/m\"\n\ntype Convergen interface {\n\t// :typecast\n\tToDC(*SC) *m.DC\n}\n",
		c12Version{"rename-method", "//go:build convergen\n\npackage sc\n\nimport \"vb/himp2/m\"\n\ntype Convergen interface {\n\t// :typecast\n\tToDCOld(*SC) *m.DC\n}\n"},
	)
	himp2.Files["himp2/types.go"] = "package sc\n\ntype SC struct {\n\tCode int\n\tName string\n}\n"
	himp2.Files["himp2/m/m.go"] = "package m\n\nimport \"vb/ext\"\n\ntype DC struct {\n\tCode ext.MInt\n\tName string\n}\n"
	r = append(r, himp2)
	// a package-qualified converter: the qualifier must be resolved through the imports of the setup file alone
	himp3 := mk("himp3",
		"//go:build convergen\n\npackage sc\n\nimport _ \"vb/ext\"\n\ntype Convergen interface {\n\t// :conv ext.ConvIntStr Code Label\n\tToDL(*SC) *DL\n}\n",
		c12Version{"rename-method", "//go:build convergen\n\npackage sc\n\nimport _ \"vb/ext\"\n\ntype Convergen interface {\n\t// :conv ext.ConvIntStr Code Label\n\tToDLOld(*SC) *DL\n}\n"},
	)
	himp3.Files["himp3/types.go"] = "package sc\n\ntype SC struct {\n\tCode int\n\tName string\n}\ntype DL struct {\n\tLabel string\n\tName  string\n}\n"
	r = append(r, himp3)
	// an imported package that has a file with the SAME BASE NAME as the output (it was generated by
	// convergen, too) and a converter in it: only the file AT the output path is to be left out of the load
	himp4 := mk("himp4",
		"//go:build convergen\n\npackage sc\n\nimport _ \"vb/himp4/dep\"\n\ntype Convergen interface {\n\t// :conv dep.ConvCode Code Label\n\tToDL(*SC) *DL\n}\n",
		c12Version{"rename-method", "//go:build convergen\n\npackage sc\n\nimport _ \"vb/himp4/dep\"\n\ntype Convergen interface {\n\t// :conv dep.ConvCode Code Label\n\tToDLOld(*SC) *DL\n}\n"},
	)
	himp4.Files["himp4/types.go"] = "package sc\n\ntype SC struct {\n\tCode int\n\tName string\n}\ntype DL struct {\n\tLabel string\n\tName  string\n}\n"
	himp4.Files["himp4/dep/setup.gen.go"] = "// Code generated by github.com/reedom/convergen\n// DO NOT EDIT.\n\npackage dep\n\nfunc ConvCode(v int) string { return \"code\" }\n"
	himp4.Files["himp4/dep/aa_conv.gen.go"] = "package dep\n\nfunc ConvOther(v int) string { return \"other\" }\n"
	r = append(r, himp4)
	// the setup file DOT-imports a package and names one of its functions without qualifier (:conv and a hook):
	// such names live in the file scope of the setup file; a file at the output path must not shift or hide it
	hdot := mk("hdot1",
		"//go:build convergen\n\npackage sc\n\nimport . \"vb/hdot1/dep\"\n\nvar _ = DepMarker\n\ntype Convergen interface {\n\t// :conv DotCode Code Label\n\t// :postprocess DotAfter\n\tToDL(*SC) *DL\n}\n",
		c12Version{"rename-method", "//go:build convergen\n\npackage sc\n\nimport . \"vb/hdot1/dep\"\n\nvar _ = DepMarker\n\ntype Convergen interface {\n\t// :conv DotCode Code Label\n\tToDLOld(*SC) *DL\n}\n"})
	hdot.Files["hdot1/types.go"] = "package sc\n\ntype SC struct {\n\tCode int\n\tName string\n}\ntype DL struct {\n\tLabel string\n\tName  string\n}\n"
	hdot.Files["hdot1/dep/dep.go"] = "package dep\n\nconst DepMarker = 1\n\nfunc DotCode(v int) string { return \"code\" }\n\nfunc DotAfter(d, s interface{}) {}\n"
	r = append(r, hdot)
	return r
}

// c12LegacyFiles are packages that carry the names of imported packages under another (lexically
// smaller) import path; only stale pre-states import them.
var c12LegacyFiles = map[string]string{
	"c12legacy/ext/ext.go": "// Package ext is what vb/ext was before it moved.\npackage ext\n\nconst Legacy12 = 12\n\nfunc ConvIntStr(v string) string { return \"legacy:\" + v }\n",
	"c12legacy/m/m.go":     "// Package m is what the scenario's m was before it moved.\npackage m\n\nconst Legacy12 = 12\n",
}

// c12DeriveVersions makes older versions of a generated scenario by editing its first
// converter interface and re-rendering it in place.
func c12DeriveVersions(s *scen.Scenario, r *rand.Rand) []c12Version {
	cur := s.Files[s.Setup]
	vs := []c12Version{{Name: "S", Setup: cur}}
	if len(s.Ifaces) == 0 {
		return vs
	}
	it := s.Ifaces[0]
	old := scen.RenderIface(it)
	if !strings.Contains(cur, old) || len(it.Methods) == 0 {
		return vs
	}
	clone := func() (*scen.Iface, []*scen.Method) {
		c := *it
		c.Methods = nil
		for _, m := range it.Methods {
			mc := *m
			mc.Notations = append([]scen.Notation{}, m.Notations...)
			c.Methods = append(c.Methods, &mc)
		}
		return &c, c.Methods
	}
	add := func(name string, c *scen.Iface) {
		txt := strings.Replace(cur, old, scen.RenderIface(c), 1)
		if txt != cur {
			vs = append(vs, c12Version{Name: name, Setup: txt})
		}
	}
	n := len(it.Methods)
	if n >= 2 {
		c, ms := clone()
		j := r.Intn(n)
		c.Methods = append(append([]*scen.Method{}, ms[:j]...), ms[j+1:]...)
		add("drop-method", c)
	}
	{
		c, ms := clone()
		ms[r.Intn(n)].Name += "Old"
		add("rename-method", c)
	}
	{
		c, ms := clone()
		m := ms[r.Intn(n)]
		m.HasErr = !m.HasErr
		add("toggle-err", c)
	}
	{
		c, ms := clone()
		m := ms[r.Intn(n)]
		m.DocOrder = nil
		if len(m.Notations) > 0 {
			k := r.Intn(len(m.Notations))
			m.Notations = append(append([]scen.Notation{}, m.Notations[:k]...), m.Notations[k+1:]...)
		} else {
			m.Notations = append(m.Notations, scen.Notation{Name: "stringer"})
		}
		add("change-notation", c)
	}
	{
		c, ms := clone()
		m := ms[r.Intn(n)]
		m.DocOrder = nil
		m.Notations = append(m.Notations, scen.Notation{Name: "conv", Args: []string{"noSuchFunc12", "Nope", "Nope"}})
		add("broken", c)
	}
	return vs
}

// c12FromScenario wraps a generated scenario.
func c12FromScenario(s *scen.Scenario, alien *scen.Scenario, r *rand.Rand) *c12Scen {
	sc := &c12Scen{ID: s.ID, Layout: "orig", Origin: "broad", PkgRel: s.PkgRel, PkgName: s.PkgName, SetupRel: s.Setup,
		Files: map[string]string{}}
	for k, v := range s.Files {
		sc.Files[k] = v
	}
	sc.Versions = c12DeriveVersions(s, r)
	if alien != nil {
		sc.Alien = alien.Files
	}
	return sc
}

// c12OutFirst returns the same scenario with the sibling files of the package directory
// renamed so that the default output file is the first Go file of the directory.
func c12OutFirst(sc *c12Scen) *c12Scen {
	c := *sc
	c.Layout = "outfirst"
	outBase := strings.TrimSuffix(filepath.Base(sc.SetupRel), ".go") + ".gen.go"
	ren := func(files map[string]string) map[string]string {
		if files == nil {
			return nil
		}
		m := map[string]string{}
		for rel, content := range files {
			if filepath.Dir(rel) == sc.PkgRel && strings.HasSuffix(rel, ".go") && rel != sc.SetupRel && filepath.Base(rel) < outBase {
				rel = filepath.Join(sc.PkgRel, "zz_"+filepath.Base(rel))
			}
			m[rel] = content
		}
		return m
	}
	c.Files = ren(sc.Files)
	c.Alien = ren(sc.Alien)
	return &c
}

// outSortsFirst says whether the output base name sorts before every other Go file of its directory.
func (sc *c12Scen) outSortsFirst(outBase string) bool {
	for rel := range sc.Files {
		if filepath.Dir(rel) == sc.PkgRel && strings.HasSuffix(rel, ".go") && filepath.Base(rel) != outBase && filepath.Base(rel) < outBase {
			return false
		}
	}
	return true
}

// materialise writes the module with the given setup text into a fresh root.
func (sc *c12Scen) materialise(root string, files map[string]string, setup string) error {
	if err := scen.WriteModuleBase(root); err != nil {
		return err
	}
	if err := core.WriteTree(root, files); err != nil {
		return err
	}
	if err := core.WriteTree(root, c12LegacyFiles); err != nil {
		return err
	}
	if err := os.MkdirAll(filepath.Join(root, "c12out"), 0o755); err != nil {
		return err
	}
	if _, err := os.Lstat(root + "-lnk"); err != nil {
		_ = os.Symlink(filepath.Base(root), root+"-lnk")
	}
	if setup != "" {
		return os.WriteFile(filepath.Join(root, sc.SetupRel), []byte(setup), 0o644)
	}
	return nil
}

// ---------------------------------------------------------------------------------------
// running

type c12Obs struct {
	Res     core.RunResult
	Present bool
	Out     []byte
}

// c12Run puts the pre-state in place, runs the tool and reads the output path back.
func c12Run(e *core.Env, root string, sc *c12Scen, form c12Form, pre *c12Pre) c12Obs {
	args, dir, out := form.spec(root, sc)
	if pre != nil {
		_ = os.Remove(out)
		if !pre.Absent {
			_ = os.WriteFile(out, pre.Data, 0o644)
		}
	}
	spec := core.RunSpec{Args: args, Dir: dir, WallSec: 120}
	if form.Name == "gofile" {
		spec.Env = []string{"GOFILE=" + filepath.Base(sc.SetupRel)}
	}
	res := e.Run(spec)
	o := c12Obs{Res: res}
	if form.Name == "dry-print" && res.Exit == 0 {
		// the printed code stands for the output (the file at the output path is the pre-state, untouched -
		// C15); after a failing run the file is looked at as for every other form
		o.Present, o.Out = true, []byte(res.Stdout)
		return o
	}
	if b, err := os.ReadFile(out); err == nil {
		o.Present, o.Out = true, b
	}
	return o
}

// c12FlipLastLetter returns b with the case of its last ASCII letter flipped.
func c12FlipLastLetter(b []byte) []byte {
	d := append([]byte{}, b...)
	for i := len(d) - 1; i >= 0; i-- {
		if c := d[i]; c >= 'a' && c <= 'z' || c >= 'A' && c <= 'Z' {
			d[i] = c ^ 0x20
			break
		}
	}
	return d
}

var c12Absent = &c12Pre{Class: "absent", Label: "absent", Absent: true}

// c12CleanRef observes run(version | absent) twice in fresh state.
func c12CleanRef(e *core.Env, root string, sc *c12Scen, form c12Form) c12Ref {
	a := c12Run(e, root, sc, form, c12Absent)
	b := c12Run(e, root, sc, form, c12Absent)
	ref := c12Ref{Exit: a.Res.Exit, Present: a.Present, Out: a.Out, Stderr: a.Res.Stderr}
	ref.OK = !a.Res.TimedOut && !b.Res.TimedOut && a.Res.StartErr == "" && a.Res.Exit == b.Res.Exit && a.Present == b.Present && bytes.Equal(a.Out, b.Out)
	if !ref.OK && !a.Res.TimedOut && !b.Res.TimedOut && a.Res.StartErr == "" {
		// the second run over an EMPTY output path differs from the first: does the third agree with the
		// second? Then the very first run left something behind (elsewhere) that every later run sees.
		c := c12Run(e, root, sc, form, c12Absent)
		if !c.Res.TimedOut && c.Res.Exit == b.Res.Exit && c.Present == b.Present && bytes.Equal(c.Out, b.Out) {
			ref.FirstDiffers = fmt.Sprintf("first run: exit %d, output present=%v (%d bytes); second and third run: exit %d, output present=%v (%d bytes); stderr of the second: %s",
				a.Res.Exit, a.Present, len(a.Out), b.Res.Exit, b.Present, len(b.Out), core.Trunc(b.Res.Stderr, 300))
		}
	}
	return ref
}

func c12DiagClass(stderr string) string {
	switch {
	case strings.Contains(stderr, "panic:") || strings.Contains(stderr, "fatal error:"):
		return "panic"
	case strings.Contains(stderr, "interface not found"):
		return "interface-not-found"
	case strings.Contains(stderr, "failed to load"):
		return "load-error"
	case strings.Contains(stderr, "error on optimizing imports") || strings.Contains(stderr, "error on formatting"):
		return "postprocess-error"
	case strings.Contains(stderr, "type is not defined"):
		return "type-not-defined"
	case strings.Contains(stderr, "not found"):
		return "symbol-not-found"
	case strings.Contains(stderr, "cannot use as a converter"):
		return "bad-converter"
	case strings.TrimSpace(stderr) == "":
		return "none"
	}
	return "other"
}

type c12fi struct{ n string }

func (f c12fi) Name() string       { return f.n }
func (f c12fi) Size() int64        { return 1 }
func (f c12fi) Mode() fs.FileMode  { return 0o644 }
func (f c12fi) ModTime() time.Time { return time.Time{} }
func (f c12fi) IsDir() bool        { return false }
func (f c12fi) Sys() any           { return nil }

// c12Header reports how go/build (the reader behind `go list`) sees a pre-state, by
// letting go/build import a virtual directory that contains only that file.
// pkg: "none" (no package name readable), "same", "other" (a different package name).
// hdr: "ok", "excluded" (build constraints / cgo / package documentation), "nul" (NUL byte
// inside the part of the file read for package clause and imports), "error" (other).
func c12Header(data []byte, pkgName string) (pkg, hdr string) {
	ctxt := build.Default
	ctxt.BuildTags = []string{"convergen"}
	ctxt.CgoEnabled = false
	ctxt.GOPATH = ""
	ctxt.OpenFile = func(string) (io.ReadCloser, error) { return io.NopCloser(bytes.NewReader(data)), nil }
	ctxt.ReadDir = func(string) ([]fs.FileInfo, error) { return []fs.FileInfo{c12fi{"pre.go"}}, nil }
	ctxt.IsDir = func(string) bool { return true }
	ctxt.HasSubdir = func(root, dir string) (string, bool) { return "", false }
	p, err := ctxt.ImportDir("/c12", 0)
	pkg, hdr = "none", "ok"
	if p != nil {
		switch {
		case p.Name == pkgName:
			pkg = "same"
		case p.Name != "":
			pkg = "other"
		}
		switch {
		case err != nil && strings.Contains(err.Error(), "unexpected NUL"):
			hdr = "nul"
		case len(p.IgnoredGoFiles) > 0:
			hdr = "excluded"
		case len(p.InvalidGoFiles) > 0:
			hdr = "error"
		}
	}
	return pkg, hdr
}

func c12ExitClass(x int) string {
	switch {
	case x == 0:
		return "0"
	case x == 1:
		return "1"
	case x == 2:
		return "2"
	case x < 0:
		return "signal"
	}
	return "other"
}

// ---------------------------------------------------------------------------------------
// pre-state enumeration

var (
	c12ReFunc   = regexp.MustCompile(`(?m)^func (\w+)\(`)
	c12ReStruct = regexp.MustCompile(`(?m)^type (\w+) struct`)
)

// c12OffClass names the region of a clean output an offset lies in.
func c12OffClass(out []byte, pkgName string, k int, trunc bool) string {
	pc := bytes.Index(out, []byte("\npackage "+pkgName))
	if pc < 0 {
		return "body"
	}
	pc++ // offset of 'p'
	ns := pc + len("package ")
	ne := ns + len(pkgName)
	fn := bytes.Index(out, []byte("\nfunc "))
	if fn < 0 {
		fn = len(out)
	}
	if trunc {
		switch {
		case k <= pc:
			return "header-comment"
		case k <= ns:
			return "package-keyword"
		case k < ne:
			return "package-name-partial"
		case k == ne:
			return "package-name-complete"
		case k <= fn:
			return "imports"
		case k >= len(out)-10:
			return "tail"
		}
		return "body"
	}
	switch {
	case k < pc:
		return "header-comment"
	case k < ns:
		return "package-keyword"
	case k < ne:
		return "package-name"
	case k <= fn:
		return "imports"
	}
	return "body"
}

// c12TruncOffsets lists the truncation offsets of an output of length n.
func c12TruncOffsets(out []byte, pkgName string, every bool) []int {
	n := len(out)
	set := map[int]bool{}
	if every {
		for k := 1; k < n; k++ {
			set[k] = true
		}
	} else {
		for k := 1; k < n && k <= 40; k++ {
			set[k] = true
		}
		for k := 16; k < n; k += 16 {
			set[k] = true
		}
		for k := n - 10; k < n; k++ {
			if k > 0 {
				set[k] = true
			}
		}
		if pc := bytes.Index(out, []byte("\npackage "+pkgName)); pc >= 0 {
			for k := pc - 1; k <= pc+1+len("package ")+len(pkgName)+3 && k < n; k++ {
				if k > 0 {
					set[k] = true
				}
			}
		}
	}
	var r []int
	for k := range set {
		r = append(r, k)
	}
	sort.Ints(r)
	return r
}

// c12PreStates enumerates the pre-states for one scenario. clean = output of version 0
// (nil when version 0 is rejected); stale = outputs of older versions / alien scenario.
func c12PreStates(sc *c12Scen, clean []byte, stale map[string][]byte, r *rand.Rand, everyByte bool, nFlip int) []*c12Pre {
	var ps []*c12Pre
	add := func(class, label, off string, data []byte, all bool) {
		ps = append(ps, &c12Pre{Class: class, Label: label, OffClass: off, Data: data, AllForms: all})
	}
	pkg := sc.PkgName
	add("empty", "empty", "", []byte{}, true)
	if clean != nil {
		add("self", "clean output of S (fixpoint)", "", clean, true)
	}
	// stale outputs of older versions, whole and truncated
	var names []string
	for k := range stale {
		names = append(names, k)
	}
	sort.Strings(names)
	for _, k := range names {
		o := stale[k]
		add("stale", "output("+k+")", k, o, true)
		for j := 0; j < 2 && len(o) > 2; j++ {
			off := 1 + r.Intn(len(o)-1)
			add("stale-trunc", fmt.Sprintf("output(%s)[:%d]", k, off), c12OffClass(o, pkg, off, true), o[:off], false)
		}
	}
	if clean != nil {
		for _, k := range c12TruncOffsets(clean, pkg, everyByte) {
			add("trunc", fmt.Sprintf("output(S)[:%d]", k), c12OffClass(clean, pkg, k, true), clean[:k], false)
		}
		// byte flips: all bytes of the package clause line + sampled offsets
		flips := map[int]bool{}
		if pc := bytes.Index(clean, []byte("\npackage "+pkg)); pc >= 0 {
			for k := pc + 1; k < pc+1+len("package ")+len(pkg)+1 && k < len(clean); k++ {
				flips[k] = true
			}
		}
		for i := 0; i < nFlip; i++ {
			flips[r.Intn(len(clean))] = true
		}
		var fl []int
		for k := range flips {
			fl = append(fl, k)
		}
		sort.Ints(fl)
		for _, k := range fl {
			d := append([]byte{}, clean...)
			bit := byte(1) << uint(r.Intn(8))
			d[k] ^= bit
			add("flip", fmt.Sprintf("output(S) byte %d ^= 0x%02x", k, bit), c12OffClass(clean, pkg, k, false), d, false)
		}
		// the clean output EXTENDED by something (an older version had one more function at the end;
		// junk appended by a crashed editor): the new output is a strict prefix of what is there
		for i, tail := range []string{"\n// stale trailing comment\n", "\nfunc staleExtra12() int { return 12 }\n", "garbage", "\n", "\x00\x00"} {
			add("extended", fmt.Sprintf("output(S) + %q", tail), fmt.Sprintf("ext#%d", i), append(append([]byte{}, clean...), []byte(tail)...), i < 2)
		}
		// the old output with Windows line endings (a checkout with autocrlf), whole, in one line only, cut short
		crlf := bytes.ReplaceAll(clean, []byte("\n"), []byte("\r\n"))
		add("crlf", "output(S) with CRLF line endings", "crlf-all", crlf, true)
		add("crlf", "output(S) with one CRLF line", "crlf-one", bytes.Replace(clean, []byte("\n"), []byte("\r\n"), 1), true)
		add("crlf", "output(S) with CRLF line endings, cut short", "crlf-trunc", crlf[:len(crlf)*2/3], false)
		// the old output differs from the new one in LETTER CASE only (an identifier respelled since: HomeUrl ->
		// HomeURL): same length, equal under case folding, still has to be replaced
		add("casefold", "output(S) in upper case", "casefold-upper", bytes.ToUpper(clean), true)
		add("casefold", "output(S) with the case of its last identifier letter flipped", "casefold-one", c12FlipLastLetter(clean), true)
		// the old output with something IN FRONT of its generated header (a licence header added by a
		// tool, a hand-added build line, blank lines): nothing of it may survive into the new output
		for i, head := range []string{"// Copyright 2026 ACME Corp. All rights reserved.\n\n", "//go:build !never\n\n", "// junk\n// more junk\n", "\n\n", "/* block */\n"} {
			add("prefixed", fmt.Sprintf("%q + output(S)", head), fmt.Sprintf("prefixed#%d", i), append([]byte(head), clean...), true)
		}
		// the whole old output under a different package name (package was renamed since)
		add("otherpkg", "output(S) with package clause renamed", "renamed-output",
			bytes.Replace(clean, []byte("\npackage "+pkg+"\n"), []byte("\npackage "+pkg+"old\n"), 1), true)
	}
	// syntactically broken Go of the same package
	for i, t := range []string{
		"package PKG\nfunc (", "package PKG\n\ntype X struct {\n\tA int\n", "package PKG\n}}}}\n", "package PKG\nimport \"",
		"package PKG\n\nfunc F() {\n\treturn 1 +\n", "package PKG;;func", "package PKG\n\nvar s = \"unterminated\n", "package PKG\n\n/* unterminated comment\n",
		"package", "packag", "package \n", "package 1\n", "package PKG.x\n", "// Code generated by github.com/reedom/convergen\n// DO NOT EDIT.\n\n",
		"package PKG\n\x00\x00\x00", "\ufeffpackage PKG\n\nfunc F( {}\n", "import \"fmt\"\npackage PKG\n",
	} {
		add("broken", fmt.Sprintf("broken#%d %q", i, core.Trunc(t, 30)), fmt.Sprintf("broken#%d", i), []byte(strings.ReplaceAll(t, "PKG", pkg)), true)
	}
	// valid Go of the same package that redeclares something or disturbs the package
	redecl := []string{
		"package PKG\n\ntype Convergen interface{ Bogus(int) int }\n",
		"package PKG\n\nvar Unrelated12 = 1\n",
		"//go:build convergen\n\npackage PKG\n\ntype Convergen interface{ Bogus(int) int }\n",
	}
	src := clean
	if src == nil {
		for _, k := range names {
			src = stale[k]
		}
	}
	for i, m := range c12ReFunc.FindAllSubmatch(src, 3) {
		redecl = append(redecl, fmt.Sprintf("package PKG\n\nfunc %s(x int) int { return x }\n", m[1]))
		if i == 0 {
			redecl = append(redecl, fmt.Sprintf("package PKG\n\nfunc %s() {}\n\nfunc %s() {}\n", m[1], m[1]))
		}
	}
	for _, m := range c12ReFunc.FindAllStringSubmatch(sc.Versions[0].Setup, 2) { // converters / hooks defined in the setup file
		redecl = append(redecl, fmt.Sprintf("package PKG\n\nfunc %s() {}\n", m[1]))
	}
	var tyNames []string
	for rel, content := range sc.Files {
		if filepath.Dir(rel) == sc.PkgRel && rel != sc.SetupRel && strings.HasSuffix(filepath.Base(rel), "types.go") {
			for _, m := range c12ReStruct.FindAllStringSubmatch(content, -1) {
				tyNames = append(tyNames, m[1])
			}
		}
	}
	sort.Strings(tyNames)
	for i, t := range tyNames {
		if i >= 3 {
			break
		}
		redecl = append(redecl, fmt.Sprintf("package PKG\n\ntype %s struct{ Zz12 int }\n", t))
		if i == 0 {
			redecl = append(redecl, fmt.Sprintf("package PKG\n\ntype %s = int\n", t))
		}
	}
	for i, t := range redecl {
		add("redecl", fmt.Sprintf("redecl#%d %q", i, core.Trunc(t, 60)), fmt.Sprintf("redecl#%d", i), []byte(strings.ReplaceAll(t, "PKG", pkg)), true)
	}
	// valid Go whose header (the part `go list` reads) is hostile
	for i, t := range []string{
		"package PKG\n\nimport _ \"no/such/pkg12\"\n",
		"package PKG\n\nimport _ \"" + scen.ModName + "/" + sc.PkgRel + "\"\n",
		"package PKG\n\nimport \"C\"\n",
		"package PKG\n\nimport _ \"embed\"\n\n//go:embed nothing12.txt\nvar x12 string\n",
		"//go:build ignore\n\npackage PKG\n\nfunc main() {}\n",
		"//go:build !convergen\n\npackage PKG\n\nvar OnlyOrdinary12 = 1\n",
		"//go:build (\n\npackage PKG\n",
	} {
		add("header", fmt.Sprintf("header#%d %q", i, core.Trunc(t, 50)), fmt.Sprintf("header#%d", i), []byte(strings.ReplaceAll(t, "PKG", pkg)), true)
	}
	// valid Go of the same package whose IMPORTS name a package that also the sources import, under another path
	imps := []string{
		"package PKG\n\nimport \"vb/c12legacy/ext\"\n\nvar _ = ext.Legacy12\n",
		"package PKG\n\nimport ext \"vb/c12legacy/ext\"\n\nvar _ = ext.ConvIntStr\n",
		"package PKG\n\nimport (\n\t\"vb/c12legacy/ext\"\n\t\"vb/c12legacy/m\"\n)\n\nvar _, _ = ext.Legacy12, m.Legacy12\n",
		"package PKG\n\nimport m \"vb/c12legacy/ext\"\n\nvar _ = m.Legacy12\n",
	}
	if clean != nil {
		if bytes.Contains(clean, []byte("\"vb/ext\"")) {
			imps = append(imps, string(bytes.ReplaceAll(clean, []byte("\"vb/ext\""), []byte("\"vb/c12legacy/ext\""))))
		}
		imps = append(imps, string(bytes.Replace(clean, []byte("\npackage "+pkg+"\n"), []byte("\npackage "+pkg+"\n\nimport ext \"vb/c12legacy/ext\"\n\nvar _ = ext.Legacy12\n"), 1)))
	}
	for i, t := range imps {
		add("imports", fmt.Sprintf("imports#%d %q", i, core.Trunc(t, 70)), fmt.Sprintf("imports#%d", i), []byte(strings.ReplaceAll(t, "PKG", pkg)), true)
	}
	// a different package clause
	for i, t := range []string{
		"package other\n", "package main\n\nfunc main() {}\n", "package PKG_test\n", "package PKGx\n", "package documentation\n",
		"//go:build ignore\n\npackage other\n", "//go:build !convergen\n\npackage other\n", "package " + pkg[:len(pkg)-1] + "\n",
	} {
		add("otherpkg", fmt.Sprintf("otherpkg#%d %q", i, core.Trunc(t, 40)), fmt.Sprintf("otherpkg#%d", i), []byte(strings.ReplaceAll(t, "PKG", pkg)), true)
	}
	// binary garbage
	g := make([]byte, 300)
	for i := range g {
		g[i] = byte(r.Intn(256))
	}
	add("garbage", "300 random bytes", "random", g, true)
	add("garbage", "4096 NUL bytes", "nul", make([]byte, 4096), true)
	add("garbage", "ELF header", "elf", []byte("\x7fELF\x02\x01\x01\x00\x00\x00\x00\x00\x00\x00\x00\x00\x03\x00>\x00"), true)
	add("garbage", "UTF-16 text", "utf16", []byte("\xff\xfep\x00a\x00c\x00k\x00a\x00g\x00e\x00 \x00s\x00c\x00\n\x00"), true)
	big := bytes.Repeat([]byte("package "+pkg+" // x\n"), 20000)
	add("garbage", "400 KB of repeated package clauses", "big", big, false)
	return ps
}

// ---------------------------------------------------------------------------------------
// judging

type c12Ctx struct {
	e   *core.Env
	rep *core.Report
}

func (c *c12Ctx) replay(sc *c12Scen, setup string, form c12Form, pre *c12Pre, ref c12Ref, o c12Obs) map[string]string {
	files := map[string]string{}
	for k, v := range sc.Files {
		files[k] = v
	}
	files[sc.SetupRel] = setup
	files["go.mod"] = "module " + scen.ModName + "\n\ngo 1.19\n"
	files["vtr/vtr.go"] = scen.VtrSrc
	files["ext/ext.go"] = scen.ExtSrc
	args, dir, out := form.spec("<root>", sc)
	if pre != nil && !pre.Absent {
		files["PRESTATE.bin"] = string(pre.Data)
	}
	if ref.Present {
		files["EXPECTED.out"] = string(ref.Out)
	}
	if o.Present {
		files["OBSERVED.out"] = string(o.Out)
	}
	files["stderr.txt"] = o.Res.Stderr
	label := "absent"
	if pre != nil {
		label = pre.Label
	}
	files["run.txt"] = fmt.Sprintf("copy files/ to a scratch module root <root>; put PRESTATE.bin at %s (pre-state: %s)\ncd %s && convergen %s\nexpected: exit=%d output=%v (EXPECTED.out)\nobserved: exit=%d output present=%v (OBSERVED.out)\n",
		out, label, dir, strings.Join(args, " "), ref.Exit, ref.Present, o.Res.Exit, o.Present)
	return files
}

// judge compares an observation under a pre-state with the clean reference. It returns
// true if the property held for this run.
func (c *c12Ctx) judge(sc *c12Scen, ver c12Version, form c12Form, pre *c12Pre, ref c12Ref, o c12Obs, caseID string) bool {
	rep := c.rep
	rep.Eval(1)
	if o.Res.TimedOut || o.Res.StartErr != "" {
		rep.Inconclusive(fmt.Sprintf("watchdog/start failure: %s %s", caseID, o.Res.StartErr))
		return true
	}
	_, _, out := form.spec("", sc)
	feat := func() map[string]string {
		ppkg, phdr := c12Header(pre.Data, sc.PkgName)
		diag := "n/a" // stderr of an exit-0 run holds only warnings
		if o.Res.Exit != 0 {
			diag = c12DiagClass(o.Res.Stderr)
		}
		return map[string]string{
			"pre_class": pre.Class,
			"pre_pkg":   ppkg,
			"pre_hdr":   phdr,
			"out_first": fmt.Sprint(sc.outSortsFirst(filepath.Base(out))),
			"ref_exit":  c12ExitClass(ref.Exit),
			"got_exit":  c12ExitClass(o.Res.Exit),
			"diag":      diag,
		}
	}
	head := fmt.Sprintf("scenario %s (%s layout, version %s), invocation %s, pre-state %s [%s]", sc.ID, sc.Layout, ver.Name, form.Name, pre.Label, pre.OffClass)
	if o.Res.Exit != ref.Exit {
		rep.Violate(&core.Violation{Property: "C12", Monitor: "prestate", Symptom: "exit-differs", Features: feat(), Case: caseID,
			Detail: fmt.Sprintf("%s: exit %d, but %d with the output path absent\nstderr: %s", head, o.Res.Exit, ref.Exit, core.Trunc(c12LastLines(o.Res.Stderr, 3), 500)),
			Files:  c.replay(sc, ver.Setup, form, pre, ref, o)})
		return false
	}
	var want []byte
	wantPresent := true
	what := "the bytes a run with the output path absent writes"
	switch {
	case ref.Present:
		want = ref.Out
	case pre.Absent:
		wantPresent = false
	default:
		// the clean run writes nothing: nothing may be written over the pre-state either
		want = pre.Data
		what = "the untouched pre-state (the run with the output path absent writes nothing)"
	}
	if o.Present != wantPresent || !bytes.Equal(o.Out, want) {
		f := feat()
		sym := "bytes-differ"
		if !ref.Present {
			sym = "writes-on-failure"
		}
		rep.Violate(&core.Violation{Property: "C12", Monitor: "prestate", Symptom: sym, Features: f, Case: caseID,
			Detail: fmt.Sprintf("%s: exit %d as expected, but the output path does not hold %s\nfirst difference at byte %d (observed %d bytes, expected %d)",
				head, o.Res.Exit, what, c12FirstDiff(o.Out, want), len(o.Out), len(want)),
			Files: c.replay(sc, ver.Setup, form, pre, ref, o)})
		return false
	}
	return true
}

func c12LastLines(s string, n int) string {
	ls := strings.Split(strings.TrimRight(s, "\n"), "\n")
	if len(ls) > n {
		ls = ls[len(ls)-n:]
	}
	return strings.Join(ls, "\n")
}

func c12FirstDiff(a, b []byte) int {
	n := len(a)
	if len(b) < n {
		n = len(b)
	}
	for i := 0; i < n; i++ {
		if a[i] != b[i] {
			return i
		}
	}
	return n
}

// ---------------------------------------------------------------------------------------
// the check

// RunC12 is the check for C12.
func RunC12(e *core.Env) int {
	rep := core.NewReport(e, "fault_enumeration",
		"scenarios = seeded broad setups (accepted ones with >=2 methods, plus rejected ones) + 3 fixed setups (a generated function used as :conv target; mismatching imported field types), each in two directory layouts "+
			"(generator's names / output file sorting first in its directory) and four invocation forms (package dir + relative path, module root + relative path, -out <name>, absolute path); "+
			"pre-states of the output path = empty, clean output (fixpoint), outputs of older versions of the setup (method dropped/renamed, error result toggled, notation changed, a different setup of the same package) whole and truncated, "+
			"output(S) truncated at every byte (thorough) or at the first 40 bytes + every byte around the package clause + every 16th byte + last 10 (quick), single-bit flips, broken Go, redeclaring Go, hostile file headers, other package clauses, binary garbage; "+
			"plus edit/corrupt/run histories of length <=5. A case is counted distinct/non-trivial by (scenario, layout, pre-state class, offset/variant class) when the pre-state differs from the clean output and the tool was actually run on it")
	rep.Assume("the reference behaviour run(S | output path absent) is itself deterministic (verified by running it twice per scenario, version and invocation form; disagreement = inconclusive, C13's subject)",
		"pre-states are regular files; directories, symlinks and unwritable files at the output path belong to C15",
		"only exit status and the bytes at the output path are compared (the property does not speak about diagnostics)")
	thorough := e.Tier == "thorough"
	nAcc, nRej, nCand := 8, 2, 60
	nFlip, nHist := 16, 4
	if thorough {
		nAcc, nRej, nCand = 34, 4, 260
		nFlip, nHist = 120, 12
	}
	cx := &c12Ctx{e: e, rep: rep}

	// 1. candidate scenarios, screened by one clean run each
	var cands []*scen.Scenario
	for i := 0; i < nCand; i++ {
		cands = append(cands, GenByProfile("broad", e.Seed, i, fmt.Sprintf("s%04d", i)))
	}
	b, err := NewBatch(e, "c12-screen", cands)
	if err != nil {
		rep.Inconclusive("screen batch: " + err.Error())
		return rep.Finish()
	}
	b.RunTool(e, false)
	var base []*c12Scen
	acc, rej := 0, 0
	for i, c := range b.Cases {
		if c.Run.TimedOut {
			continue
		}
		take := false
		if c.Run.Exit == 0 && c.Out != nil && len(c.S.AllMethods()) >= 2 && acc < nAcc {
			acc++
			take = true
		} else if c.Run.Exit != 0 && rej < nRej {
			rej++
			take = true
		}
		if !take {
			continue
		}
		// an unrelated setup living in the same package directory, as a source of foreign stale output
		var alien *scen.Scenario
		for k := 0; k < 6 && alien == nil; k++ {
			j := (i + 1 + k) % len(b.Cases)
			if j != i && b.Cases[j].Run.Exit == 0 && b.Cases[j].Out != nil {
				alien = GenByProfile("broad", e.Seed, j, c.S.ID) // same generator stream, but rendered into this package dir
			}
		}
		base = append(base, c12FromScenario(c.S, alien, core.Rand(e.Seed, "c12-versions", c.S.ID)))
	}
	_ = os.RemoveAll(b.Root)
	base = append(base, c12HandScenarios()...)
	var scs []*c12Scen
	for _, sc := range base {
		scs = append(scs, sc, c12OutFirst(sc))
	}
	rep.Count("scenarios_accepted", acc)
	rep.Count("scenarios_rejected", rej)
	rep.Count("scenario_layouts", len(scs))

	// 2. clean references per (scenario-layout, form, version) and stale outputs
	type refKey struct{ sc, form, ver int }
	refs := map[refKey]c12Ref{}
	alienOut := make([][]byte, len(scs))
	var mu sync.Mutex
	type refTask struct{ sc, form, ver int }
	var rts []refTask
	for si, sc := range scs {
		for fi := range c12Forms {
			for vi := range sc.Versions {
				rts = append(rts, refTask{si, fi, vi})
			}
		}
		rts = append(rts, refTask{si, 0, -1}) // alien
	}
	e.Parallel(len(rts), func(i int) {
		t := rts[i]
		sc := scs[t.sc]
		root := filepath.Join(e.Work, fmt.Sprintf("ref-%d-%d-%d", t.sc, t.form, t.ver+1))
		defer os.RemoveAll(root)
		if t.ver < 0 {
			if sc.Alien == nil {
				return
			}
			if err := sc.materialise(root, sc.Alien, ""); err != nil {
				return
			}
			ar := c12CleanRef(e, root, sc, c12Forms[0])
			if !ar.OK {
				rep.Inconclusive(fmt.Sprintf("reference run not reproducible: alien setup of scenario %s/%s", sc.ID, sc.Layout))
			} else if ar.Exit == 0 && ar.Present {
				mu.Lock()
				alienOut[t.sc] = ar.Out
				mu.Unlock()
			}
			return
		}
		if err := sc.materialise(root, sc.Files, sc.Versions[t.ver].Setup); err != nil {
			rep.Inconclusive("materialise: " + err.Error())
			return
		}
		ref := c12CleanRef(e, root, sc, c12Forms[t.form])
		mu.Lock()
		refs[refKey{t.sc, t.form, t.ver}] = ref
		mu.Unlock()
	})
	for k, ref := range refs {
		if !ref.OK && ref.FirstDiffers != "" {
			rep.Eval(1)
			files := map[string]string{"setup.go": scs[k.sc].Versions[k.ver].Setup, "what.txt": ref.FirstDiffers}
			for rel, content := range scs[k.sc].Files {
				files["files/"+rel] = content
			}
			rep.Violate(&core.Violation{Property: "C12", Monitor: "clean-path", Symptom: "rerun-on-empty-output-path-differs-from-first-run",
				Features: map[string]string{"form": c12Forms[k.form].Name}, Case: scs[k.sc].ID + "/" + c12Forms[k.form].Name,
				Detail: fmt.Sprintf("scenario %s/%s, invocation %s, version %s, output path removed before every run: %s", scs[k.sc].ID, scs[k.sc].Layout, c12Forms[k.form].Name, scs[k.sc].Versions[k.ver].Name, ref.FirstDiffers),
				Files:  files})
		} else if !ref.OK {
			rep.Inconclusive(fmt.Sprintf("reference run not reproducible: scenario %s/%s form %s version %s", scs[k.sc].ID, scs[k.sc].Layout, c12Forms[k.form].Name, scs[k.sc].Versions[k.ver].Name))
		}
		rep.Histo("reference_exit", c12ExitClass(ref.Exit))
	}

	// 3. pre-state jobs
	type task struct {
		sc   int
		jobs []c12Job
	}
	var tasks []task
	var scenInfo []string
	const chunk = 48
	for si, sc := range scs {
		ref0 := refs[refKey{si, 0, 0}]
		var clean []byte
		if ref0.OK && ref0.Exit == 0 && ref0.Present {
			clean = ref0.Out
		}
		stale := map[string][]byte{}
		for vi := 1; vi < len(sc.Versions); vi++ {
			rv := refs[refKey{si, 0, vi}]
			if rv.OK && rv.Exit == 0 && rv.Present && !bytes.Equal(rv.Out, clean) {
				stale[sc.Versions[vi].Name] = rv.Out
			}
		}
		if alienOut[si] != nil && !bytes.Equal(alienOut[si], clean) {
			stale["alien"] = alienOut[si]
		}
		every := thorough && sc.Layout == "outfirst"
		pres := c12PreStates(sc, clean, stale, core.Rand(e.Seed, "c12-pre", sc.ID, sc.Layout), every, nFlip)
		var jobs []c12Job
		for _, p := range pres {
			for fi := range c12Forms {
				if fi > 0 && !p.AllForms {
					continue
				}
				if !refs[refKey{si, fi, 0}].OK {
					continue
				}
				jobs = append(jobs, c12Job{Form: fi, Pre: p})
			}
		}
		for a := 0; a < len(jobs); a += chunk {
			z := a + chunk
			if z > len(jobs) {
				z = len(jobs)
			}
			tasks = append(tasks, task{si, jobs[a:z]})
		}
		mu.Lock()
		scenInfo = append(scenInfo, fmt.Sprintf("%s/%s origin=%s ref_exit=%d clean_bytes=%d clean_hash=%s versions=%d stale=%d pre_states=%d jobs=%d",
			sc.ID, sc.Layout, sc.Origin, ref0.Exit, len(clean), core.Hash(string(clean)), len(sc.Versions), len(stale), len(pres), len(jobs)))
		mu.Unlock()
		if clean != nil {
			rep.Histo("clean_output_size", fmt.Sprintf("%d00-%d99", len(clean)/100, len(clean)/100))
			rep.Sample(map[string]any{"kind": "scenario", "scenario": sc.ID, "layout": sc.Layout, "setup": core.Trunc(sc.Versions[0].Setup, 800),
				"clean_output_bytes": len(clean), "versions": c12VersionNames(sc), "pre_states": len(pres),
				"example_pre_states": []string{pres[0].Label, pres[len(pres)/3].Label, pres[len(pres)/2].Label, pres[len(pres)-1].Label}}, 2)
		}
	}
	rep.Extra("scenarios", scenInfo)
	e.Parallel(len(tasks), func(i int) {
		t := tasks[i]
		sc := scs[t.sc]
		root := filepath.Join(e.Work, fmt.Sprintf("job-%d", i))
		defer os.RemoveAll(root)
		if err := sc.materialise(root, sc.Files, sc.Versions[0].Setup); err != nil {
			rep.Inconclusive("materialise: " + err.Error())
			return
		}
		for _, j := range t.jobs {
			form := c12Forms[j.Form]
			ref := refs[refKey{t.sc, j.Form, 0}]
			o := c12Run(e, root, sc, form, j.Pre)
			caseID := fmt.Sprintf("%s/%s/%s/%s", sc.ID, sc.Layout, form.Name, j.Pre.Label)
			if !o.Res.TimedOut && (o.Res.Exit != ref.Exit || o.Present != ref.Present || !bytes.Equal(o.Out, ref.Out)) {
				// a disagreement has to REPRODUCE: the property is about a deterministic tool (C13), so a
				// difference that a second identical run does not show is trouble of the moment (a go list
				// child failing on a loaded machine), reported as inconclusive, never as a verdict
				o2 := c12Run(e, root, sc, form, j.Pre)
				if !o2.Res.TimedOut && o2.Res.Exit == ref.Exit && o2.Present == ref.Present && bytes.Equal(o2.Out, ref.Out) {
					rep.Eval(1)
					rep.Count("disagreement_not_reproduced_on_rerun", 1)
					rep.Inconclusive(fmt.Sprintf("%s: exit %d vs %d on the first run, agreement on an identical second run; stderr of the first: %s", caseID, o.Res.Exit, ref.Exit, core.Trunc(o.Res.Stderr, 200)))
					continue
				}
				o = o2
			}
			held := cx.judge(sc, sc.Versions[0], form, j.Pre, ref, o, caseID)
			rep.Histo("pre_state_class", j.Pre.Class)
			rep.Histo("invocation_form", form.Name)
			if j.Pre.Class == "trunc" || j.Pre.Class == "flip" || j.Pre.Class == "stale-trunc" {
				rep.Histo("offset_class", j.Pre.Class+":"+j.Pre.OffClass)
			}
			if !(ref.Present && bytes.Equal(j.Pre.Data, ref.Out)) && !o.Res.TimedOut {
				rep.Distinct(fmt.Sprintf("%s|%s|%s|%s", sc.ID, sc.Layout, j.Pre.Class, j.Pre.OffClass))
			}
			if j.Pre.Class == "self" && held {
				rep.Count("fixpoint_runs_held", 1)
			}
			// clean the output so that the tool's own args (-out) never leave files that change the layout for the next job
			_, _, out := form.spec(root, sc)
			_ = os.Remove(out)
		}
	})

	// 4. histories: edit / corrupt / run sequences of length <= 5 followed by a repeated run
	type hist struct {
		sc  int
		idx int
	}
	var hs []hist
	for si := range scs {
		for k := 0; k < nHist; k++ {
			hs = append(hs, hist{si, k})
		}
	}
	e.Parallel(len(hs), func(i int) {
		h := hs[i]
		sc := scs[h.sc]
		r := core.Rand(e.Seed, "c12-hist", sc.ID, sc.Layout, h.idx)
		fi := []int{0, 0, 1, 2, 3}[r.Intn(5)]
		form := c12Forms[fi]
		root := filepath.Join(e.Work, fmt.Sprintf("hist-%d", i))
		defer os.RemoveAll(root)
		if err := sc.materialise(root, sc.Files, sc.Versions[0].Setup); err != nil {
			rep.Inconclusive("materialise: " + err.Error())
			return
		}
		_, _, out := form.spec(root, sc)
		steps := 3 + r.Intn(3)
		var trace []string
		cur := -1
		for st := 0; st <= steps; st++ {
			vi := r.Intn(len(sc.Versions))
			if st == steps-1 {
				vi = 0 // the history ends on the current version ...
			}
			if st == steps {
				vi = cur // ... run twice in a row
			}
			ref := refs[refKey{h.sc, fi, vi}]
			if !ref.OK {
				return
			}
			ver := sc.Versions[vi]
			_ = os.WriteFile(filepath.Join(root, sc.SetupRel), []byte(ver.Setup), 0o644)
			// optional interruption damage to whatever the previous steps left
			damage := "none"
			before, err := os.ReadFile(out)
			havePrev := err == nil
			if st > 0 && st < steps && havePrev && len(before) > 1 {
				switch r.Intn(6) {
				case 0:
					k := 1 + r.Intn(len(before)-1)
					before = before[:k]
					damage = fmt.Sprintf("truncate@%d", k)
				case 1:
					k := r.Intn(len(before))
					before = append([]byte{}, before...)
					before[k] ^= 1 << uint(r.Intn(8))
					damage = fmt.Sprintf("flip@%d", k)
				case 2:
					before = []byte{}
					damage = "emptied"
				}
				if damage != "none" {
					_ = os.WriteFile(out, before, 0o644)
				}
			}
			pre := &c12Pre{Class: "history", Label: fmt.Sprintf("history step %d: version %s after [%s], damage %s", st, ver.Name, strings.Join(trace, " > "), damage),
				OffClass: damage, Data: before, Absent: !havePrev}
			if st == steps {
				pre.Class = "history-rerun"
			}
			o := c12Run(e, root, sc, form, nil)
			caseID := fmt.Sprintf("%s/%s/%s/history%d/step%d", sc.ID, sc.Layout, form.Name, h.idx, st)
			held := cx.judge(sc, ver, form, pre, ref, o, caseID)
			rep.Histo("pre_state_class", pre.Class)
			rep.Histo("history_step_version", ver.Name)
			trace = append(trace, ver.Name)
			prevName := "none"
			if cur >= 0 {
				prevName = sc.Versions[cur].Name
			}
			if havePrev && !(ref.Present && bytes.Equal(before, ref.Out)) {
				rep.Distinct(fmt.Sprintf("%s|%s|history|%s>%s|%s", sc.ID, sc.Layout, prevName, ver.Name, strings.SplitN(damage, "@", 2)[0]))
			}
			if st == steps && held {
				rep.Count("history_reruns_held", 1)
			}
			cur = vi
			if o.Res.TimedOut {
				return
			}
		}
		rep.Count("histories", 1)
		rep.Sample(map[string]any{"kind": "history", "scenario": sc.ID, "layout": sc.Layout, "invocation": form.Name, "steps": trace}, 4)
	})
	rep.Exhaustive(false) // scenarios, flips and histories are sampled; only the sub-space named below is enumerated completely
	if thorough {
		rep.Extra("exhaustive_subspace", "every truncation offset 1..len-1 of output(S) for every accepted scenario in the outfirst layout (default invocation); all other dimensions are sampled")
	} else {
		rep.Extra("exhaustive_subspace", "none in the quick tier (truncation offsets are sampled)")
	}
	return rep.Finish()
}

func c12VersionNames(sc *c12Scen) []string {
	var r []string
	for _, v := range sc.Versions {
		r = append(r, v.Name)
	}
	return r
}
