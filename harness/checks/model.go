package checks

import (
	"fmt"
	"go/types"
	"path/filepath"
	"strings"

	"vh/outmon"
	"vh/refmodel"
	"vh/scen"
)

// SetupView is the type-checked scenario package as convergen sees it (tag convergen, output withheld).
type SetupView struct {
	Loaded *outmon.Loaded
	Loader *outmon.Loader
}

// LoadSetupView loads the setup view of a case.
func LoadSetupView(c *CaseResult) (*SetupView, error) {
	l := outmon.NewLoader(scen.ModName, c.Root, "convergen")
	l.Exclude[filepath.Join(c.Root, c.S.OutRel())] = true
	l.Exclude[filepath.Join(c.Root, c.S.PkgRel, "zz_drv.go")] = true
	ld, err := l.Load(c.S.PkgPath())
	if err != nil {
		return nil, err
	}
	if ld.Pkg == nil {
		return nil, fmt.Errorf("setup package did not type-check: %v", ld.Errs)
	}
	return &SetupView{Loaded: ld, Loader: l}, nil
}

// MethodSig finds the signature of an interface method.
func (v *SetupView) MethodSig(iface, method string) *types.Signature {
	obj := v.Loaded.Pkg.Scope().Lookup(iface)
	if obj == nil {
		return nil
	}
	it, ok := obj.Type().Underlying().(*types.Interface)
	if !ok {
		return nil
	}
	for i := 0; i < it.NumMethods(); i++ {
		if it.Method(i).Name() == method {
			return it.Method(i).Type().(*types.Signature)
		}
	}
	return nil
}

// FuncLookup resolves a converter name to a signature.
func (v *SetupView) FuncLookup(s *scen.Scenario) func(string) *types.Signature {
	return func(name string) *types.Signature {
		pkg := v.Loaded.Pkg
		if i := strings.Index(name, "."); i >= 0 {
			q, fn := name[:i], name[i+1:]
			for _, imp := range pkg.Imports() {
				if imp.Name() == q {
					if o := imp.Scope().Lookup(fn); o != nil && o.Exported() {
						if sig, ok := o.Type().(*types.Signature); ok {
							return sig
						}
					}
				}
			}
			return nil
		}
		if o := pkg.Scope().Lookup(name); o != nil {
			if sig, ok := o.Type().(*types.Signature); ok {
				return sig
			}
		}
		// a function being generated in the same run
		for _, it := range s.Converters() {
			for _, m := range it.Methods {
				if m.Name == name {
					if sig := v.MethodSig(it.Name, m.Name); sig != nil && sig.Params().Len() == 1 {
						return sig
					}
				}
			}
		}
		return nil
	}
}

// Canon renders an observed expression canonically with variables replaced by roles.
func Canon(e *outmon.Expr, roleOf map[string]string) string {
	if e == nil {
		return ""
	}
	switch e.Op {
	case "root":
		if r, ok := roleOf[e.Name]; ok {
			return r
		}
		return "?" + e.Name
	case "field":
		return Canon(e.X, roleOf) + "." + e.Name
	case "method":
		return Canon(e.X, roleOf) + "." + e.Name + "()"
	case "conv":
		return "cast(" + Canon(e.X, roleOf) + ")"
	case "call":
		return e.Name + "(" + Canon(e.X, roleOf) + ")"
	case "addr":
		return "&" + Canon(e.X, roleOf)
	case "deref":
		return "*" + Canon(e.X, roleOf)
	case "lit":
		return "lit:" + refmodel.CanonLit(e.Text)
	}
	return "?"
}

// LeafObs is what the output does with one destination leaf.
type LeafObs struct {
	Path      string
	Kind      string // assign slice skip nomatch missing descended
	Canon     string
	Items     []*outmon.Item // all items covering the leaf
	Exact     bool           // the covering item names the leaf itself
	CoverPath string
}

func isPrefixPath(p, leaf string) bool {
	return p == leaf || strings.HasPrefix(leaf, p+".")
}

// ObserveLeaf finds the items that cover a leaf.
func ObserveLeaf(fi *FuncInfo, roleOf map[string]string, leaf string) *LeafObs {
	lo := &LeafObs{Path: leaf, Kind: "missing"}
	var below []*outmon.Item
	for i := range fi.Plan.Items {
		it := &fi.Plan.Items[i]
		switch it.Kind {
		case "assign", "slice", "skip", "nomatch":
		default:
			continue
		}
		if it.Root != fi.DstVar {
			continue
		}
		p := it.PathStr()
		if isPrefixPath(p, leaf) {
			lo.Items = append(lo.Items, it)
		} else if strings.HasPrefix(p, leaf+".") {
			below = append(below, it)
		}
	}
	if len(lo.Items) == 0 {
		if len(below) > 0 {
			lo.Kind = "descended"
			lo.Items = below
		}
		return lo
	}
	it := lo.Items[0]
	lo.CoverPath = it.PathStr()
	lo.Exact = lo.CoverPath == leaf
	rest := strings.TrimPrefix(leaf, lo.CoverPath)
	switch it.Kind {
	case "skip", "nomatch":
		lo.Kind = it.Kind
	case "slice":
		lo.Kind = "slice"
		c := Canon(it.RHS, roleOf)
		if it.SliceMode == "cast" {
			lo.Canon = "slicecast(" + c + ")"
		} else {
			lo.Canon = "slicecopy(" + c + ")"
		}
	case "assign":
		lo.Kind = "assign"
		lo.Canon = refmodel.NormalizeRest(Canon(it.RHS, roleOf) + rest)
	}
	return lo
}

// RoleOf maps the variable names of the generated function to roles.
func RoleOf(fi *FuncInfo) map[string]string {
	roles := scen.Roles(fi.Opts, len(fi.Method.Extras))
	m := map[string]string{}
	var inputs []outmon.Param
	if fi.Plan.Recv != nil {
		inputs = append(inputs, *fi.Plan.Recv)
	}
	inputs = append(inputs, fi.Plan.Params...)
	if len(inputs) == len(roles) {
		for i, in := range inputs {
			m[in.Name] = roles[i]
		}
	}
	if fi.DstVar != "" {
		m[fi.DstVar] = "dst"
	}
	return m
}

// Disc is one disagreement between the reference model and the output.
type Disc struct {
	Exp  *refmodel.Expect
	Obs  *LeafObs
	Kind string
}

func contains(l []string, s string) bool {
	for _, x := range l {
		if x == s {
			return true
		}
	}
	return false
}

// Compare returns the disagreements for all model expectations.
func Compare(fi *FuncInfo, exps []*refmodel.Expect) []Disc {
	roleOf := RoleOf(fi)
	var ds []Disc
	for _, e := range exps {
		lo := ObserveLeaf(fi, roleOf, e.Path)
		switch e.Class {
		case "either":
			continue
		case "none":
			if lo.Kind == "assign" || lo.Kind == "slice" || lo.Kind == "descended" {
				ds = append(ds, Disc{e, lo, "expected-none-got-assign"})
			}
		case "assign":
			switch lo.Kind {
			case "skip", "nomatch", "missing":
				if !e.AlsoNone() {
					ds = append(ds, Disc{e, lo, "expected-assign-got-none"})
				}
			case "descended":
				ds = append(ds, Disc{e, lo, "wrong-source"})
			default:
				if !contains(e.Sources, lo.Canon) {
					ds = append(ds, Disc{e, lo, "wrong-source"})
				}
			}
		}
	}
	return ds
}

// BuildModels computes the model expectations of every method of a case (keyed by FuncKey).
func BuildModels(c *CaseResult) (map[string][]*refmodel.Expect, *SetupView, error) {
	out, _, v, err := BuildModelsHidden(c)
	return out, v, err
}

// BuildModelsHidden also returns the expectations for leaves the package cannot name but which get a
// value through a whole-struct copy.
func BuildModelsHidden(c *CaseResult) (map[string][]*refmodel.Expect, map[string][]*refmodel.Expect, *SetupView, error) {
	v, err := LoadSetupView(c)
	if err != nil {
		return nil, nil, nil, err
	}
	hidden := map[string][]*refmodel.Expect{}
	out := map[string][]*refmodel.Expect{}
	lookup := v.FuncLookup(c.S)
	for _, it := range c.S.Converters() {
		for _, m := range it.Methods {
			sig := v.MethodSig(it.Name, m.Name)
			if sig == nil || sig.Params().Len() == 0 || sig.Results().Len() == 0 {
				continue
			}
			md := refmodel.New(v.Loaded.Pkg, scen.Effective(it, m), m, sig, lookup)
			out[FuncKey(m)] = md.Run()
			hidden[FuncKey(m)] = md.Hidden
		}
	}
	return out, hidden, v, nil
}

// typeKind gives a coarse kind label of a go/types type for fingerprints.
func typeKind(t types.Type) string {
	if t == nil {
		return "?"
	}
	named := ""
	if n, ok := t.(*types.Named); ok {
		named = "named-"
		if n.Obj().Pkg() != nil && (n.Obj().Pkg().Name() == "ext" || n.Obj().Pkg().Name() == "m") {
			named = "named-ext-"
		}
	}
	switch u := t.Underlying().(type) {
	case *types.Basic:
		switch {
		case u.Info()&types.IsString != 0:
			return named + "string"
		case u.Info()&types.IsInteger != 0:
			return named + "int"
		case u.Info()&types.IsFloat != 0:
			return named + "float"
		case u.Info()&types.IsBoolean != 0:
			return named + "bool"
		}
		return named + "basic"
	case *types.Pointer:
		return "ptr-" + typeKind(u.Elem())
	case *types.Slice:
		return named + "slice"
	case *types.Struct:
		return named + "struct"
	case *types.Interface:
		return named + "iface"
	case *types.Map:
		return named + "map"
	case *types.Array:
		return named + "array"
	case *types.Signature:
		return "func"
	case *types.Chan:
		return "chan"
	}
	return "other"
}
