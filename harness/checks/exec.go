package checks

import (
	"fmt"
	"strings"

	"vh/core"
	"vh/execmon"
	"vh/outmon"
	"vh/scen"
)

// FuncInfo ties a method to its observed plan and execution plan.
type FuncInfo struct {
	Case    *CaseResult
	Method  *scen.Method
	Opts    scen.Opts
	Plan    *outmon.FuncPlan
	DstVar  string
	Foreign []string // assignments whose root is not the destination variable
}

// PrepareUnit builds the execution unit of an accepted, type-correct case.
func PrepareUnit(c *CaseResult) (*execmon.Unit, map[string]*FuncInfo) {
	s := c.S
	u := &execmon.Unit{S: s, GenFn: map[string]string{}}
	u.Plan.ID = s.ID
	infos := map[string]*FuncInfo{}
	for _, it := range s.Converters() {
		for _, m := range it.Methods {
			key := FuncKey(m)
			p := c.Plans[key]
			if p == nil {
				continue
			}
			o := scen.Effective(it, m)
			fi := &FuncInfo{Case: c, Method: m, Opts: o, Plan: p}
			infos[key] = fi
			roles := scen.Roles(o, len(m.Extras))
			fp := execmon.FuncPlan{Key: key, Roles: roles, RootNames: map[string]string{}, HasErr: m.HasErr,
				PreHook: m.PreSite, PostHook: m.PostSite, ErrSites: m.ErrSites, Judge: true}
			fp.Style = o.Style
			if o.Reverse {
				fp.Style = "arg"
			}
			var inputs []outmon.Param
			if p.Recv != nil {
				inputs = append(inputs, *p.Recv)
			}
			inputs = append(inputs, p.Params...)
			if len(inputs) == len(roles) {
				for i, in := range inputs {
					fp.RootNames[in.Name] = roles[i]
					if roles[i] == "dst" {
						fi.DstVar = in.Name
						if !strings.HasPrefix(in.Type, "*") {
							fp.Judge = false // E-i: by-value destination operand under :reverse
						}
					}
				}
			}
			if fp.Style == "return" && len(p.Results) > 0 {
				fi.DstVar = p.Results[0].Name
			}
			for i := range p.Items {
				item := &p.Items[i]
				switch item.Kind {
				case "assign", "slice", "nestinit":
					if item.Root != fi.DstVar {
						fi.Foreign = append(fi.Foreign, item.Text)
						continue
					}
					fp.Items = append(fp.Items, execmon.PlanItem{Kind: item.Kind, Path: item.Path, RHS: item.RHS, Guards: item.GuardX, SliceMode: item.SliceMode})
				}
			}
			if o.Recv != "" {
				base := strings.TrimPrefix(m.Src.Type, "*")
				if strings.HasPrefix(m.Src.Type, "*") {
					u.GenFn[key] = "(*" + base + ")." + m.Name
				} else {
					u.GenFn[key] = base + "." + m.Name
				}
			} else {
				u.GenFn[key] = m.Name
			}
			u.Plan.Funcs = append(u.Plan.Funcs, fp)
		}
	}
	return u, infos
}

// ExecBatch runs the exec engine over the accepted, type-correct cases of a batch whose
// generated functions are all present. It returns records grouped by scenario/function.
type ExecOut struct {
	Infos   map[string]map[string]*FuncInfo // scen id -> func key -> info
	Recs    map[string][]*execmon.Rec       // "scen/func" -> records in order
	Result  *execmon.Result
	Skipped int
}

// Runnable says whether a case can be compiled and executed.
func Runnable(c *CaseResult) bool {
	if c.Run.Exit != 0 || c.Out == nil || len(c.TypeErrs) > 0 || c.Plans == nil {
		return false
	}
	for _, k := range ExpectedFuncKeys(c.S) {
		if c.Plans[k] == nil {
			return false
		}
	}
	return true
}

// ExecBatch executes all runnable cases of b.
func ExecBatch(e *core.Env, rep *core.Report, b *Batch, job execmon.Job, tag string) *ExecOut {
	out := &ExecOut{Infos: map[string]map[string]*FuncInfo{}, Recs: map[string][]*execmon.Rec{}}
	var units []*execmon.Unit
	for _, c := range b.Cases {
		if !Runnable(c) {
			out.Skipped++
			continue
		}
		u, infos := PrepareUnit(c)
		units = append(units, u)
		out.Infos[c.S.ID] = infos
	}
	if len(units) == 0 {
		return out
	}
	job.Seed = uint64(e.Seed)
	res := execmon.Exec(e, b.Root, units, job, tag)
	out.Result = res
	for id, msg := range res.Dropped {
		// the real compiler rejected what go/types accepted (or the stub does not fit): two judges disagree
		rep.Inconclusive(fmt.Sprintf("exec build dropped %s: %s", id, core.Trunc(msg, 300)))
	}
	if res.DriverErr != "" {
		rep.Inconclusive("driver: " + res.DriverErr + "\n" + core.Trunc(res.DriverTail, 1500))
	}
	for _, r := range res.Recs {
		k := r.Scen + "/" + r.Fn
		out.Recs[k] = append(out.Recs[k], r)
	}
	return out
}

func findCase(b *Batch, id string) *CaseResult {
	for _, c := range b.Cases {
		if c.S.ID == id {
			return c
		}
	}
	return nil
}

// methodFeatures gives the coarse feature vector of a method for fingerprints/coverage.
func methodFeatures(fi *FuncInfo) map[string]string {
	o := fi.Opts
	f := map[string]string{"style": o.Style, "recv": fmt.Sprint(o.Recv != ""), "reverse": fmt.Sprint(o.Reverse),
		"src_ptr": fmt.Sprint(strings.HasPrefix(fi.Method.Src.Type, "*")), "dst_ptr": fmt.Sprint(strings.HasPrefix(fi.Method.Dst.Type, "*")),
		"err": fmt.Sprint(fi.Method.HasErr)}
	return f
}
