package checks

import (
	"strings"

	"vh/outmon"
)

// ParseCanon turns a canonical source string of the reference model back into an expression tree
// ("cast(cv1(&src.A.B()))", "x0.Deep", "lit:42", "src.S.String()").
func ParseCanon(s string) *outmon.Expr {
	s = strings.TrimSpace(s)
	if strings.HasPrefix(s, "lit:") {
		return &outmon.Expr{Op: "lit", Text: s[4:]}
	}
	if strings.HasPrefix(s, "&") {
		if x := ParseCanon(s[1:]); x != nil {
			return &outmon.Expr{Op: "addr", X: x}
		}
		return nil
	}
	if strings.HasPrefix(s, "*") {
		if x := ParseCanon(s[1:]); x != nil {
			return &outmon.Expr{Op: "deref", X: x}
		}
		return nil
	}
	// trailing member access: find the last '.' at paren depth 0
	depth := 0
	lastDot := -1
	for i := 0; i < len(s); i++ {
		switch s[i] {
		case '(':
			depth++
		case ')':
			depth--
		case '.':
			if depth == 0 {
				lastDot = i
			}
		}
	}
	if strings.HasSuffix(s, ")") && !strings.HasSuffix(s, "()") {
		// call form name(inner) possibly with dots in name (ext.Conv): only if the matching '(' has no '.' at depth 0 after it
		open := matchingOpen(s)
		if open > 0 && (lastDot < 0 || lastDot < open) {
			name := s[:open]
			inner := ParseCanon(s[open+1 : len(s)-1])
			if inner == nil {
				return nil
			}
			switch name {
			case "cast":
				return &outmon.Expr{Op: "conv", X: inner}
			case "slicecopy", "slicecast":
				return nil
			}
			return &outmon.Expr{Op: "call", Name: name, X: inner}
		}
	}
	if lastDot > 0 {
		x := ParseCanon(s[:lastDot])
		if x == nil {
			return nil
		}
		m := s[lastDot+1:]
		if strings.HasSuffix(m, "()") {
			return &outmon.Expr{Op: "method", Name: strings.TrimSuffix(m, "()"), X: x}
		}
		return &outmon.Expr{Op: "field", Name: m, X: x}
	}
	if s == "" || strings.ContainsAny(s, "()") {
		return nil
	}
	return &outmon.Expr{Op: "root", Name: s}
}

func matchingOpen(s string) int {
	depth := 0
	for i := len(s) - 1; i >= 0; i-- {
		switch s[i] {
		case ')':
			depth++
		case '(':
			depth--
			if depth == 0 {
				return i
			}
		}
	}
	return -1
}
