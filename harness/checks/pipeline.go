// Package checks contains one check per property, built on the shared engines.
package checks

import (
	"fmt"
	"go/ast"
	"os"
	"path/filepath"
	"sort"
	"strings"

	"vh/core"
	"vh/outmon"
	"vh/scen"
)

// CaseResult is everything observed for one scenario run.
type CaseResult struct {
	S        *scen.Scenario
	Root     string // module root on disk
	Run      core.RunResult
	Out      []byte
	OutPath  string
	FmtOK    bool
	FmtMsg   string
	TypeErrs []string
	Loaded   *outmon.Loaded
	Loader   *outmon.Loader
	OutFile  *ast.File
	Plans    map[string]*outmon.FuncPlan // by FuncPlan.Key()
	PlanList []*outmon.FuncPlan
	// Via: "" (cwd = package dir, relative path) | "symlink-abs" (absolute path that runs through a
	// symbolic link to the module root, cwd outside) | "symlink-cwd" (cwd reached through that link)
	Via string
}

// Batch is a module on disk holding many scenarios.
type Batch struct {
	Root  string
	Cases []*CaseResult
}

// NewBatch writes the module base and all scenarios.
func NewBatch(e *core.Env, name string, ss []*scen.Scenario) (*Batch, error) {
	root := filepath.Join(e.Work, name)
	if err := scen.WriteModuleBase(root); err != nil {
		return nil, err
	}
	b := &Batch{Root: root}
	for _, s := range ss {
		if err := s.Write(root); err != nil {
			return nil, err
		}
		b.Cases = append(b.Cases, &CaseResult{S: s, Root: root})
	}
	return b, nil
}

// RunTool runs convergen on every scenario of the batch (cwd = package dir, relative setup path)
// and applies the static output monitors.
func (b *Batch) RunTool(e *core.Env, typecheck bool) {
	e.Parallel(len(b.Cases), func(i int) {
		c := b.Cases[i]
		RunCase(e, c, typecheck)
	})
}

// RunCase runs the tool for one case.
func RunCase(e *core.Env, c *CaseResult, typecheck bool) {
	s := c.S
	dir := filepath.Join(c.Root, s.PkgRel)
	c.OutPath = filepath.Join(c.Root, s.OutRel())
	_ = os.Remove(c.OutPath)
	spec := core.RunSpec{Args: []string{filepath.Base(s.Setup)}, Dir: dir, WallSec: 120}
	if c.Via != "" {
		link := c.Root + "-lnk"
		if _, err := os.Lstat(link); err != nil {
			_ = os.Symlink(filepath.Base(c.Root), link)
		}
		switch c.Via {
		case "symlink-abs":
			spec.Args, spec.Dir = []string{filepath.Join(link, s.Setup)}, filepath.Dir(c.Root)
		case "symlink-cwd":
			spec.Dir = filepath.Join(link, s.PkgRel)
			spec.Env = []string{"PWD=" + spec.Dir}
		}
	}
	c.Run = e.Run(spec)
	if c.Run.Exit != 0 {
		return
	}
	out, err := os.ReadFile(c.OutPath)
	if err != nil {
		return
	}
	c.Out = out
	c.FmtOK, c.FmtMsg = outmon.GofmtClean(out)
	if typecheck {
		c.TypeErrs, c.Loaded, c.Loader = outmon.CheckOutput(scen.ModName, c.Root, s.PkgPath(), c.OutPath, nil)
		if c.Loaded != nil {
			for i, n := range c.Loaded.Names {
				if n == filepath.Base(c.OutPath) {
					c.OutFile = c.Loaded.Files[i]
				}
			}
			if c.OutFile != nil {
				c.PlanList = outmon.ExtractPlans(c.Loader.Fset, c.OutFile, c.Loaded.Info)
				c.Plans = map[string]*outmon.FuncPlan{}
				for _, p := range c.PlanList {
					c.Plans[p.Key()] = p
				}
			}
		}
	}
}

// ReplayFiles collects the files of a case for a replay directory.
func (c *CaseResult) ReplayFiles() map[string]string {
	files := map[string]string{}
	for rel, content := range c.S.Files {
		files[rel] = content
	}
	files["go.mod"] = "module " + scen.ModName + "\n\ngo 1.19\n"
	files["vtr/vtr.go"] = scen.VtrSrc
	files["ext/ext.go"] = scen.ExtSrc
	if c.Out != nil {
		files[c.S.OutRel()+".observed"] = string(c.Out)
	}
	files["stderr.txt"] = c.Run.Stderr
	files["stdout.txt"] = c.Run.Stdout
	files["run.txt"] = fmt.Sprintf("cd %s && convergen %s\nexit=%d signal=%s timedout=%v cpu=%v\n", c.S.PkgRel,
		strings.Join(c.Run.Spec.Args, " "), c.Run.Exit, c.Run.Signal, c.Run.TimedOut, c.Run.CPU)
	return files
}

// ExpectedFuncKeys returns the multiset (as sorted list) of expected generated function keys.
func ExpectedFuncKeys(s *scen.Scenario) []string {
	var keys []string
	for _, m := range s.AllMethods() {
		keys = append(keys, FuncKey(m))
	}
	sort.Strings(keys)
	return keys
}

// FuncKey is "Recv.Name" for :recv methods, else "Name".
func FuncKey(m *scen.Method) string {
	if _, ok := m.Get("recv"); ok {
		return strings.TrimPrefix(m.Src.Type, "*") + "." + m.Name
	}
	return m.Name
}

// MechOf returns the probe of a destination path.
func MechOf(m *scen.Method, path string) *scen.Probe {
	var best *scen.Probe
	for i := range m.Probes {
		p := &m.Probes[i]
		if p.Dst == path {
			best = p // last one wins (skip wraps inner)
		}
	}
	if best != nil {
		return best
	}
	// enclosing probe
	for i := range m.Probes {
		p := &m.Probes[i]
		if p.Dst != "" && strings.HasPrefix(path, p.Dst+".") {
			best = p
		}
	}
	return best
}
