package checks

import (
	"encoding/json"
	"fmt"
	"os"
	"path/filepath"
	"strconv"

	"vh/core"
	"vh/outmon"
	"vh/scen"
)

// Registry maps property ids to check functions (returning the exit code).
var Registry = map[string]func(*core.Env) int{}

// Replay prints the stored violation and re-runs the tool on the stored files.
func Replay(prop, path string) int {
	b, err := os.ReadFile(filepath.Join(path, "violation.json"))
	if err != nil {
		fmt.Println("cannot read replay:", err)
		return 2
	}
	var v core.Violation
	_ = json.Unmarshal(b, &v)
	fmt.Printf("property=%s monitor=%s symptom=%s\ncase=%s\ndetail=%s\n", v.Property, v.Monitor, v.Symptom, v.Case, v.Detail)
	fmt.Println("files under", filepath.Join(path, "files"), "- to re-run: copy them to a scratch module and run the command in run.txt")
	return 0
}

// DebugGen materialises scenarios: gen <profile> <n> <dir> [run]
func DebugGen(args []string) int {
	if len(args) < 3 {
		fmt.Println("gen <profile> <n> <dir> [run]")
		return 2
	}
	n, _ := strconv.Atoi(args[1])
	dir := args[2]
	seed := int64(1)
	if s := os.Getenv("VERIF_SEED"); s != "" {
		seed, _ = strconv.ParseInt(s, 10, 64)
	}
	var ss []*scen.Scenario
	for i := 0; i < n; i++ {
		id := fmt.Sprintf("s%04d", i)
		ss = append(ss, GenByProfile(args[0], seed, i, id))
	}
	if err := scen.WriteModuleBase(dir); err != nil {
		fmt.Println(err)
		return 2
	}
	for _, s := range ss {
		_ = s.Write(dir)
		jb, _ := json.MarshalIndent(s, "", " ")
		_ = os.WriteFile(filepath.Join(dir, s.PkgRel, "scenario.json"), jb, 0o644)
	}
	fmt.Println("wrote", n, "scenarios to", dir)
	return 0
}

// GenByProfile generates scenario i of a named profile.
func GenByProfile(profile string, seed int64, i int, id string) *scen.Scenario {
	r := core.Rand(seed, profile, i)
	switch profile {
	case "layout":
		return scen.GenLayout(r, scen.LayoutCfg{MaxIfaces: 3, MaxMethods: 40, Surround: true, Comments: true, OneLine: true,
			NotationsIface: true, DoclessIface: 0.3, Imports: true, BuildVariants: true, PkgDoc: true, AliasIface: true, MidLine: true}, id, id)
	case "select":
		return scen.GenLayout(r, scen.LayoutCfg{MaxIfaces: 3, MaxMethods: 6, Surround: true, Comments: true, OneLine: true, Unmarked: true, Siblings: true,
			NotationsIface: true, DoclessIface: 0.3, Imports: false, BuildVariants: false, PkgDoc: true, NoIface: true, SameNames: true, EmptyIface: true, LineDirective: true, AliasIface: true, MidLine: true}, id, id)
	case "carry":
		return scen.GenLayout(r, scen.LayoutCfg{MaxIfaces: 3, MaxMethods: 8, Surround: true, Comments: true, OneLine: true, Unmarked: true,
			NotationsIface: true, DoclessIface: 0.3, Imports: true, BuildVariants: true, PkgDoc: true, LineDirective: true, AliasIface: true}, id, id)
	case "match":
		return scen.GenBroad(r, scen.Match(), id, id)
	case "notate":
		return scen.GenBroad(r, scen.Notate(), id, id)
	case "shapes":
		return scen.GenBroad(r, scen.Shapes(), id, id)
	case "errs":
		return scen.GenBroad(r, scen.Errs(), id, id)
	case "hooks":
		return scen.GenBroad(r, scen.Hooks(), id, id)
	case "slices":
		return scen.GenBroad(r, scen.Slices(), id, id)
	default:
		return scen.GenBroad(r, scen.Broad(), id, id)
	}
}

// DebugPlan prints the observed plan of the output in <modroot>/<pkgrel>/setup.gen.go: plan <modroot> <pkgrel>
func DebugPlan(args []string) int {
	root, rel := args[0], args[1]
	errs, ld, l := outmon.CheckOutput(scen.ModName, root, scen.ModName+"/"+rel, filepath.Join(root, rel, "setup.gen.go"), nil)
	fmt.Println("type errors:", errs)
	for i, n := range ld.Names {
		if n == "setup.gen.go" {
			for _, p := range outmon.ExtractPlans(l.Fset, ld.Files[i], ld.Info) {
				fmt.Println("func", p.Key())
				for _, it := range p.Items {
					fmt.Printf("  %-8s %-20s %s\n", it.Kind, it.PathStr(), Canon(it.RHS, map[string]string{}))
				}
			}
		}
	}
	return 0
}
