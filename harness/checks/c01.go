package checks

import (
	"fmt"
	"regexp"
	"strings"

	"vh/core"
	"vh/outmon"
	"vh/scen"
)

func init() { Registry["C01"] = RunC01 }

var rePos = regexp.MustCompile(`^\S*?([^/\s]+\.go):(\d+):(\d+): `)

// classifyTypeErr maps a go/types diagnostic to a coarse symptom class.
func classifyTypeErr(msg string) string {
	m := rePos.ReplaceAllString(msg, "")
	switch {
	case strings.Contains(m, "undefined: err") || strings.Contains(m, "undeclared name: err"):
		return "err-undeclared"
	case strings.Contains(m, "invalid operation: cannot indirect") || strings.Contains(m, "invalid indirect"):
		return "invalid-indirect"
	case strings.Contains(m, "arguments to copy") || strings.Contains(m, "copy expects"):
		return "copy-mismatch"
	case strings.Contains(m, "cannot use"):
		return "cannot-use"
	case strings.Contains(m, "undefined:") || strings.Contains(m, "undeclared name"):
		return "undefined"
	case strings.Contains(m, "assignment mismatch"):
		return "assignment-mismatch"
	case strings.Contains(m, "too many return values") || strings.Contains(m, "not enough return values") || strings.Contains(m, "wrong number of return values"):
		return "return-count"
	case strings.Contains(m, "cannot take address") || strings.Contains(m, "cannot take the address"):
		return "cannot-address"
	case strings.Contains(m, "cannot call pointer method") || strings.Contains(m, "cannot call non-function"):
		return "bad-call"
	case strings.Contains(m, "cannot convert"):
		return "cannot-convert"
	case strings.Contains(m, "not exported") || strings.Contains(m, "unexported") || strings.Contains(m, "cannot refer to unexported"):
		return "unexported"
	case strings.Contains(m, "redeclared"):
		return "redeclared"
	case strings.Contains(m, "imported and not used"):
		return "unused-import"
	case strings.Contains(m, "missing return"):
		return "missing-return"
	case strings.Contains(m, "expected") || strings.Contains(m, "syntax"):
		return "syntax"
	}
	return "other"
}

// outLine returns the line of the output file named by a diagnostic (0 if none).
func outLine(msg, outBase string) int {
	m := rePos.FindStringSubmatch(msg)
	if m == nil || m[1] != outBase {
		return 0
	}
	var n int
	fmt.Sscanf(m[2], "%d", &n)
	return n
}

// attribute finds the generated function and body item a line of the output belongs to.
func attribute(c *CaseResult, line int) (fn string, item string, itemKind string, method *scen.Method, dstPath string) {
	if c.OutFile == nil || c.Loader == nil {
		return
	}
	for _, p := range c.PlanList {
		lo := c.Loader.Fset.Position(p.Decl.Pos()).Line
		hi := c.Loader.Fset.Position(p.Decl.End()).Line
		if line < lo || line > hi {
			continue
		}
		fn = p.Key()
		for _, m := range c.S.AllMethods() {
			if FuncKey(m) == fn {
				method = m
			}
		}
		if line == lo {
			itemKind = "header"
			return
		}
		for i := range p.Items {
			it := &p.Items[i]
			endLine := it.Line + strings.Count(it.Text, "\n")
			if it.ErrChecked {
				endLine += 3
			}
			if line >= it.Line && line <= endLine {
				item = it.Text
				itemKind = it.Kind
				dstPath = it.PathStr()
				return
			}
		}
		return
	}
	return
}

// c01Judge applies the C01 oracle to one case and reports violations.
func c01Judge(rep *core.Report, c *CaseResult) { c01JudgeOpt(rep, c, false) }

// c01JudgeOpt: foreign = the input is not one of the well-formed generated scenarios (C14's faulty
// inputs); a package that does not compile even WITHOUT the output is then simply not judged.
func c01JudgeOpt(rep *core.Report, c *CaseResult, foreign bool) {
	s := c.S
	rep.Eval(1)
	if c.Run.TimedOut {
		rep.Inconclusive("tool watchdog: " + s.ID)
		return
	}
	if c.Run.Exit != 0 {
		rep.Count("tool_exit_nonzero", 1)
		return
	}
	if c.Out == nil {
		rep.Violate(&core.Violation{Property: "C01", Monitor: "output", Symptom: "exit0-no-output", Case: s.ID,
			Detail: "tool exited 0 but no output file exists", Files: c.ReplayFiles()})
		return
	}
	rep.Count("outputs_checked", 1)
	if !c.FmtOK {
		rep.Violate(&core.Violation{Property: "C01", Monitor: "gofmt", Symptom: "not-gofmt-clean", Case: s.ID,
			Detail: c.FmtMsg, Files: c.ReplayFiles()})
	}
	outBase := s.OutRel()[strings.LastIndex(s.OutRel(), "/")+1:]
	if len(c.TypeErrs) > 0 {
		// is the scenario package healthy without the generated file? If not, the generator (not
		// convergen) is at fault: infrastructure trouble, never a verdict.
		l := outmon.NewLoader(scen.ModName, c.Root)
		l.Exclude[c.OutPath] = true
		if ld, err := l.Load(s.PkgPath()); err != nil || ld == nil || len(ld.Errs) > 0 {
			// errors that only stem from the missing generated functions (zz_use-style references) do not occur in our scenarios
			msg := ""
			if ld != nil && len(ld.Errs) > 0 {
				msg = ld.Errs[0]
			}
			if foreign {
				rep.Count("faulty_input_package_does_not_compile_by_itself_not_judged", 1)
				return
			}
			rep.Inconclusive("scenario package " + s.ID + " does not compile by itself: " + msg)
			return
		}
	}
	seen := map[string]bool{}
	for _, msg := range c.TypeErrs {
		sym := classifyTypeErr(msg)
		line := outLine(msg, outBase)
		feat := map[string]string{}
		fn, item, kind, method, dpath := attribute(c, line)
		feat["item"] = kind
		if method != nil {
			if pr := MechOf(method, dpath); pr != nil && dpath != "" {
				feat["mech"] = pr.Mech
				feat["dst_kind"] = scen.KindOf(pr.DstT)
				feat["src_kind"] = scen.KindOf(pr.SrcT)
				feat["extra"] = pr.Extra
			}
			feat["has_err"] = fmt.Sprint(method.HasErr)
		}
		if line == 0 {
			feat["where"] = "other-file"
		}
		if s.Features["pkgname_alias_collides"] == "true" {
			feat["pkgmode"] = "alias-collide"
		} else if s.Features["pkgname_differs_from_dir"] == "true" {
			feat["pkgmode"] = "differs"
		}
		if m := regexp.MustCompile(`undefined: (\w+)(\.\w+)?$`).FindStringSubmatch(msg); m != nil {
			feat["undefined"] = m[1]
		}
		v := &core.Violation{Property: "C01", Monitor: "typecheck", Symptom: sym, Features: feat, Case: s.ID,
			Detail: fmt.Sprintf("%s\n  in %s: %s", msg, fn, core.Trunc(item, 300)), Files: c.ReplayFiles()}
		if seen[v.Fingerprint()] {
			continue
		}
		seen[v.Fingerprint()] = true
		rep.Violate(v)
	}
	// distinct non-trivial: feature vectors of assignments actually emitted
	for _, p := range c.PlanList {
		var method *scen.Method
		for _, m := range s.AllMethods() {
			if FuncKey(m) == p.Key() {
				method = m
			}
		}
		if method == nil {
			continue
		}
		rep.Count("functions_checked", 1)
		style := "return"
		if _, ok := method.Get("style"); ok {
			style = "arg"
		}
		for i := range p.Items {
			it := &p.Items[i]
			if it.Kind != "assign" && it.Kind != "slice" {
				continue
			}
			pr := MechOf(method, it.PathStr())
			if pr == nil {
				continue
			}
			ops := ""
			if it.RHS != nil {
				ops = strings.Join(it.RHS.Ops(), ">")
			}
			rep.Distinct(fmt.Sprintf("%s|%s|%s|%s|%s|%s", pr.Mech, scen.KindOf(pr.DstT), scen.KindOf(pr.SrcT), it.Kind+it.SliceMode, ops, style))
			rep.Histo("mechanism", pr.Mech)
		}
	}
}

// RunC01 is the check for C01.
func RunC01(e *core.Env) int {
	rep := core.NewReport(e, "exploration",
		"seeded random setup files (broad profile: all field mechanisms, signature shapes, hooks, converters, imported/local/nested/embedded types) + corpus; "+
			"a case is non-trivial/distinct by (mechanism, dst kind, src kind, emitted item shape, rhs op chain, style) of an assignment that was actually emitted in an exit-0 output")
	rep.Assume("go/types (source importer) is the judge of 'type-checks in its package'; format.Source is the judge of gofmt-cleanliness",
		"scenario packages themselves compile without the generated file (checked by the generator's own tests)")
	n := 400
	if e.Tier == "thorough" {
		n = 6000
	}
	// the type-pair matrix shared with C04: complete in thorough, a seeded 1/8 slice in quick
	parts := 8
	if e.Tier == "thorough" {
		parts = 1
	}
	ms, total := matrixScenarios(e.Seed, parts)
	ms = append(hotCells(), ms...)
	rep.Extra("matrix_methods_total", total)
	rep.Extra("matrix_methods_run", len(ms))
	for start, bi := 0, 0; start < len(ms); start, bi = start+200, bi+1 {
		end := start + 200
		if end > len(ms) {
			end = len(ms)
		}
		if b, err := NewBatch(e, fmt.Sprintf("matrix-b%d", bi), ms[start:end]); err == nil {
			b.RunTool(e, true)
			for _, c := range b.Cases {
				c01Judge(rep, c)
			}
		}
	}
	if cb, err := NewBatch(e, "corpus", corpusC01()); err == nil {
		cb.RunTool(e, true)
		for _, c := range cb.Cases {
			c01Judge(rep, c)
		}
	}
	// C14's faulty inputs (notation text, callbacks, signatures, operand and field kinds): whichever of them
	// is ACCEPTED must produce code that compiles, too
	{
		// a FIXED list (same in every tier and for every seed): C14 explores the seeded variety for its own
		// property; here the list is a regression corpus whose every accepted member has been looked at
		var sel []*scen.Scenario
		for _, s := range scen.GenFuzz(core.Rand(20260926, "c01-faulty-inputs"), 2400) {
			plain := s.Features["nomodule"] != "1" && s.Features["argv_set"] != "1"
			// out of the property's scope: generic operand types; the text of a :literal is the user's own Go
			// expression (the tool copies it verbatim and cannot be asked to prove it valid)
			if strings.Contains(s.InjectClass, "generic") || strings.Contains(s.InjectClass, "literal") || s.Features["notation"] == "literal" {
				plain = false
			}
			// the property's premise: the setup file is excluded from the ordinary build by its build tag
			if !strings.Contains(s.Files[s.Setup], "//go:build convergen\n") {
				plain = false
			}
			for rel := range s.Files {
				if !strings.HasPrefix(rel, s.PkgRel+"/") || strings.Count(rel, "/") != 1 {
					plain = false
				}
			}
			if plain {
				sel = append(sel, s)
			}
		}
		for start, bi := 0, 0; start < len(sel); start, bi = start+400, bi+1 {
			end := start + 400
			if end > len(sel) {
				end = len(sel)
			}
			cb, err := NewBatch(e, fmt.Sprintf("fuzz-b%d", bi), sel[start:end])
			if err != nil {
				rep.Inconclusive("fuzz batch: " + err.Error())
				continue
			}
			cb.RunTool(e, true)
			for _, c := range cb.Cases {
				rep.Count("faulty_inputs_run", 1)
				if c.Run.Exit == 0 && c.Out != nil && !c.Run.TimedOut {
					// the setup package itself (convergen tag on, output withheld) has to type-check: what the
					// tool carries over from a setup file that is broken Go is not the tool's doing
					if v, err := LoadSetupView(c); err != nil || len(v.Loaded.Errs) > 0 {
						rep.Count("faulty_input_setup_package_has_type_errors_not_judged", 1)
						continue
					}
					rep.Count("faulty_inputs_accepted_and_judged", 1)
					c01JudgeOpt(rep, c, true)
				}
			}
		}
	}
	// inputs that ought to be refused (C10's ill-fitting hooks): whichever of them IS accepted must compile
	if cb, err := NewBatch(e, "badhooks", illFittingHooks()); err == nil {
		cb.RunTool(e, true)
		for _, c := range cb.Cases {
			if c.Run.Exit == 0 {
				rep.Count("ill_fitting_hooks_accepted_and_judged", 1)
				c01Judge(rep, c)
			}
		}
	}
	runBroadBatches(e, rep, "broad", n, 200, func(c *CaseResult) {
		c01Judge(rep, c)
		if len(c.TypeErrs) == 0 && c.Out != nil {
			rep.Sample(map[string]any{"case": c.S.ID, "setup": core.Trunc(c.S.Files[c.S.Setup], 1200), "output_excerpt": core.Trunc(string(c.Out), 1200)}, 2)
		}
	})
	// every other profile of the framework also feeds the C01 monitors (different biases: layouts,
	// notations, destination shapes, error-heavy, hooks, slices, interface selection, carry-over)
	nx := 80
	if e.Tier == "thorough" {
		nx = 1500
	}
	for _, prof := range []string{"match", "notate", "shapes", "errs", "hooks", "slices", "layout", "select", "carry"} {
		prof := prof
		runBroadBatches(e, rep, prof, nx, 200, func(c *CaseResult) {
			c01Judge(rep, c)
			rep.Histo("profile_outputs", prof)
		})
	}
	return rep.Finish()
}

// runBroadBatches generates n scenarios of a profile in batches, runs the tool with static
// monitors and calls judge on each case.
func runBroadBatches(e *core.Env, rep *core.Report, profile string, n, batchSize int, judge func(c *CaseResult)) {
	runBroadBatchesVia(e, rep, profile, n, batchSize, nil, judge)
}

// runBroadBatchesVia lets the caller choose, per scenario index, how the tool reaches the input (CaseResult.Via).
func runBroadBatchesVia(e *core.Env, rep *core.Report, profile string, n, batchSize int, via func(i int) string, judge func(c *CaseResult)) {
	for start, bi := 0, 0; start < n; start, bi = start+batchSize, bi+1 {
		end := start + batchSize
		if end > n {
			end = n
		}
		var ss []*scen.Scenario
		for i := start; i < end; i++ {
			id := fmt.Sprintf("s%05d", i)
			ss = append(ss, GenByProfile(profile, e.Seed, i, id))
		}
		b, err := NewBatch(e, fmt.Sprintf("%s-b%d", profile, bi), ss)
		if err != nil {
			rep.Inconclusive("batch setup: " + err.Error())
			continue
		}
		if via != nil {
			for k, c := range b.Cases {
				c.Via = via(start + k)
			}
		}
		b.RunTool(e, true)
		for _, c := range b.Cases {
			judge(c)
		}
	}
}

var (
	rePosAny = regexp.MustCompile(`^\S+?\.go:\d+(:\d+)?:\s*`)
	reDigits = regexp.MustCompile(`\d+`)
	reIdent  = regexp.MustCompile(`\b(cv|pre|pos|S|D|SN|DN|SM|AX|Conv[A-Z])N\b`)
)

// corpusC01 holds the witness of KF-C01-unimported-package-unresolvable.
func corpusC01() []*scen.Scenario {
	b := scen.NewBuilder(nil, scen.Profile{}, "kw-c01-collide", "kwc01a")
	b.PkgNameMode = "alias-collide"
	b.Struct("m", "SN1", "X int")
	b.Struct("m", "DN1", "X int")
	b.Struct("", "S", "A m.SN1", "L []ext.Shape")
	b.Struct("", "D", "A m.DN1", "L []ext.Shape")
	m := &scen.Method{Name: "Collide", Src: scen.Param{Type: "*S"}, Dst: scen.Param{Type: "*D"}, Notations: []scen.Notation{scen.N("typecast")},
		Probes: []scen.Probe{{Dst: "A", Mech: "diff", DstT: "m.DN1", SrcT: "m.SN1"}, {Dst: "L", Mech: "slice", DstT: "[]ext.Shape", SrcT: "[]ext.Shape"}}}
	b2 := scen.NewBuilder(nil, scen.Profile{}, "kw-c01-differs", "kwc01b")
	b2.PkgNameMode = "differs"
	b2.Struct("m", "SN1", "X int")
	b2.Struct("m", "DN1", "X int")
	b2.Struct("", "S", "A m.SN1")
	b2.Struct("", "D", "A m.DN1")
	m2 := &scen.Method{Name: "Differs", Src: scen.Param{Type: "*S"}, Dst: scen.Param{Type: "*D"}, Notations: []scen.Notation{scen.N("typecast")},
		Probes: []scen.Probe{{Dst: "A", Mech: "diff", DstT: "m.DN1", SrcT: "m.SN1"}}}
	// repaired in 3a002dc: a converter taking *T fed from a source that fits T only through a conversion
	// (the address of a conversion / of a String() result cannot be taken)
	b3 := scen.NewBuilder(nil, scen.Profile{}, "kw-c01-addr-of-conversion", "kwc01c")
	b3.Struct("", "S", "A int", "B LStr", "C LInt")
	b3.Struct("", "D", "A int", "B int", "C int")
	b3.Func("func cvPS(p *string) int {\n\tvtr.Enter(\"cvPS\", p)\n\treturn len(*p)\n}\n", false, "cvPS")
	b3.Func("func cvPI(p *int) int {\n\tvtr.Enter(\"cvPI\", p)\n\treturn *p\n}\n", false, "cvPI")
	m3 := &scen.Method{Name: "AddrOfConversion", Src: scen.Param{Type: "*S"}, Dst: scen.Param{Type: "*D"},
		Notations: []scen.Notation{scen.N("typecast"), scen.N("stringer"), scen.N("conv", "cvPS", "A", "A"), scen.N("conv", "cvPS", "B", "B"), scen.N("conv", "cvPI", "C", "C")},
		Probes:    []scen.Probe{{Dst: "A", Mech: "conv", DstT: "int", SrcT: "int", Extra: "ptrarg"}, {Dst: "B", Mech: "conv", DstT: "int", SrcT: "LStr", Extra: "ptrarg"}, {Dst: "C", Mech: "conv", DstT: "int", SrcT: "LInt", Extra: "ptrarg"}}}
	// repaired in 4340aa3 / 481d86e: the result of a getter that returns a struct by value has no address -
	// no pointer-receiver getter can be called on it and neither it nor its fields can be passed by address
	b4 := scen.NewBuilder(nil, scen.Profile{}, "kw-c01-value-getter-result", "kwc01d")
	in := b4.Struct("", "In", "gname string", "Aux int")
	in.Methods = append(in.Methods, "func (i *In) Name() string {\n\tvtr.Enter(\"In.Name\")\n\treturn i.gname\n}\n")
	sv := b4.Struct("", "S", "gin In")
	sv.Methods = append(sv.Methods, "func (s S) Val() In {\n\tvtr.Enter(\"S.Val\")\n\treturn s.gin\n}\n")
	b4.Struct("", "DIn", "Name string", "Aux int")
	b4.Struct("", "D", "Val DIn", "N2 string", "A2 int", "A3 int")
	b4.Func("func cvPI2(p *int) int {\n\tvtr.Enter(\"cvPI2\", p)\n\treturn *p\n}\n", false, "cvPI2")
	b4.Func("func cvPIn(p *In) int {\n\tvtr.Enter(\"cvPIn\", p)\n\treturn p.Aux\n}\n", false, "cvPIn")
	m4 := &scen.Method{Name: "ValueGetterResult", Src: scen.Param{Type: "*S"}, Dst: scen.Param{Type: "*D"},
		Notations: []scen.Notation{scen.N("getter"), scen.N("map", "Val().Name()", "N2"), scen.N("conv", "cvPI2", "Val().Aux", "A2"), scen.N("conv", "cvPIn", "Val()", "A3")},
		Probes:    []scen.Probe{{Dst: "Val", Mech: "nested", DstT: "DIn", SrcT: "In", Extra: "via-getter"}, {Dst: "N2", Mech: "map", DstT: "string", Extra: "getter"}, {Dst: "A2", Mech: "conv", DstT: "int", Extra: "ptrarg"}, {Dst: "A3", Mech: "conv", DstT: "int", Extra: "ptrarg"}}}
	// repaired in 3ea38bc: a value returned together with an error (getter or converter returning (T, error))
	// was wrapped in a conversion, String() or converter call - int64(src.Get()), src.Lev().String(),
	// cvI(src.Get()), int64(cvE(src.L)) - none of which compiles (reported in passing by a round-7 sub-agent)
	b5 := scen.NewBuilder(nil, scen.Profile{}, "kw-c01-error-value-wrapped", "kwc01e")
	s5 := b5.Struct("", "S", "gn int", "L int")
	s5.Methods = append(s5.Methods, "func (s *S) Get() (int, error) {\n\tvtr.Enter(\"S.Get\")\n\treturn s.gn, nil\n}\n",
		"func (s *S) Lev() (WSt, error) {\n\tvtr.Enter(\"S.Lev\")\n\treturn WSt{s.gn}, nil\n}\n")
	b5.Func("type WSt struct{ N int }\n\nfunc (w WSt) String() string { return \"w\" }\n", false, "")
	b5.Func("func cvI(v int) string {\n\tvtr.Enter(\"cvI\", v)\n\treturn \"i\"\n}\n", false, "cvI")
	b5.Func("func cvE(v int) (int32, error) {\n\tvtr.Enter(\"cvE\", v)\n\treturn int32(v), nil\n}\n", false, "cvE")
	b5.Struct("", "D", "X string", "Y int64", "Z string", "W int64", "V int")
	m5 := &scen.Method{Name: "ErrorValueWrapped", Src: scen.Param{Type: "*S"}, Dst: scen.Param{Type: "*D"}, HasErr: true,
		Notations: []scen.Notation{scen.N("typecast"), scen.N("stringer"), scen.N("conv", "cvI", "Get()", "X"), scen.N("map", "Get()", "Y"), scen.N("map", "Lev()", "Z"), scen.N("conv", "cvE", "L", "W"), scen.N("map", "Get()", "V")},
		Probes:    []scen.Probe{{Dst: "X", Mech: "conv", DstT: "string", Extra: "gettererr"}, {Dst: "Y", Mech: "map", DstT: "int64", Extra: "gettererrtyped"}, {Dst: "Z", Mech: "map", DstT: "string", Extra: "gettererrtyped"}, {Dst: "W", Mech: "conv", DstT: "int64", Extra: "errdstdiff+err"}, {Dst: "V", Mech: "map", DstT: "int", Extra: "gettererr"}}}
	return []*scen.Scenario{b.Manual(m), b2.Manual(m2), b3.Manual(m3), b4.Manual(m4), b5.Manual(m5)}
}
