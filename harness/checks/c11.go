package checks

import (
	"fmt"
	"go/build/constraint"
	"regexp"
	"sort"
	"strings"

	"vh/core"
	"vh/outmon"
	"vh/scen"
)

func init() { Registry["C11"] = RunC11 }

var (
	reNotationAny = regexp.MustCompile(`^\s*//\s*:[A-Za-z]`)
	reGenerate    = regexp.MustCompile(`^\s*//\s*go:generate\b`)
)

// judgeC11 compares the structure of the setup file with the structure of the output.
func judgeC11(rep *core.Report, c *CaseResult) {
	s := c.S
	rep.Eval(1)
	if c.Run.Exit != 0 || c.Out == nil {
		rep.Count("not_accepted", 1)
		return
	}
	in, err1 := outmon.ParseStruct([]byte(s.Files[s.Setup]))
	out, err2 := outmon.ParseStruct(c.Out)
	if err1 != nil || err2 != nil {
		rep.Inconclusive(fmt.Sprintf("parse %s: %v %v", s.ID, err1, err2))
		return
	}
	vec := s.Features["layout.vector"]
	viol := func(sym string, feat map[string]string, detail string) {
		if feat == nil {
			feat = map[string]string{}
		}
		rep.Violate(&core.Violation{Property: "C11", Monitor: "carry-over", Symptom: sym, Features: feat, Case: s.ID, Detail: detail + "\n  layout: " + vec, Files: c.ReplayFiles()})
	}
	conv := map[string]*scen.Iface{}
	for _, it := range s.Converters() {
		conv[it.Name] = it
	}
	// (1) declarations: same sequence, converter interfaces replaced in place by their functions
	var want []string // canonical prints, or "FUNCS:<sorted keys>" blocks
	for _, d := range in.Decls {
		if d.Kind == "import" {
			continue
		}
		if d.IsIface && conv[d.Names[0]] != nil {
			var keys []string
			for _, m := range conv[d.Names[0]].Methods {
				keys = append(keys, FuncKey(m))
			}
			sort.Strings(keys)
			want = append(want, "FUNCS:"+strings.Join(keys, ","))
			continue
		}
		want = append(want, d.Canon)
	}
	inFuncs := map[string]bool{}
	for _, d := range in.Decls {
		if d.Kind == "func" {
			inFuncs[d.Key()] = true
		}
	}
	var got []string
	var block []string
	flush := func() {
		if block != nil {
			sort.Strings(block)
			got = append(got, "FUNCS:"+strings.Join(block, ","))
			block = nil
		}
	}
	expectBlocks := map[string]bool{}
	for _, w := range want {
		if strings.HasPrefix(w, "FUNCS:") {
			expectBlocks[w] = true
		}
	}
	for _, d := range out.Decls {
		if d.Kind == "import" {
			continue
		}
		if d.Kind == "func" && !inFuncs[d.Key()] {
			k := d.Names[0]
			if d.Recv != "" {
				k = d.Recv + "." + k
			}
			block = append(block, k)
			// adjacent converter interfaces produce adjacent blocks: cut when the block equals an expected one
			sorted := append([]string{}, block...)
			sort.Strings(sorted)
			if expectBlocks["FUNCS:"+strings.Join(sorted, ",")] {
				flush()
			}
			continue
		}
		flush()
		got = append(got, d.Canon)
	}
	flush()
	if strings.Join(want, "\n") != strings.Join(got, "\n") {
		// find first difference
		i := 0
		for i < len(want) && i < len(got) && want[i] == got[i] {
			i++
		}
		w, g := "<end>", "<end>"
		if i < len(want) {
			w = want[i]
		}
		if i < len(got) {
			g = got[i]
		}
		sym := "declaration-sequence-differs"
		if len(got) < len(want) {
			sym = "declaration-lost"
		} else if len(got) > len(want) {
			sym = "declaration-added"
		}
		viol(sym, nil, fmt.Sprintf("declaration %d: expected %q, output has %q (%d vs %d declarations)", i, core.Trunc(w, 200), core.Trunc(g, 200), len(want), len(got)))
		return
	}
	// (2) imports
	outImp := map[string]bool{}
	for _, im := range out.Imports {
		outImp[im.Name+" "+im.Path] = true
	}
	inImp := map[string]bool{}
	used := out.UsedPackageNames()
	for _, im := range in.Imports {
		inImp[im.Name+" "+im.Path] = true
		if outImp[im.Name+" "+im.Path] {
			continue
		}
		name := im.Name
		if name == "" {
			name = im.Path[strings.LastIndex(im.Path, "/")+1:]
		}
		if name == "_" || name == "." {
			viol("import-lost", map[string]string{"kind": "blank-or-dot"}, fmt.Sprintf("import %q %q of the setup file is missing in the output", im.Name, im.Path))
			continue
		}
		if used[name] {
			viol("import-lost", map[string]string{"kind": "used"}, fmt.Sprintf("import %q %q is missing in the output although %s.X is used there", im.Name, im.Path, name))
		} else {
			rep.Count("unused_imports_removed", 1)
		}
	}
	for _, im := range out.Imports {
		if inImp[im.Name+" "+im.Path] {
			continue
		}
		name := im.Name
		if name == "" {
			name = im.Path[strings.LastIndex(im.Path, "/")+1:]
		}
		if !used[name] {
			viol("import-added-unused", nil, fmt.Sprintf("output imports %q %q which the setup file does not import and the output does not use", im.Name, im.Path))
		}
	}
	// (3) comments with unique ids
	type ext struct{ lo, hi int }
	var extents []ext
	methodDocIDs := map[string][]string{} // func key -> ids of non-notation doc lines in order
	for _, d := range in.Decls {
		if d.IsIface && conv[d.Names[0]] != nil {
			extents = append(extents, ext{d.StartLine, d.EndLine})
		}
	}
	// ordinary interfaces of the file that a converter interface EMBEDS: their methods are converter methods
	// as well. Their notation lines act as notations (they must not be counted among the foreign
	// notation-looking lines that stay), and their prose lines legitimately occur twice in the output (in the
	// carried-over interface and as the function's doc), so the exactly-once rules below skip them.
	embeddedMethod := map[*scen.Method]bool{}
	embeddedBase := map[string]bool{}
	embeddedDocID := map[string]bool{}
	for _, it := range s.Ifaces {
		if it.Converter {
			continue
		}
		for _, m := range it.Methods {
			for _, cv := range s.Converters() {
				for _, cm := range cv.Methods {
					if cm == m {
						embeddedMethod[m] = true
						embeddedBase[it.Name] = true
					}
				}
			}
		}
	}
	var baseExtents []ext
	for _, d := range in.Decls {
		if d.IsIface && embeddedBase[d.Names[0]] {
			baseExtents = append(baseExtents, ext{d.StartLine, d.EndLine})
		}
	}
	insideBase := func(line int) bool {
		for _, e := range baseExtents {
			if line >= e.lo && line <= e.hi {
				return true
			}
		}
		return false
	}
	for _, it := range s.Converters() {
		for _, m := range it.Methods {
			if embeddedMethod[m] {
				for _, dl := range m.DocLines {
					if id := regexp.MustCompile(`\bc\d{3}\b`).FindString(dl); id != "" {
						embeddedDocID[id] = true
					}
				}
				continue
			}
			for _, dl := range m.DocLines {
				if id := regexp.MustCompile(`\bc\d{3}\b`).FindString(dl); id != "" {
					methodDocIDs[FuncKey(m)] = append(methodDocIDs[FuncKey(m)], id)
				}
			}
		}
	}
	inside := func(line int) bool {
		for _, e := range extents {
			if line >= e.lo && line <= e.hi {
				return true
			}
		}
		return false
	}
	outIDs := out.IDs()
	isMethodDoc := map[string]string{}
	for k, ids := range methodDocIDs {
		for _, id := range ids {
			isMethodDoc[id] = k
		}
	}
	for id, cms := range in.IDs() {
		cm := cms[0]
		oc := outIDs[id]
		if embeddedDocID[id] {
			if len(oc) == 0 {
				viol("comment-lost", map[string]string{"where": "embedded-method-doc"}, fmt.Sprintf("doc line %q of an embedded interface's method appears nowhere in the output", cm.Text))
			}
			continue
		}
		if fk, ok := isMethodDoc[id]; ok {
			if len(oc) != 1 {
				viol("method-doc-line-count", map[string]string{"count": fmt.Sprint(len(oc))}, fmt.Sprintf("doc line %q of method %s appears %d times in the output", cm.Text, fk, len(oc)))
			} else if !oc[0].IsDoc || oc[0].DeclKey != "func:"+fk {
				viol("method-doc-line-misplaced", nil, fmt.Sprintf("doc line %q of method %s is attached to %q (doc=%v) in the output", cm.Text, fk, oc[0].DeclKey, oc[0].IsDoc))
			} else {
				rep.Count("method_doc_lines_forwarded", 1)
			}
			continue
		}
		if inside(cm.Line) {
			if len(oc) > 1 {
				viol("interface-comment-duplicated", nil, fmt.Sprintf("comment %q inside a converter interface appears %d times in the output", cm.Text, len(oc)))
			} else if len(oc) == 1 && oc[0].IsDoc && !strings.HasPrefix(oc[0].DeclKey, "func:") {
				viol("interface-comment-attached-elsewhere", nil, fmt.Sprintf("comment %q from inside a converter interface became doc of %q", cm.Text, oc[0].DeclKey))
			}
			continue
		}
		if len(oc) != 1 {
			sym := "comment-lost"
			if len(oc) > 1 {
				sym = "comment-duplicated"
			}
			where := "floating"
			if cm.IsDoc {
				where = "doc"
			} else if cm.DeclKey != "" {
				where = "inside-decl"
			}
			viol(sym, map[string]string{"where": where}, fmt.Sprintf("comment %q (%s of %q) appears %d times in the output", cm.Text, where, cm.DeclKey, len(oc)))
			continue
		}
		if cm.DeclKey != "" && (oc[0].DeclKey != cm.DeclKey || oc[0].IsDoc != cm.IsDoc) {
			// was a go:generate line removed from between this doc line and its declaration?
			afterGen := "false"
			if d := in.DeclByKey(cm.DeclKey); d != nil && cm.IsDoc {
				srcLines := strings.Split(string(in.Src), "\n")
				for l := cm.Line + 1; l < d.DeclLine && l-1 < len(srcLines); l++ {
					if reGenerate.MatchString(srcLines[l-1]) {
						afterGen = "true"
					}
				}
			}
			viol("comment-reattached", map[string]string{"doc_followed_by_go_generate": afterGen, "now": oc[0].DeclKey}, fmt.Sprintf("comment %q belonged to %q (doc=%v) and now belongs to %q (doc=%v)", cm.Text, cm.DeclKey, cm.IsDoc, oc[0].DeclKey, oc[0].IsDoc))
			continue
		}
		rep.Count("comments_carried_over", 1)
	}
	// the doc comment of a converter interface goes away with it
	for _, d := range in.Decls {
		if !(d.IsIface && conv[d.Names[0]] != nil) {
			continue
		}
		for id, cms := range in.IDs() {
			if cms[0].Line >= d.StartLine && cms[0].Line < d.DeclLine && len(outIDs[id]) > 0 {
				viol("interface-doc-left", nil, fmt.Sprintf("doc comment line %q of converter interface %s is still in the output (attached to %q)", cms[0].Text, d.Names[0], outIDs[id][0].DeclKey))
			}
		}
	}
	// the doc comment of each generated function is exactly the non-notation lines of the method comment
	for _, it := range s.Converters() {
		for _, m := range it.Methods {
			od := out.DeclByKey("func:" + FuncKey(m))
			if od == nil {
				continue
			}
			var wantDoc []string
			if len(m.DocOrder) > 0 {
				for _, o := range m.DocOrder {
					var idx int
					fmt.Sscanf(o[1:], "%d", &idx)
					if o[0] == 'd' && idx < len(m.DocLines) {
						wantDoc = append(wantDoc, c11TrimDoc(m.DocLines[idx]))
					}
				}
			} else {
				for _, dl := range m.DocLines {
					wantDoc = append(wantDoc, c11TrimDoc(dl))
				}
			}
			var gotDoc []string
			for _, dl := range od.DocLines {
				if strings.TrimSpace(dl) == "//" {
					continue // gofmt separates directive lines from prose with an empty comment line
				}
				gotDoc = append(gotDoc, c11TrimDoc(dl))
			}
			if strings.Join(wantDoc, "\n") != strings.Join(gotDoc, "\n") {
				viol("function-doc-differs", map[string]string{"want_lines": fmt.Sprint(len(wantDoc)), "got_lines": fmt.Sprint(len(gotDoc))},
					fmt.Sprintf("doc comment of generated %s is %q, the method's non-notation doc lines are %q", FuncKey(m), gotDoc, wantDoc))
			} else {
				rep.Count("function_docs_exact", 1)
			}
		}
	}
	// method doc order
	for fk, ids := range methodDocIDs {
		var lines []int
		for _, id := range ids {
			if oc := outIDs[id]; len(oc) == 1 {
				lines = append(lines, oc[0].Line)
			}
		}
		if !sort.IntsAreSorted(lines) {
			viol("method-doc-reordered", nil, fmt.Sprintf("doc lines of %s are reordered in the output", fk))
		}
	}
	// (4) directives and notation lines
	// (COMMENT lines of the output: the same text inside a raw string literal is content)
	for _, cm := range out.Comments {
		t := strings.TrimSpace(cm.Text)
		if constraint.IsGoBuild(t) || constraint.IsPlusBuild(t) {
			if strings.Contains(t, "convergen") {
				viol("build-constraint-left", nil, "output still carries "+t)
			}
		}
		if reGenerate.MatchString(t) {
			viol("go-generate-left", nil, "output still carries "+t)
		}
	}
	nNotIn := 0
	for _, cm := range in.Comments {
		if reNotationAny.MatchString(cm.Text) && !inside(cm.Line) && !insideBase(cm.Line) {
			nNotIn++
		}
	}
	nNotOut := 0
	for _, cm := range out.Comments {
		if reNotationAny.MatchString(cm.Text) {
			nNotOut++
		}
	}
	if nNotOut > nNotIn {
		viol("notation-line-left", nil, fmt.Sprintf("output has %d notation-looking comment lines, the setup file has %d outside converter interfaces", nNotOut, nNotIn))
	} else if nNotOut < nNotIn {
		viol("foreign-notation-line-lost", nil, fmt.Sprintf("output has %d notation-looking comment lines, the setup file has %d outside converter interfaces (they belong to other declarations and must stay)", nNotOut, nNotIn))
	}
	// package doc
	if strings.Join(in.PkgDoc, "\n") != strings.Join(out.PkgDoc, "\n") {
		// the header "// Code generated ..." is put in front of the file, detached from the package clause
		viol("package-doc-changed", nil, fmt.Sprintf("package doc comment: input %q, output %q", in.PkgDoc, out.PkgDoc))
	}
	rep.Count("files_compared", 1)
	rep.Distinct(vec)
}

// RunC11 is the check for C11.
func RunC11(e *core.Env) int {
	rep := core.NewReport(e, "exploration",
		"layout profile with content around the interfaces: imports (grouped, aliased, blank, with comments, used and unused), consts/vars/types/funcs/methods/grouped declarations before, between and after 1-3 converter interfaces, unmarked interfaces with notation-looking comments, "+
			"doc/trailing/floating/block comments in every slot each with a unique id, four build-constraint spellings, go:generate forms, package doc comments (incl. notation-looking lines), method docs mixing prose and notations. "+
			"Oracle over the parsed input and output: (1) same sequence of canonical declarations with each converter interface replaced in place by exactly its functions; (2) imports kept unless unused; (3) every comment id outside converter interfaces exactly once and attached to the same declaration, "+
			"non-notation method doc lines exactly once, in order, as the function's doc; (4) no convergen build constraint, go:generate or converter notation line left, foreign notation-looking lines kept, package doc unchanged. distinct non-trivial = distinct layout vectors of accepted files")
	n := 600
	if e.Tier == "thorough" {
		n = 10000
	}
	if cb, err := NewBatch(e, "corpus", corpusC11()); err == nil {
		cb.RunTool(e, true)
		for _, c := range cb.Cases {
			judgeC11(rep, c)
		}
	}
	runBroadBatches(e, rep, "carry", n, 300, func(c *CaseResult) {
		judgeC11(rep, c)
		if c.Run.Exit == 0 {
			rep.Sample(map[string]any{"case": c.S.ID, "setup": core.Trunc(c.S.Files[c.S.Setup], 1500), "output": core.Trunc(string(c.Out), 1500)}, 1)
		}
	})
	return rep.Finish()
}

// corpusC11 holds fixed layouts, among them the witness of KF-C11-doc-detached-by-go-generate.
func corpusC11() []*scen.Scenario {
	setup := "//go:build convergen\n\npackage sc\n\n// c001 doc of T\n//go:generate echo hello\ntype T struct{ Z int }\n\ntype A struct{ X int }\n\ntype B struct{ X int }\n\n" +
		"// c002 iface doc\ntype Convergen interface {\n\t// c003 method doc\n\t// :typecast\n\tConv(*A) *B\n}\n\n// c004 doc of V\nvar V = 1\n"
	s := &scen.Scenario{ID: "kw-c11-generate", PkgRel: "kwc11a", PkgName: "sc", InConv: true, Files: map[string]string{}}
	s.Setup = s.PkgRel + "/setup.go"
	s.Files[s.Setup] = setup
	s.Files[s.PkgRel+"/types.go"] = "package sc\n"
	m := &scen.Method{Name: "Conv", Src: scen.Param{Type: "*A"}, Dst: scen.Param{Type: "*B"}, Notations: []scen.Notation{scen.N("typecast")}, DocLines: []string{"// c003 method doc"}}
	s.Ifaces = []*scen.Iface{{Name: "Convergen", Converter: true, Methods: []*scen.Method{m}}}
	s.Feature("layout.vector", "corpus-doc-with-go-generate")
	mk := func(id, rel, vec, text string) *scen.Scenario {
		t := &scen.Scenario{ID: id, PkgRel: rel, PkgName: "sc", InConv: true, Files: map[string]string{}}
		t.Setup = t.PkgRel + "/setup.go"
		t.Files[t.Setup] = text
		t.Files[t.PkgRel+"/types.go"] = "package sc\n"
		tm := &scen.Method{Name: "Conv", Src: scen.Param{Type: "*A"}, Dst: scen.Param{Type: "*B"}, DocLines: []string{"// c003 method doc"}}
		t.Ifaces = []*scen.Iface{{Name: "Convergen", Converter: true, Methods: []*scen.Method{tm}}}
		t.Feature("layout.vector", vec)
		return t
	}
	// repaired in 141f041: the trailing comment of the converter's closing brace was found by comparing line
	// numbers ADJUSTED by //line directives; a directive further down gives later lines the same numbers, and
	// the trailing comments of unrelated declarations there were deleted along with it
	coll := "//go:build convergen\n\npackage sc\n\ntype A struct{ X int }\n\ntype B struct{ X int }\n\n" +
		"// c002 iface doc\ntype Convergen interface {\n\t// c003 method doc\n\tConv(*A) *B\n} // c004 closing brace\n\n// c005 doc of V\nvar V = 1\n\n//line setup.go:5\n\n"
	for i := 0; i < 12; i++ {
		coll += fmt.Sprintf("var W%d = %d // c%03d trailing of W%d\n", i, i, 10+i, i)
	}
	// a file rendered from a template: //line directive in front of the package clause (same file name, shifted
	// numbers), a comment on the closing-brace line, the next declaration's doc comment right below
	tmpl := "//go:build convergen\n\n//line setup.go:40\n\npackage sc\n\ntype A struct{ X int }\n\ntype B struct{ X int }\n\n" +
		"// c002 iface doc\ntype Convergen interface {\n\t// c003 method doc\n\tConv(*A) *B\n} // c004 closing brace\n// c005 doc of Describe\nfunc Describe() string { return \"x\" }\n"
	return []*scen.Scenario{s, mk("kw-c11-line-collision", "kwc11b", "corpus-line-directive-collision", coll), mk("kw-c11-line-template", "kwc11c", "corpus-line-directive-template", tmpl)}
}

// c11TrimDoc strips the indentation of every line of a comment: gofmt re-indents the lines inside
// a general comment with the declaration they stand on, the text of the lines is what is carried.
func c11TrimDoc(c string) string {
	ls := strings.Split(c, "\n")
	for i := range ls {
		ls[i] = strings.TrimSpace(ls[i])
	}
	return strings.Join(ls, "\n")
}
