package checks

import (
	"fmt"
	"strings"

	"vh/core"
	"vh/execmon"
	"vh/outmon"
	"vh/scen"
)

func init() { Registry["C07"] = RunC07 }

func siteKind(fi *FuncInfo, site string) string {
	switch {
	case site == fi.Method.PreSite:
		return "pre-hook"
	case site == fi.Method.PostSite:
		return "post-hook"
	case strings.HasPrefix(site, "cv") || strings.HasPrefix(site, "ext.Conv"):
		return "converter"
	}
	return "getter"
}

func hasSite(list []string, s string) bool {
	base := func(x string) string { return x[strings.LastIndex(x, ".")+1:] }
	for _, x := range list {
		if x == s || (strings.Contains(s, ".") && strings.Contains(x, ".") && base(x) == base(s)) {
			return true
		}
	}
	return false
}

// exprCallsErrSite reports error-capable callbacks reached by an expression.
func exprCallsErrSite(e *outmon.Expr, fi *FuncInfo) []string {
	var r []string
	for x := e; x != nil; x = x.X {
		switch x.Op {
		case "call":
			if hasSite(fi.Method.ErrSites, x.Name) {
				r = append(r, x.Name)
			}
		case "method":
			for _, s := range fi.Method.ErrSites {
				if strings.HasSuffix(s, "."+x.Name) {
					r = append(r, s)
				}
			}
		}
	}
	return r
}

// judgeC07Static checks the text of one generated function.
func judgeC07Static(rep *core.Report, fi *FuncInfo) {
	c := fi.Case
	for i := range fi.Plan.Items {
		it := &fi.Plan.Items[i]
		var sites []string
		if it.Kind == "assign" && it.RHS != nil {
			sites = exprCallsErrSite(it.RHS, fi)
		}
		if it.Kind == "hook" && hasSite(fi.Method.ErrSites, it.HookFunc) {
			sites = append(sites, it.HookFunc)
		}
		if len(sites) == 0 {
			continue
		}
		rep.Count("static_err_sites_seen", 1)
		if !fi.Method.HasErr {
			rep.Violate(&core.Violation{Property: "C07", Monitor: "static", Symptom: "err-callback-in-noerr-function", Features: map[string]string{"site_kind": siteKind(fi, sites[0])}, Case: c.S.ID,
				Detail: fmt.Sprintf("%s has no error result but calls error-capable %v: %s", fi.Plan.Key(), sites, it.Text), Files: c.ReplayFiles()})
			continue
		}
		if !it.WithErr || !it.ErrChecked {
			rep.Violate(&core.Violation{Property: "C07", Monitor: "static", Symptom: "err-not-checked", Features: map[string]string{"site_kind": siteKind(fi, sites[0]), "nested": fmt.Sprint(len(it.Path) > 1)}, Case: c.S.ID,
				Detail: fmt.Sprintf("%s: error of %v is not assigned/checked right after the call: %s", fi.Plan.Key(), sites, it.Text), Files: c.ReplayFiles()})
		}
	}
}

// judgeC07 applies the fault-enumeration oracle to the records of one function.
func judgeC07(rep *core.Report, fi *FuncInfo, recs []*execmon.Rec) {
	c := fi.Case
	mf := methodFeatures(fi)
	ref := map[string]*execmon.Rec{}
	for _, r := range recs {
		if r.Fail == "" {
			ref[r.Val] = r
		}
	}
	seen := map[string]bool{}
	report := func(v *core.Violation, r *execmon.Rec) {
		if seen[v.Fingerprint()] {
			return
		}
		seen[v.Fingerprint()] = true
		v.Files = recFiles(c, r)
		rep.Violate(v)
	}
	for _, r := range recs {
		if strings.HasPrefix(r.SigErr, "driver runtime panic") {
			rep.Inconclusive("oracle panic: " + r.Scen + "/" + r.Fn + ": " + r.SigErr)
			continue
		}
		if r.SigErr != "" || !fi.Method.HasErr {
			continue
		}
		rep.Eval(1)
		if r.Panic != "" {
			continue // C02's business
		}
		if r.Fail == "" {
			// no fault: nil error
			if r.Err != "nil" {
				report(&core.Violation{Property: "C07", Monitor: "exec", Symptom: "error-without-fault", Features: mf, Case: c.S.ID,
					Detail: fmt.Sprintf("%s(%s) returned %s although no callback failed; trace=%v", r.Fn, r.Val, r.Err, r.Trace)}, r)
			} else if len(r.Trace) > 0 {
				rep.Count("nofault_runs_with_callbacks", 1)
			}
			continue
		}
		rr := ref[r.Val]
		if rr == nil || rr.Panic != "" {
			continue
		}
		if !hasSite(r.Failed, r.Fail) {
			rep.Count("fault_not_reached", 1)
			continue
		}
		rep.Count("faults_injected", 1)
		// expected prefix: reference trace up to and including the nth occurrence of the failing site
		n := 0
		cut := -1
		for i, s := range rr.Trace {
			if s == r.Fail {
				n++
				if n == r.FailNth {
					cut = i
					break
				}
			}
		}
		pos := "middle"
		if cut == 0 {
			pos = "first"
		} else if cut == len(rr.Trace)-1 {
			pos = "last"
		}
		feat := map[string]string{"site_kind": siteKind(fi, r.Fail), "position": pos}
		for k, v := range mf {
			feat[k] = v
		}
		if r.Err != "injected:"+r.Fail {
			report(&core.Violation{Property: "C07", Monitor: "exec", Symptom: "error-not-returned", Features: feat, Case: c.S.ID,
				Detail: fmt.Sprintf("%s(%s): %s (occurrence %d) returned its error object but the function returned %s; trace=%v", r.Fn, r.Val, r.Fail, r.FailNth, r.Err, r.Trace)}, r)
			continue
		}
		if cut < 0 || len(r.Trace) != cut+1 || strings.Join(r.Trace, ",") != strings.Join(rr.Trace[:cut+1], ",") {
			report(&core.Violation{Property: "C07", Monitor: "exec", Symptom: "callbacks-after-failure", Features: feat, Case: c.S.ID,
				Detail: fmt.Sprintf("%s(%s): after %s failed the trace is %v; the fault-free trace is %v (expected exactly its prefix up to the failure)", r.Fn, r.Val, r.Fail, r.Trace, rr.Trace)}, r)
			continue
		}
		rep.Distinct(fmt.Sprintf("%s|%s|%s|%s|%s", siteKind(fi, r.Fail), pos, mf["style"], mf["dst_ptr"], mf["recv"]))
		rep.Histo("fault_site_kind", siteKind(fi, r.Fail))
		rep.Histo("fault_position", pos)
	}
}

// RunC07 is the check for C07.
func RunC07(e *core.Env) int {
	rep := core.NewReport(e, "fault_enumeration",
		"error-heavy random scenarios (converters with error on top-level and nested paths, error-returning :map getters, pre/post hooks with error, all styles); every generated function with an error result is executed once "+
			"without fault per valuation (reference trace) and once per error-capable call site that ran (first and second occurrence) with that site returning its unique error object; oracle: returned error IS that object and the "+
			"trace equals the reference prefix up to the failure; static part on every output: no error-capable callback in a function without error result, every such call assigned to err and checked immediately. "+
			"distinct non-trivial = (site kind, position first/middle/last, style, dst pointer-ness, recv) with the fault actually injected and observed")
	rep.Assume("instrumented callbacks fail only when the fault plan says so and return one unique error object per site")
	n, k := 300, 1
	if e.Tier == "thorough" {
		n, k = 3000, 3
	}
	runExecBatchesC(e, rep, "errs", n, 150, execmon.Job{NRandom: k, Faults: true}, corpusC07(), func(b *Batch, eo *ExecOut) {
		// corpus cases: rejected = fine; accepted = judged like everything else (statically and dynamically)
		for _, c := range b.Cases {
			if !strings.HasPrefix(c.S.ID, "kc07") {
				continue
			}
			rep.Eval(1)
			switch {
			case c.Run.Crashed():
				rep.Violate(&core.Violation{Property: "C07", Monitor: "static", Symptom: "crash", Case: c.S.ID, Detail: core.Trunc(c.Run.Stderr, 400), Files: c.ReplayFiles()})
			case c.Run.Exit != 0:
				rep.Count("unfit_error_callback_rejected", 1)
				rep.Distinct("rejected|" + c.S.ID)
			default:
				rep.Count("unfit_error_callback_accepted_and_judged", 1)
			}
		}
		for id, infos := range eo.Infos {
			for key, fi := range infos {
				judgeC07Static(rep, fi)
				judgeC07(rep, fi, eo.Recs[id+"/"+key])
			}
		}
		// the static part also covers outputs that could not be executed (e.g. because they do not compile)
		for _, c := range b.Cases {
			if c.Run.Exit == 0 && c.Plans != nil && !Runnable(c) {
				_, infos := PrepareUnit(c)
				for _, fi := range infos {
					judgeC07Static(rep, fi)
				}
			}
		}
		for _, r := range eo.Result.Recs {
			if r.Fail != "" && len(r.Failed) > 0 {
				rep.Sample(map[string]any{"scenario": r.Scen, "function": r.Fn, "valuation": r.Val, "failing_site": r.Fail, "occurrence": r.FailNth, "returned": r.Err, "trace": r.Trace}, 3)
			}
		}
	})
	// static part also over not-runnable outputs is covered by C01 (they do not compile)
	return rep.Finish()
}

// corpusC07 holds one scenario per kind of error-capable callback wired into a method WITHOUT error
// result; each must be rejected (or, if accepted, is judged by the static monitor).
func corpusC07() []*scen.Scenario {
	var out []*scen.Scenario
	mk := func(id string, notations []scen.Notation, extras []scen.Param, errSites []string, post string) {
		b := scen.NewBuilder(nil, scen.Profile{}, id, id)
		a := b.Struct("", "A", "X int", "gY int")
		a.Methods = append(a.Methods, "func (r A) GetY() (int, error) {\n\tvtr.Enter(\"A.GetY\")\n\tif vtr.Fail(\"A.GetY\") {\n\t\treturn 0, vtr.ErrOf(\"A.GetY\")\n\t}\n\treturn r.gY, nil\n}\n")
		b.Struct("", "B", "X int", "Y int")
		ax := b.Struct("", "AX", "gDeep int")
		ax.Methods = append(ax.Methods, "func (r AX) Deep() (int, error) {\n\tvtr.Enter(\"AX.Deep\")\n\tif vtr.Fail(\"AX.Deep\") {\n\t\treturn 0, vtr.ErrOf(\"AX.Deep\")\n\t}\n\treturn r.gDeep, nil\n}\n")
		b.Func("func cvE(v int) (int, error) {\n\tvtr.Enter(\"cvE\", v)\n\tif vtr.Fail(\"cvE\") {\n\t\treturn 0, vtr.ErrOf(\"cvE\")\n\t}\n\treturn v + 1, nil\n}\n", true, "cvE")
		b.Func("func postE(d *B, s *A) error {\n\tvtr.Enter(\"postE\", d, s)\n\tif vtr.Fail(\"postE\") {\n\t\treturn vtr.ErrOf(\"postE\")\n\t}\n\treturn nil\n}\n", true, "postE")
		m := &scen.Method{Name: "NoErr", Src: scen.Param{Type: "*A"}, Dst: scen.Param{Type: "*B"}, Notations: notations, Extras: extras, ErrSites: errSites, PostSite: post}
		s := b.Manual(m)
		s.InConv = false
		out = append(out, s)
	}
	mk("kc07conv", []scen.Notation{scen.N("conv", "cvE", "X", "Y")}, nil, []string{"cvE"}, "")
	mk("kc07getter", []scen.Notation{scen.N("map", "GetY()", "Y")}, nil, []string{"A.GetY"}, "")
	mk("kc07arggetter", []scen.Notation{scen.N("map", "$2.Deep()", "Y")}, []scen.Param{{Type: "AX"}}, []string{"AX.Deep"}, "")
	mk("kc07argstyle", []scen.Notation{scen.N("style", "arg"), scen.N("map", "$2.Deep()", "Y")}, []scen.Param{{Type: "AX"}}, []string{"AX.Deep"}, "")
	mk("kc07hook", []scen.Notation{scen.N("postprocess", "postE")}, nil, []string{"postE"}, "postE")
	// the same error-returning hook on two methods with identical operand types, the one WITH an error
	// result sorting first: the second must still be rejected
	{
		b := scen.NewBuilder(nil, scen.Profile{}, "kc07hooktwice", "kc07hooktwice")
		b.Struct("", "A", "X int")
		b.Struct("", "B", "X int")
		b.Func("func postE(d *B, s *A) error {\n\tvtr.Enter(\"postE\", d, s)\n\tif vtr.Fail(\"postE\") {\n\t\treturn vtr.ErrOf(\"postE\")\n\t}\n\treturn nil\n}\n", true, "postE")
		m1 := &scen.Method{Name: "AConv", Src: scen.Param{Type: "*A"}, Dst: scen.Param{Type: "*B"}, HasErr: true, Notations: []scen.Notation{scen.N("postprocess", "postE")}, ErrSites: []string{"postE"}, PostSite: "postE"}
		m2 := &scen.Method{Name: "BConv", Src: scen.Param{Type: "*A"}, Dst: scen.Param{Type: "*B"}, Notations: []scen.Notation{scen.N("postprocess", "postE")}, ErrSites: []string{"postE"}, PostSite: "postE"}
		s := b.Manual(m1, m2)
		s.InConv = false
		out = append(out, s)
	}
	// a converter that is itself GENERATED in the same run and has an error result, used by a method
	// without one (its error-ness comes from its own signature, not from the method that uses it)
	for _, names := range [][2]string{{"AOuter", "ZInner"}, {"ZOuter", "AInner"}} {
		id := "kc07gen" + strings.ToLower(names[0][:1])
		b := scen.NewBuilder(nil, scen.Profile{}, id, id)
		b.Struct("", "SI", "V int")
		b.Struct("", "DI", "V int")
		b.Struct("", "A", "X int", "In SI")
		b.Struct("", "B", "X int", "In DI")
		b.Func("func cvE(v int) (int, error) {\n\tvtr.Enter(\"cvE\", v)\n\tif vtr.Fail(\"cvE\") {\n\t\treturn 0, vtr.ErrOf(\"cvE\")\n\t}\n\treturn v + 1, nil\n}\n", true, "cvE")
		inner := &scen.Method{Name: names[1], Src: scen.Param{Type: "SI"}, Dst: scen.Param{Type: "DI"}, HasErr: true, Notations: []scen.Notation{scen.N("conv", "cvE", "V", "V")}, ErrSites: []string{"cvE"}}
		outer := &scen.Method{Name: names[0], Src: scen.Param{Type: "*A"}, Dst: scen.Param{Type: "*B"}, Notations: []scen.Notation{scen.N("conv", names[1], "In", "In")}, ErrSites: []string{names[1], "cvE"}}
		s := b.Manual(outer, inner)
		s.RegFuncs = append(s.RegFuncs, names[1])
		s.InConv = false
		out = append(out, s)
	}
	// an error-returning converter whose RESULT reaches the field only through a conversion (:typecast)
	// or String() (:stringer), in a method without error result: the wrapping must not hide the error
	for _, k := range []string{"cast", "str", "castptr"} {
		id := "kc07wrap" + k
		b := scen.NewBuilder(nil, scen.Profile{}, id, id)
		b.Struct("", "A", "X int", "V int")
		switch k {
		case "cast":
			b.Struct("", "B", "X int", "V int64")
			b.Func("func cvE(v int) (int32, error) {\n\tvtr.Enter(\"cvE\", v)\n\tif vtr.Fail(\"cvE\") {\n\t\treturn 0, vtr.ErrOf(\"cvE\")\n\t}\n\treturn int32(v + 1), nil\n}\n", true, "cvE")
		case "castptr":
			b.Struct("", "B", "X int", "V MyInt")
			b.Func("type MyInt int\n", false, "")
			b.Func("func cvE(v *int) (int, error) {\n\tvtr.Enter(\"cvE\", *v)\n\tif vtr.Fail(\"cvE\") {\n\t\treturn 0, vtr.ErrOf(\"cvE\")\n\t}\n\treturn *v + 1, nil\n}\n", true, "cvE")
		case "str":
			b.Struct("", "B", "X int", "V string")
			b.Func("type St struct{ N int }\n\nfunc (s St) String() string { return \"st\" }\n", false, "")
			b.Func("func cvE(v int) (St, error) {\n\tvtr.Enter(\"cvE\", v)\n\tif vtr.Fail(\"cvE\") {\n\t\treturn St{}, vtr.ErrOf(\"cvE\")\n\t}\n\treturn St{v}, nil\n}\n", true, "cvE")
		}
		opt := "typecast"
		if k == "str" {
			opt = "stringer"
		}
		m := &scen.Method{Name: "Wrap", Src: scen.Param{Type: "*A"}, Dst: scen.Param{Type: "*B"}, Notations: []scen.Notation{scen.N(opt), scen.N("conv", "cvE", "V", "V")}, ErrSites: []string{"cvE"}}
		s := b.Manual(m)
		s.InConv = false
		out = append(out, s)
	}
	// callbacks whose "error" result is a CONCRETE pointer type implementing error: wiring them through an
	// `err error` variable would turn a typed nil into a non-nil error. They must be rejected, or - if a
	// future version accepts them - return a nil error when nothing fails (judged dynamically below).
	mkTyped := func(id string, notations []scen.Notation, funcs []string, reg []string, errSites []string, post string) {
		b := scen.NewBuilder(nil, scen.Profile{}, id, id)
		a := b.Struct("", "A", "X int", "gY int")
		a.Methods = append(a.Methods, "func (r A) GetY() (int, *vtr.Err) {\n\tvtr.Enter(\"A.GetY\")\n\tif vtr.Fail(\"A.GetY\") {\n\t\treturn 0, vtr.ErrOf(\"A.GetY\").(*vtr.Err)\n\t}\n\treturn r.gY, nil\n}\n")
		b.Struct("", "B", "X int", "Y int")
		for i, f := range funcs {
			b.Func(f, true, reg[i])
		}
		m := &scen.Method{Name: "Typed", Src: scen.Param{Type: "*A"}, Dst: scen.Param{Type: "*B"}, HasErr: true, Notations: notations, ErrSites: errSites, PostSite: post}
		s := b.Manual(m)
		s.InConv = false
		out = append(out, s)
	}
	cvT := "func cvT(v int) (int, *vtr.Err) {\n\tvtr.Enter(\"cvT\", v)\n\tif vtr.Fail(\"cvT\") {\n\t\treturn 0, vtr.ErrOf(\"cvT\").(*vtr.Err)\n\t}\n\treturn v + 1, nil\n}\n"
	postT := "func postT(d *B, s *A) *vtr.Err {\n\tvtr.Enter(\"postT\", d, s)\n\tif vtr.Fail(\"postT\") {\n\t\treturn vtr.ErrOf(\"postT\").(*vtr.Err)\n\t}\n\treturn nil\n}\n"
	mkTyped("kc07typedconv", []scen.Notation{scen.N("conv", "cvT", "X", "Y")}, []string{cvT}, []string{"cvT"}, []string{"cvT"}, "")
	mkTyped("kc07typedgetter", []scen.Notation{scen.N("map", "GetY()", "Y")}, nil, nil, []string{"A.GetY"}, "")
	mkTyped("kc07typedhook", []scen.Notation{scen.N("postprocess", "postT")}, []string{postT}, []string{"postT"}, []string{"postT"}, "postT")
	// a method WITHOUT error result that carries BOTH hooks, only one of which returns an error (each hook is
	// checked against the method, not just the first one)
	for _, k := range []string{"posterr", "preerr"} {
		id := "kc07twohooks" + k
		b := scen.NewBuilder(nil, scen.Profile{}, id, id)
		b.Struct("", "A", "X int")
		b.Struct("", "B", "X int")
		quiet := "func hookQ(d *B, s *A) {\n\tvtr.Enter(\"hookQ\", d, s)\n}\n"
		loud := "func hookE(d *B, s *A) error {\n\tvtr.Enter(\"hookE\", d, s)\n\tif vtr.Fail(\"hookE\") {\n\t\treturn vtr.ErrOf(\"hookE\")\n\t}\n\treturn nil\n}\n"
		b.Func(quiet, true, "hookQ")
		b.Func(loud, true, "hookE")
		m := &scen.Method{Name: "TwoHooks", Src: scen.Param{Type: "*A"}, Dst: scen.Param{Type: "*B"}, ErrSites: []string{"hookE"}}
		if k == "posterr" {
			m.Notations = []scen.Notation{scen.N("preprocess", "hookQ"), scen.N("postprocess", "hookE")}
			m.PreSite, m.PostSite = "hookQ", "hookE"
		} else {
			m.Notations = []scen.Notation{scen.N("preprocess", "hookE"), scen.N("postprocess", "hookQ")}
			m.PreSite, m.PostSite = "hookE", "hookQ"
		}
		s := b.Manual(m)
		s.InConv = false
		out = append(out, s)
	}
	// an error-returning converter that takes its argument BY ADDRESS (func(*T) (U, error), source field of type T),
	// in a method without error result
	{
		b := scen.NewBuilder(nil, scen.Profile{}, "kc07addrconv", "kc07addrconv")
		b.Struct("", "A", "X int", "Raw int")
		b.Struct("", "B", "X int", "When int64")
		b.Func("func cvPE(p *int) (int64, error) {\n\tvtr.Enter(\"cvPE\", *p)\n\tif vtr.Fail(\"cvPE\") {\n\t\treturn 0, vtr.ErrOf(\"cvPE\")\n\t}\n\treturn int64(*p), nil\n}\n", true, "cvPE")
		m := &scen.Method{Name: "AddrConv", Src: scen.Param{Type: "*A"}, Dst: scen.Param{Type: "*B"}, Notations: []scen.Notation{scen.N("conv", "cvPE", "Raw", "When")}, ErrSites: []string{"cvPE"}}
		s := b.Manual(m)
		s.InConv = false
		out = append(out, s)
	}
	// :getter name matching must not pick a getter that returns (T, error) in a method without error result
	{
		b := scen.NewBuilder(nil, scen.Profile{}, "kc07namegetter", "kc07namegetter")
		a := b.Struct("", "A", "X int", "gid int")
		a.Methods = append(a.Methods, "func (r *A) ID() (int, error) {\n\tvtr.Enter(\"A.ID\")\n\tif vtr.Fail(\"A.ID\") {\n\t\treturn 0, vtr.ErrOf(\"A.ID\")\n\t}\n\treturn r.gid, nil\n}\n")
		b.Struct("", "B", "X int", "ID int")
		m := &scen.Method{Name: "NameGetter", Src: scen.Param{Type: "*A"}, Dst: scen.Param{Type: "*B"}, Notations: []scen.Notation{scen.N("getter")}, ErrSites: []string{"A.ID"}}
		s := b.Manual(m)
		s.InConv = false
		out = append(out, s)
	}
	// a blank import in front of an ordinary import of a same-named package: the hook's error-ness is that of
	// the package the generated file binds the name to
	for _, s := range corpusImportedFuncs("kc07") {
		if strings.HasSuffix(s.ID, "blankfirst") {
			out = append(out, s)
		}
	}
	return out
}
