package checks

// c19ProbeSrc is the in-process matcher probe (engine E7 "optprobe"). It is written into a
// scratch module (module optprobe, replace github.com/reedom/convergen => <repo>) at run
// time, built with -tags verif and fed JSON lines on stdin:
//
//	{"op":"paths","name":"S3","paths":[...]}                     define a named path list
//	{"op":"case","id":7,"kind":"pattern","pattern":"/a.b/","exact_ctor":true,
//	 "queries":[{"path":"x","exact":false},...]}                  explicit query sequence on ONE matcher
//	{"op":"case","id":8,"kind":"pattern","pattern":"ab","exact_ctor":false,
//	 "pathset":"S3","exact":false}                                every path of the list, same case rule
//
// kinds: pattern (NewPatternMatcher + Match), skip (Options.ShouldSkip over pattern+more),
// ident (NewIdentMatcher + Match), cmpname (Options.CompareFieldName(pattern, path)),
// conv (NewFieldConverter(_, pattern, pattern2).Match(path, path2)),
// namematch (NewNameMatcher(pattern, pattern2).Match(path, path2, exact)),
// literal (NewLiteralSetter(pattern, _).Match(path, exact)).
//
// One JSON line per case comes back: {"id":7,"ctor_err":"..","ctor_panic":"..","ans":"01P..",
// "panics":{"2":"text"}}; ans has one character per query: 0 false, 1 true, P panicked.
const c19ProbeSrc = `// Code written by the C19 check of the verification harness; do not edit.
package main

import (
	"bufio"
	"encoding/json"
	"fmt"
	"io"
	"os"
	"strconv"

	"github.com/reedom/convergen/pkg/option"
)

type query struct {
	Path  string ` + "`json:\"path\"`" + `
	Path2 string ` + "`json:\"path2,omitempty\"`" + `
	Exact bool   ` + "`json:\"exact\"`" + `
}

type input struct {
	Op        string   ` + "`json:\"op\"`" + `
	Name      string   ` + "`json:\"name,omitempty\"`" + `
	Paths     []string ` + "`json:\"paths,omitempty\"`" + `
	ID        int      ` + "`json:\"id\"`" + `
	Kind      string   ` + "`json:\"kind\"`" + `
	Pattern   string   ` + "`json:\"pattern\"`" + `
	Pattern2  string   ` + "`json:\"pattern2,omitempty\"`" + `
	More      []string ` + "`json:\"more,omitempty\"`" + `
	ExactCtor bool     ` + "`json:\"exact_ctor\"`" + `
	PathSet   string   ` + "`json:\"pathset,omitempty\"`" + `
	Exact     bool     ` + "`json:\"exact\"`" + `
	Queries   []query  ` + "`json:\"queries,omitempty\"`" + `
}

type output struct {
	ID        int               ` + "`json:\"id\"`" + `
	CtorErr   string            ` + "`json:\"ctor_err,omitempty\"`" + `
	CtorPanic string            ` + "`json:\"ctor_panic,omitempty\"`" + `
	Ans       string            ` + "`json:\"ans\"`" + `
	Panics    map[string]string ` + "`json:\"panics,omitempty\"`" + `
}

func guard(f func() bool) (r bool, p string) {
	defer func() {
		if x := recover(); x != nil {
			p = fmt.Sprint(x)
			if p == "" {
				p = "panic"
			}
		}
	}()
	return f(), ""
}

// build constructs the object under test and returns the query function.
func build(c *input) (match func(q *query) bool, ctorErr string) {
	switch c.Kind {
	case "pattern":
		m, err := option.NewPatternMatcher(c.Pattern, c.ExactCtor)
		if err != nil {
			return nil, "error: " + err.Error()
		}
		return func(q *query) bool { return m.Match(q.Path, q.Exact) }, ""
	case "skip":
		opts := option.NewOptions()
		for _, p := range append([]string{c.Pattern}, c.More...) {
			m, err := option.NewPatternMatcher(p, c.ExactCtor)
			if err != nil {
				return nil, "error: " + err.Error()
			}
			opts.SkipFields = append(opts.SkipFields, m)
		}
		return func(q *query) bool {
			o := opts
			o.ExactCase = q.Exact
			return o.ShouldSkip(q.Path)
		}, ""
	case "ident":
		m := option.NewIdentMatcher(c.Pattern)
		return func(q *query) bool { return m.Match(q.Path, q.Exact) }, ""
	case "cmpname":
		opts := option.NewOptions()
		return func(q *query) bool {
			o := opts
			o.ExactCase = q.Exact
			return o.CompareFieldName(c.Pattern, q.Path)
		}, ""
	case "conv":
		fc := option.NewFieldConverter("f", c.Pattern, c.Pattern2, 0)
		return func(q *query) bool { return fc.Match(q.Path, q.Path2) }, ""
	case "namematch":
		nm := option.NewNameMatcher(c.Pattern, c.Pattern2, 0)
		return func(q *query) bool { return nm.Match(q.Path, q.Path2, q.Exact) }, ""
	case "literal":
		ls := option.NewLiteralSetter(c.Pattern, "1", 0)
		return func(q *query) bool { return ls.Match(q.Path, q.Exact) }, ""
	}
	return nil, "error: unknown kind " + c.Kind
}

func main() {
	rd := bufio.NewReaderSize(os.Stdin, 1<<20)
	wr := bufio.NewWriterSize(os.Stdout, 1<<20)
	defer wr.Flush()
	enc := json.NewEncoder(wr)
	sets := map[string][]string{}
	n := 0
	for {
		line, err := rd.ReadBytes('\n')
		if len(line) > 1 {
			var c input
			if e := json.Unmarshal(line, &c); e != nil {
				fmt.Fprintln(os.Stderr, "optprobe: bad input line:", e)
				wr.Flush()
				os.Exit(3)
			}
			switch c.Op {
			case "paths":
				sets[c.Name] = c.Paths
			default:
				res := output{ID: c.ID}
				var match func(q *query) bool
				_, p := guard(func() bool {
					match, res.CtorErr = build(&c)
					return true
				})
				res.CtorPanic = p
				if match != nil && p == "" {
					var ans []byte
					ask := func(i int, q *query) {
						r, p := guard(func() bool { return match(q) })
						switch {
						case p != "":
							ans = append(ans, 'P')
							if res.Panics == nil {
								res.Panics = map[string]string{}
							}
							if len(res.Panics) < 4 {
								res.Panics[strconv.Itoa(i)] = p
							}
						case r:
							ans = append(ans, '1')
						default:
							ans = append(ans, '0')
						}
					}
					if c.PathSet != "" {
						q := query{Exact: c.Exact}
						for i, s := range sets[c.PathSet] {
							q.Path = s
							ask(i, &q)
						}
					} else {
						for i := range c.Queries {
							ask(i, &c.Queries[i])
						}
					}
					res.Ans = string(ans)
				}
				_ = enc.Encode(&res)
				n++
				if n%512 == 0 {
					wr.Flush()
				}
			}
		}
		if err != nil {
			if err != io.EOF {
				fmt.Fprintln(os.Stderr, "optprobe: read error:", err)
				wr.Flush()
				os.Exit(3)
			}
			return
		}
	}
}
`
