package checks

import (
	"fmt"
	"strings"

	"vh/core"
	"vh/outmon"
	"vh/refmodel"
	"vh/scen"
)

func init() { Registry["C04"] = RunC04 }

func togglesOf(o scen.Opts) string {
	var t []string
	if o.Getter {
		t = append(t, "getter")
	}
	if o.Stringer {
		t = append(t, "stringer")
	}
	if o.Typecast {
		t = append(t, "typecast")
	}
	if !o.Case {
		t = append(t, "nocase")
	}
	if o.Match != "name" {
		t = append(t, "match-"+o.Match)
	}
	return strings.Join(t, "+")
}

// srcTypeOfProbe returns a kind label for the source side of a destination path.
func probeFeat(m *scen.Method, path string) (mech, dk, sk, extra string) {
	if pr := MechOf(m, path); pr != nil {
		return pr.Mech, scen.KindOf(pr.DstT), scen.KindOf(pr.SrcT), pr.Extra
	}
	return "?", "?", "?", ""
}

// judgeModel compares the model with the observed plan of one function and reports the
// discrepancies whose governing rule is in `governed`.
func judgeModel(rep *core.Report, prop string, c *CaseResult, fi *FuncInfo, exps []*refmodel.Expect, governed map[string]bool) {
	judgeModelOnly(rep, prop, c, fi, exps, governed, "")
}

// judgeModelOnly is judgeModel restricted to one kind of discrepancy ("" = all).
func judgeModelOnly(rep *core.Report, prop string, c *CaseResult, fi *FuncInfo, exps []*refmodel.Expect, governed map[string]bool, only string) {
	ds := Compare(fi, exps)
	seen := map[string]bool{}
	for _, d := range ds {
		if only != "" && d.Kind != only {
			continue
		}
		nearMiss := false
		for _, n := range d.Exp.Notes {
			if n == "near-miss-notation" {
				nearMiss = true
			}
		}
		// a default-governed leaf next to which a notation is spelled in another case belongs to the
		// notation property as well (the notation must not capture it)
		if !governed[d.Exp.Governed] && !(nearMiss && governed["map"]) {
			continue
		}
		mech, dk, sk, extra := probeFeat(fi.Method, d.Exp.Path)
		feat := map[string]string{"governed": d.Exp.Governed, "mech": mech, "dst_kind": dk, "src_kind": sk, "toggles": togglesOf(fi.Opts),
			"nested": fmt.Sprint(strings.Contains(d.Exp.Path, ".")), "obs": d.Obs.Kind, "reason": d.Exp.Reason, "extra": extra, "why": strings.Join(d.Exp.Notes, ",")}
		feat["cover"] = coverOf(d.Obs)
		v := &core.Violation{Property: prop, Monitor: "refmodel", Symptom: d.Kind, Features: feat, Case: c.S.ID,
			Detail: fmt.Sprintf("%s: destination leaf %s [%s]: reference model says %s %s %v (%v); output has %s %q via item on %q", fi.Plan.Key(), d.Exp.Path, typeKind(d.Exp.Type),
				d.Exp.Class, d.Exp.Reason, d.Exp.Sources, d.Exp.Notes, d.Obs.Kind, d.Obs.Canon, d.Obs.CoverPath), Files: c.ReplayFiles()}
		if seen[v.Fingerprint()] {
			continue
		}
		seen[v.Fingerprint()] = true
		rep.Violate(v)
	}
}

// judgeM3 flags conversions, String() calls and getter calls introduced without their opt-in on
// leaves governed by default matching.
func judgeM3(rep *core.Report, c *CaseResult, fi *FuncInfo, exps []*refmodel.Expect) {
	gov := map[string]string{}
	for _, e := range exps {
		gov[e.Path] = e.Governed
	}
	o := fi.Opts
	for i := range fi.Plan.Items {
		it := &fi.Plan.Items[i]
		if it.Kind != "assign" && it.Kind != "slice" {
			continue
		}
		if it.Root != fi.DstVar {
			continue
		}
		// governed by default? (the item path or any leaf below it)
		isDefault := false
		for p, g := range gov {
			if isPrefixPath(it.PathStr(), p) && g == "default" {
				isDefault = true
			}
		}
		if !isDefault {
			continue
		}
		var bad []string
		if it.Kind == "slice" && it.SliceMode == "cast" && !o.Typecast {
			bad = append(bad, "element conversion without :typecast")
		}
		for x := it.RHS; x != nil; x = x.X {
			switch x.Op {
			case "conv":
				if !o.Typecast {
					bad = append(bad, "conversion without :typecast")
				}
			case "method":
				if x.Name == "String" && x == outer(it.RHS) {
					if !o.Stringer {
						bad = append(bad, "String() without :stringer")
					}
				} else if !o.Getter {
					bad = append(bad, "getter call without :getter")
				}
			case "call":
				bad = append(bad, "function call on a default-matched field")
			}
		}
		if o.Match != "name" {
			bad = append(bad, "name match under :match "+o.Match)
		}
		for _, b := range bad {
			mech, dk, sk, _ := probeFeat(fi.Method, it.PathStr())
			rep.Violate(&core.Violation{Property: "C04", Monitor: "M3", Symptom: "unopted-" + strings.Fields(b)[0], Features: map[string]string{"mech": mech, "dst_kind": dk, "src_kind": sk, "toggles": togglesOf(o)}, Case: c.S.ID,
				Detail: fmt.Sprintf("%s: %s: %s", fi.Plan.Key(), b, it.Text), Files: c.ReplayFiles()})
		}
	}
}

// outer skips an outermost conversion: cast(x.String()) still has String() outermost for our purpose.
func outer(e *outmon.Expr) *outmon.Expr {
	for e != nil && (e.Op == "conv") {
		e = e.X
	}
	return e
}

// modelCase runs the model-based judges on one accepted, parsed case.
func modelCase(rep *core.Report, prop string, c *CaseResult, governed map[string]bool, m3 bool, after func(fi *FuncInfo, exps []*refmodel.Expect)) {
	rep.Eval(1)
	if c.Run.TimedOut {
		rep.Inconclusive("tool watchdog: " + c.S.ID)
		return
	}
	if c.Run.Exit != 0 || c.Out == nil || c.Plans == nil {
		rep.Count("not_accepted", 1)
		return
	}
	badFuncs := map[string]bool{}
	if len(c.TypeErrs) > 0 {
		// an output that does not type-check is C01's finding. Inside a function with a type error
		// conversions and calls cannot be told apart reliably, so such functions are not judged here;
		// errors that cannot be attributed to a generated function disqualify the whole output.
		outBase := c.S.OutRel()[strings.LastIndex(c.S.OutRel(), "/")+1:]
		for _, msg := range c.TypeErrs {
			fn, _, _, _, _ := attribute(c, outLine(msg, outBase))
			if fn == "" {
				rep.Count("skipped_output_does_not_typecheck", 1)
				return
			}
			badFuncs[fn] = true
		}
	}
	models, hidden, _, err := BuildModelsHidden(c)
	if err != nil {
		rep.Inconclusive("model: " + c.S.ID + ": " + err.Error())
		return
	}
	_, infos := PrepareUnit(c)
	for key, fi := range infos {
		exps := models[key]
		if exps == nil {
			continue
		}
		// members the package cannot name still arrive when their struct is copied as a whole
		rep.Count("hidden_leaves_of_whole_copies_compared", len(hidden[key]))
		exps = append(append([]*refmodel.Expect{}, exps...), hidden[key]...)
		if badFuncs[key] {
			// not judged as a whole (see above) - except for the one verdict that does not depend on
			// telling the forms of a source expression apart: a leaf for which NO candidate fits
			// (inaccessible, wrong type) is assigned nevertheless
			rep.Count("skipped_function_with_type_error", 1)
			judgeModelOnly(rep, prop, c, fi, exps, governed, "expected-none-got-assign")
			continue
		}
		rep.Count("functions_compared", 1)
		rep.Count("leaves_compared", len(exps))
		judgeModel(rep, prop, c, fi, exps, governed)
		if m3 {
			judgeM3(rep, c, fi, exps)
		}
		if after != nil {
			after(fi, exps)
		}
	}
}

// matrixScenarios enumerates the type-pair matrix; part selects a 1/parts slice (parts=1: all).
func matrixScenarios(seed int64, parts int) ([]*scen.Scenario, int) {
	var cells []scen.Pair
	for _, d := range scen.Alphabet {
		for _, s := range scen.Alphabet {
			cells = append(cells, scen.Pair{D: d, S: s})
		}
	}
	toggleSets := [][]string{}
	for mask := 0; mask < 8; mask++ {
		var t []string
		if mask&1 != 0 {
			t = append(t, "getter")
		}
		if mask&2 != 0 {
			t = append(t, "stringer")
		}
		if mask&4 != 0 {
			t = append(t, "typecast")
		}
		toggleSets = append(toggleSets, t)
	}
	var ss []*scen.Scenario
	const per = 25
	n := 0
	total := 0
	for start := 0; start < len(cells); start += per {
		end := start + per
		if end > len(cells) {
			end = len(cells)
		}
		for ti, ts := range toggleSets {
			for _, via := range []bool{false, true} {
				total++
				if parts > 1 && int((int64(total)+seed)%int64(parts)) != 0 {
					continue
				}
				tg := ts
				if via {
					// a getter candidate only exists with :getter; without it the cell is the "no candidate" case
					_ = ti
				}
				id := fmt.Sprintf("mx%05d", n)
				n++
				ss = append(ss, scen.GenMatrix(cells[start:end], via, tg, id, id))
			}
		}
	}
	return ss, total
}

// RunC04 is the check for C04.
func RunC04(e *core.Env) int {
	rep := core.NewReport(e, "exploration",
		"(a) type-pair matrix: every (dst type, src type) of a 75-entry alphabet x {via field, via getter} x 2^3 {getter,stringer,typecast}, 25 cells per method (thorough: complete; quick: a seeded 1/8 slice); "+
			"(b) seeded random struct pairs (match profile: equal/case-variant/absent names, exported/unexported/imported members, getters with value/pointer receivers, competing candidates, nested/embedded structs, all toggles, :match none). "+
			"Per destination leaf the independent reference model (go/types judgements, README rules M1-M4) yields MUST-ASSIGN{sources}/MUST-NOT/EITHER and is compared with the observed plan; M3: no conversion/String()/getter call without opt-in. "+
			"distinct non-trivial = (toggles, mechanism, dst kind, src kind, model class, observed kind) over leaves governed by default matching")
	rep.Assume("assignability/convertibility/method sets are go/types' own judgement", "EITHER regions E-a,E-b,E-c,E-h of DESIGN.md are not judged")
	parts, nRandom := 8, 300
	if e.Tier == "thorough" {
		parts, nRandom = 1, 4000
	}
	gov := map[string]bool{"default": true}
	after := func(fi *FuncInfo, exps []*refmodel.Expect) {
		roleOf := RoleOf(fi)
		for _, ex := range exps {
			if ex.Governed != "default" {
				continue
			}
			lo := ObserveLeaf(fi, roleOf, ex.Path)
			mech, dk, sk, _ := probeFeat(fi.Method, ex.Path)
			rep.Distinct(fmt.Sprintf("%s|%s|%s|%s|%s|%s", togglesOf(fi.Opts), mech, dk, sk, ex.Class, lo.Kind))
			rep.Histo("model_class", ex.Class)
			if ex.Class == "either" {
				rep.Histo("either_region", ex.Reason)
			}
		}
	}
	// corpus: witnesses of known findings, run on every invocation
	find := func(expr string) scen.TypeEntry {
		for _, t := range scen.Alphabet {
			if t.Expr == expr {
				return t
			}
		}
		panic(expr)
	}
	wit := []scen.Pair{{D: find("string"), S: find("ext.MPS")}, {D: find("string"), S: find("*LPS")}, {D: find("string"), S: find("LPS")},
		{D: find("[]byte"), S: find("string")}, {D: find("[2]int"), S: find("[2]int")}}
	corpus := append([]*scen.Scenario{scen.GenMatrix(wit, false, []string{"stringer", "typecast"}, "kw-c04-field", "kwc04a")}, hotCells()...)
	if cb, err := NewBatch(e, "corpus", corpus); err == nil {
		cb.RunTool(e, true)
		for _, c := range cb.Cases {
			modelCase(rep, "C04", c, gov, true, after)
		}
	}
	// (a) matrix
	ms, total := matrixScenarios(e.Seed, parts)
	rep.Extra("matrix_methods_total", total)
	rep.Extra("matrix_methods_run", len(ms))
	for start, bi := 0, 0; start < len(ms); start, bi = start+200, bi+1 {
		end := start + 200
		if end > len(ms) {
			end = len(ms)
		}
		b, err := NewBatch(e, fmt.Sprintf("matrix-b%d", bi), ms[start:end])
		if err != nil {
			rep.Inconclusive(err.Error())
			continue
		}
		b.RunTool(e, true)
		for _, c := range b.Cases {
			modelCase(rep, "C04", c, gov, true, after)
			if c.Run.Crashed() {
				rep.Violate(&core.Violation{Property: "C14", Monitor: "crash", Symptom: "crash", Case: c.S.ID, Detail: core.Trunc(c.Run.Stderr, 500), Files: c.ReplayFiles()})
			}
		}
	}
	if parts == 1 {
		rep.Exhaustive(false) // the matrix sub-space is complete, the random part is not
		rep.Extra("matrix_exhaustive", true)
	}
	// (b) random pairs
	runBroadBatches(e, rep, "match", nRandom, 150, func(c *CaseResult) {
		modelCase(rep, "C04", c, gov, true, after)
		if c.Run.Exit == 0 && c.Out != nil {
			rep.Sample(map[string]any{"case": c.S.ID, "setup": core.Trunc(c.S.Files[c.S.Setup], 700), "output_excerpt": core.Trunc(string(c.Out), 900)}, 2)
		}
	})
	return rep.Finish()
}

// coverOf says how the output covers a leaf: by an item on the leaf itself, on an enclosing field,
// by items below it, or not at all.
func coverOf(lo *LeafObs) string {
	switch {
	case lo.Kind == "missing":
		return "none"
	case lo.Kind == "descended":
		return "below"
	case lo.Exact:
		return "exact"
	}
	return "enclosing"
}

// hotCells is a fixed mini-matrix run in every tier: the rows where conversions, String() and
// addressability interact (string-like destinations x stringer kinds and their pointers, via field
// and via getter, all 2^3 toggle sets).
func hotCells() []*scen.Scenario {
	find := func(expr string) scen.TypeEntry {
		for _, t := range scen.Alphabet {
			if t.Expr == expr {
				return t
			}
		}
		panic(expr)
	}
	dsts := []string{"string", "LStr", "[]byte", "interface{}", "*string", "int", "ext.MStr"}
	srcs := []string{"LStr", "ext.MStr", "LPS", "ext.MPS", "LNum", "ext.MNum", "LSS", "ext.SS", "*LStr", "*LPS", "*ext.MStr", "string", "int", "*int", "LInt"}
	var cells []scen.Pair
	for _, d := range dsts {
		for _, s := range srcs {
			cells = append(cells, scen.Pair{D: find(d), S: find(s)})
		}
	}
	var out []*scen.Scenario
	n := 0
	for start := 0; start < len(cells); start += 21 {
		end := start + 21
		if end > len(cells) {
			end = len(cells)
		}
		for mask := 0; mask < 8; mask++ {
			var t []string
			if mask&1 != 0 {
				t = append(t, "getter")
			}
			if mask&2 != 0 {
				t = append(t, "stringer")
			}
			if mask&4 != 0 {
				t = append(t, "typecast")
			}
			for _, via := range []bool{false, true} {
				if via && mask&1 == 0 {
					continue
				}
				id := fmt.Sprintf("hot%03d", n)
				n++
				out = append(out, scen.GenMatrix(cells[start:end], via, t, id, id))
			}
		}
	}
	return out
}
