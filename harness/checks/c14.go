package checks

import (
	"fmt"
	"go/ast"
	"go/parser"
	"go/token"
	"os"
	"path"
	"path/filepath"
	"regexp"
	"sort"
	"strconv"
	"strings"
	"time"

	"vh/core"
	"vh/scen"
)

func init() { Registry["C14"] = RunC14 }

var (
	reC14Pos       = regexp.MustCompile(`^(\S*?)([^/\s:]+):(\d+):(\d+): `)
	reC14LineCol   = regexp.MustCompile(`^(\d+):(\d+): `)
	reC14Goroutine = regexp.MustCompile(`goroutine \d+ \[`)
	reC14Frame     = regexp.MustCompile(`^\t\S*?/((?:pkg/\S+|main)\.go):\d+`)
	reC14Marker    = regexp.MustCompile(`^\s*//\s*:convergen\b`)
)

// c14Case is one fuzz case with its observations.
type c14Case struct {
	S       *scen.Scenario
	Root    string // module root (or the private root of a module-less case)
	Dir     string // working directory of the run
	Argv    string // input path as given to the tool
	InRel   string // module-root-relative path of the input file ("" if outside)
	OutPath string
	Run     core.RunResult
	Out     []byte
	Rerun   bool
}

func (c *c14Case) replay() map[string]string {
	cr := &CaseResult{S: c.S, Root: c.Root, Run: c.Run, Out: c.Out}
	f := cr.ReplayFiles()
	f["run.txt"] = fmt.Sprintf("cd %s && convergen %q\nexit=%d signal=%s timedout=%v cpu=%v rerun-alone=%v\ninject_class=%s inject_lines=%s\n", c.S.PkgRel, c.Argv,
		c.Run.Exit, c.Run.Signal, c.Run.TimedOut, c.Run.CPU, c.Rerun, c.S.InjectClass, c.S.Features["inject_lines"])
	// huge inputs stay readable in the replay
	for k, v := range f {
		if len(v) > 200000 {
			f[k] = v[:200000]
		}
	}
	return f
}

// c14Expected lists the methods declared directly in the converter interfaces of a setup text
// (package-level interfaces named Convergen or carrying a "// :convergen" doc line). ok=false
// when the text is not parseable Go.
func c14Expected(src string) (names []string, ok bool) {
	fset := token.NewFileSet()
	f, err := parser.ParseFile(fset, "setup.go", src, parser.ParseComments)
	if err != nil || f == nil {
		return nil, false
	}
	marked := func(cg *ast.CommentGroup) bool {
		if cg == nil {
			return false
		}
		for _, c := range cg.List {
			if reC14Marker.MatchString(c.Text) {
				return true
			}
		}
		return false
	}
	for _, d := range f.Decls {
		gd, isGen := d.(*ast.GenDecl)
		if !isGen || gd.Tok != token.TYPE {
			continue
		}
		for _, sp := range gd.Specs {
			ts := sp.(*ast.TypeSpec)
			var t ast.Expr = ts.Type
			for {
				p, isParen := t.(*ast.ParenExpr)
				if !isParen {
					break
				}
				t = p.X
			}
			it, isIface := t.(*ast.InterfaceType)
			if !isIface || it.Methods == nil {
				continue
			}
			conv := ts.Name.Name == "Convergen" || marked(ts.Doc) || (!gd.Lparen.IsValid() && marked(gd.Doc))
			if !conv {
				continue
			}
			// blank and repeated names are not methods of the interface in Go's sense
			seen := map[string]bool{}
			for _, m := range it.Methods.List {
				if _, isFunc := m.Type.(*ast.FuncType); !isFunc {
					continue
				}
				for _, n := range m.Names {
					if n.Name == "_" || seen[n.Name] {
						continue
					}
					seen[n.Name] = true
					names = append(names, n.Name)
				}
			}
		}
	}
	sort.Strings(names)
	return names, true
}

// c14Funcs lists the names of all function declarations of a Go text.
func c14Funcs(src []byte) (map[string]int, error) {
	fset := token.NewFileSet()
	f, err := parser.ParseFile(fset, "out.go", src, 0)
	if err != nil {
		return nil, err
	}
	m := map[string]int{}
	for _, d := range f.Decls {
		if fd, ok := d.(*ast.FuncDecl); ok {
			m[fd.Name.Name]++
		}
	}
	return m, nil
}

// c14CrashSite extracts the top-most frame of the tool's own code and the panic class.
func c14CrashSite(stderr string) (site, panicClass string) {
	lines := strings.Split(stderr, "\n")
	for i, l := range lines {
		m := reC14Frame.FindStringSubmatch(l)
		if m == nil || i == 0 {
			continue
		}
		fn := lines[i-1]
		if !strings.HasPrefix(fn, "github.com/reedom/convergen") && !strings.HasPrefix(fn, "main.") {
			continue
		}
		if k := strings.LastIndex(fn, "("); k > 0 {
			fn = fn[:k]
		}
		if k := strings.LastIndex(fn, "."); k >= 0 {
			fn = fn[k+1:]
		}
		site = m[1] + ":" + fn
		break
	}
	if site == "" {
		site = "unknown"
	}
	for _, l := range lines {
		if strings.HasPrefix(l, "panic: ") || strings.HasPrefix(l, "fatal error: ") {
			p := strings.TrimPrefix(strings.TrimPrefix(l, "panic: "), "fatal error: ")
			p = strings.TrimPrefix(p, "runtime error: ")
			p = reDigits.ReplaceAllString(p, "N")
			if k := strings.Index(p, " ["); k > 0 && strings.HasPrefix(p, "index out of range") {
				p = p[:k]
			}
			if len(p) > 60 {
				p = p[:60]
			}
			panicClass = p
			break
		}
	}
	return
}

func c14HasCrashText(stderr string) bool {
	return strings.Contains(stderr, "panic:") || strings.Contains(stderr, "fatal error:") || strings.Contains(stderr, "SIGSEGV") ||
		strings.Contains(stderr, "[signal ") || reC14Goroutine.MatchString(stderr)
}

// c14FirstDiag returns the first stderr line that is not a warning.
func c14FirstDiag(stderr string) string {
	for _, l := range strings.Split(stderr, "\n") {
		if strings.TrimSpace(l) == "" || strings.Contains(l, ": no assignment ") || strings.Contains(l, "is not implemented(yet)") {
			continue
		}
		return l
	}
	return ""
}

func c14InRanges(line int, ranges string) bool {
	for _, r := range strings.Split(ranges, ",") {
		ab := strings.SplitN(r, "-", 2)
		if len(ab) != 2 {
			continue
		}
		a, _ := strconv.Atoi(ab[0])
		b, _ := strconv.Atoi(ab[1])
		if a <= line && line <= b {
			return true
		}
	}
	return false
}

// c14Prepare writes the case and fills in the invocation.
func c14Prepare(e *core.Env, root string, s *scen.Scenario) (*c14Case, error) {
	c := &c14Case{S: s, Root: root}
	if s.Features["nomodule"] == "1" {
		c.Root = filepath.Join(e.Work, "c14-nomodule", filepath.Base(root), s.ID)
		if err := os.MkdirAll(c.Root, 0o755); err != nil {
			return nil, err
		}
	}
	if err := s.Write(c.Root); err != nil {
		return nil, err
	}
	c.Dir = filepath.Join(c.Root, s.PkgRel)
	if err := os.MkdirAll(c.Dir, 0o755); err != nil {
		return nil, err
	}
	c.Argv = "setup.go"
	if s.Features["argv_set"] == "1" {
		c.Argv = s.Features["argv"]
	}
	c.Argv = strings.Replace(c.Argv, "PKG", s.PkgRel, 1)
	if strings.HasPrefix(c.Argv, "ABS/") {
		c.Argv = filepath.Join(c.Dir, strings.TrimPrefix(c.Argv, "ABS/"))
		c.InRel = path.Clean(s.PkgRel + "/" + filepath.Base(c.Argv))
		ext := path.Ext(c.Argv)
		c.OutPath = c.Argv[:len(c.Argv)-len(ext)] + ".gen" + ext
	} else if c.Argv != "" && !filepath.IsAbs(c.Argv) {
		c.InRel = path.Clean(s.PkgRel + "/" + c.Argv)
		ext := path.Ext(c.Argv)
		c.OutPath = filepath.Join(c.Dir, c.Argv[:len(c.Argv)-len(ext)]+".gen"+ext)
	}
	return c, nil
}

const (
	c14WallSec    = 20
	c14CPUSuspect = 10 * time.Second
	c14CPUBudgetS = 60
	c14RerunWallS = 900
	c14BatchSize  = 800
)

func c14RunOnce(e *core.Env, c *c14Case) {
	if c.OutPath != "" {
		if _, stale := c.S.Files[path.Clean(c.S.PkgRel+"/"+filepath.Base(c.OutPath))]; !stale {
			_ = os.Remove(c.OutPath)
		}
	}
	spec := core.RunSpec{Args: []string{c.Argv}, Dir: c.Dir, WallSec: c14WallSec}
	if c14WithLog(c) {
		// a fifth of the cases run with -log: where diagnostics go must not depend on it (stderr still carries
		// the positioned message, the exit status is the same)
		spec.Args = []string{"-log", c.Argv}
	}
	if strings.HasPrefix(c.S.InjectClass, "corpus/import-c") {
		// the harness runs the tool with cgo switched off (the file would simply be ignored by go list);
		// these cases are about the cgo path
		spec.Env = []string{"CGO_ENABLED=1"}
	}
	c.Run = e.Run(spec)
}

// c14WithLog selects the cases that run with -log (by a checksum of the case id, plain argument form only).
func c14WithLog(c *c14Case) bool {
	if c.Argv != "setup.go" {
		return false
	}
	h := 0
	for _, b := range []byte(c.S.ID) {
		h = h*31 + int(b)
	}
	return (h&0x7fffffff)%5 == 0
}

// c14RerunAlone repeats a CPU-suspect run alone under a 60 s CPU budget (RLIMIT_CPU via ulimit -t).
func c14RerunAlone(e *core.Env, c *c14Case) {
	c.Rerun = true
	c.Run = e.Run(core.RunSpec{Args: []string{c.Argv}, Dir: c.Dir, WallSec: c14RerunWallS,
		Wrap: []string{"/bin/sh", "-c", fmt.Sprintf("ulimit -t %d; exec \"$@\"", c14CPUBudgetS), "sh"}})
}

// judgeC14 applies the oracle to one observed case. It returns the outcome class.
func judgeC14(rep *core.Report, c *c14Case) string {
	s := c.S
	r := c.Run
	rep.Eval(1)
	feat := map[string]string{"class": s.InjectClass, "group": s.Features["group"]}
	if n := s.Features["notation"]; n != "" {
		feat["notation"] = n
	}
	viol := func(sym, detail string, extra map[string]string) string {
		f := map[string]string{}
		for k, v := range feat {
			f[k] = v
		}
		for k, v := range extra {
			f[k] = v
		}
		rep.Violate(&core.Violation{Property: "C14", Monitor: "process-boundary", Symptom: sym, Features: f, Case: s.ID,
			Detail: fmt.Sprintf("[%s] %s\n--- injected (setup.go lines %s): %s\n--- stderr: %s", s.InjectClass, detail, s.Features["inject_lines"], core.Trunc(c14Injected(s), 400), core.Trunc(r.Stderr, 1200)),
			Files:  c.replay()})
		return sym
	}
	if r.StartErr != "" {
		rep.Inconclusive("could not start the tool: " + s.ID + ": " + r.StartErr)
		return "inconclusive"
	}
	// 1. termination: CPU time decides
	budget := (c14CPUBudgetS - 2) * time.Second
	if c.Rerun && (r.TimedOut || r.Signal != "") && r.CPU >= budget {
		return viol("hang", fmt.Sprintf("no termination within a %d s CPU budget when run alone (cpu=%v wall=%v signal=%q)", c14CPUBudgetS, r.CPU, r.Wall, r.Signal), nil)
	}
	if r.TimedOut {
		rep.Inconclusive(fmt.Sprintf("wall-clock watchdog only: %s (%s) cpu=%v wall=%v rerun=%v", s.ID, s.InjectClass, r.CPU, r.Wall, c.Rerun))
		return "inconclusive"
	}
	// 2. no crash
	if c14HasCrashText(r.Stderr) || r.Signal != "" {
		site, pc := c14CrashSite(r.Stderr)
		if r.Signal != "" && !c14HasCrashText(r.Stderr) {
			pc = "signal " + r.Signal
		}
		return viol("crash", fmt.Sprintf("the tool crashed (exit %d, signal %q) at %s: %s", r.Exit, r.Signal, site, pc), map[string]string{"site": site, "panic": pc})
	}
	// 3. exit status
	if r.Exit != 0 && r.Exit != 1 {
		return viol("bad-exit-status", fmt.Sprintf("exit status %d (documented: 0 or 1)", r.Exit), map[string]string{"exit": strconv.Itoa(r.Exit)})
	}
	if r.Exit != 0 {
		// 4. failure: diagnostic
		if s.Features["control"] == "1" {
			rep.Inconclusive(fmt.Sprintf("valid control rejected (generator or another property's defect): %s (%s): %s", s.ID, s.InjectClass, core.Trunc(c14FirstDiag(r.Stderr), 200)))
			return "control-rejected"
		}
		if strings.TrimSpace(r.Stderr) == "" {
			return viol("silent-failure", fmt.Sprintf("exit %d with empty stderr (stdout: %s)", r.Exit, core.Trunc(r.Stdout, 200)), nil)
		}
		if s.Features["positioned"] != "1" {
			return "rejected"
		}
		first := c14FirstDiag(r.Stderr)
		m := reC14Pos.FindStringSubmatch(first)
		if m == nil || m[2] != filepath.Base(c.Argv) {
			// a path with blanks or other odd characters: accept the literal spelling of the input
			abs := c.Argv
			if !filepath.IsAbs(abs) {
				abs = filepath.Join(c.Dir, c.Argv)
			}
			for _, pre := range []string{abs, c.Argv} {
				if pre != "" && strings.HasPrefix(first, pre+":") {
					if mm := reC14LineCol.FindStringSubmatch(first[len(pre)+1:]); mm != nil {
						m = []string{first, filepath.Dir(pre) + "/", filepath.Base(c.Argv), mm[1], mm[2]}
					}
					break
				}
			}
		}
		if m == nil || m[2] != filepath.Base(c.Argv) {
			return viol("unpositioned-diagnostic", "first diagnostic does not start with <setup file>:<line>:<col>: "+core.Trunc(first, 300), map[string]string{"stderr": c14DiagClass(first)})
		}
		line, _ := strconv.Atoi(m[3])
		if !c14InRanges(line, s.Features["inject_lines"]) {
			return viol("wrong-position", fmt.Sprintf("first diagnostic names line %d, the offending item is on line(s) %s: %s", line, s.Features["inject_lines"], core.Trunc(first, 300)),
				map[string]string{"stderr": c14DiagClass(first)})
		}
		return "rejected-positioned"
	}
	// 5. success: no converter-interface method dropped
	if c.InRel == "" {
		return "accepted"
	}
	want, ok := c14Expected(s.Files[c.InRel])
	if !ok {
		rep.Inconclusive("accepted input is not parseable by the harness: " + s.ID + " (" + s.InjectClass + ")")
		return "inconclusive"
	}
	if len(want) == 0 {
		return "accepted-no-methods"
	}
	out, err := os.ReadFile(c.OutPath)
	if err != nil {
		return viol("method-dropped", fmt.Sprintf("exit 0 but no output file %s; converter methods %v", filepath.Base(c.OutPath), want), map[string]string{"how": "no-output"})
	}
	c.Out = out
	got, err := c14Funcs(out)
	if err != nil {
		return viol("method-dropped", fmt.Sprintf("exit 0 but the output is not parseable Go (%v); converter methods %v", err, want), map[string]string{"how": "unparseable-output"})
	}
	wantN := map[string]int{}
	for _, n := range want {
		wantN[n]++
	}
	var missing []string
	for n, k := range wantN {
		if got[n] < k {
			missing = append(missing, n)
		}
	}
	sort.Strings(missing)
	if len(missing) > 0 {
		return viol("method-dropped", fmt.Sprintf("exit 0 but no generated function for converter method(s) %v (functions in output: %v)", missing, got), map[string]string{"how": "missing-function"})
	}
	if s.Features["control"] == "1" {
		rep.Count("controls_accepted_complete", 1)
	}
	return "accepted"
}

// c14DiagClass strips paths, numbers and quoted user text from a diagnostic line.
func c14DiagClass(l string) string {
	if m := reC14Pos.FindStringIndex(l); m != nil {
		l = l[m[1]:]
	} else if i := strings.Index(l, ".go: "); i >= 0 {
		l = l[i+5:]
	}
	l = reDigits.ReplaceAllString(l, "N")
	if len(l) > 50 {
		l = l[:50]
	}
	return l
}

// c14Injected returns the injected lines of the setup file.
func c14Injected(s *scen.Scenario) string {
	lines := strings.Split(s.Files[s.Setup], "\n")
	var out []string
	for i, l := range lines {
		if c14InRanges(i+1, s.Features["inject_lines"]) {
			out = append(out, strings.TrimSpace(l))
		}
	}
	return strings.Join(out, " | ")
}

// RunC14 is the check for C14.
func RunC14(e *core.Env) int {
	rep := core.NewReport(e, "exploration",
		"seeded grammar-based fault injection into a small valid setup (3 struct pairs, 6 valid callbacks, 3 methods): (a) notation text - every notation name x 0..4 args x token categories "+
			"(idents, paths, $-forms, empty path segments, ()-forms, slashes, invalid/exotic/huge regexps, unicode, 10 KB args, Go syntax, keywords) x separators (unicode spaces) x prefixes, duplicated/contradictory/self-referential notations, wrong level, block comments; "+
			"(b) callbacks named by :conv/:preprocess/:postprocess - arity 0..4 x 7 result shapes x variadic x right/wrong types, 13 hook type sets x 6 method variants, 65 entity kinds (methods, types, vars, consts, generics, imported forms, builtins); "+
			"(c) 25 signature shapes, 40x40 operand kinds, 48x48 field kinds x modes x toggles, 16 recursive type shapes, 57 interface shapes, 63 file/argv shapes, random truncation/garbage/deletion; plus 5 % valid controls. "+
			"Oracle: terminated (CPU time; wall-only timeout = inconclusive; CPU>10 s => re-run alone under RLIMIT_CPU 60 s), exit in {0,1}, no Go crash text on stderr, exit!=0 => stderr non-empty and, for notation/callback/signature/operand classes, the first non-warning line "+
			"starts with <setup file>:<line>:<col>: with <line> on an injected line; exit 0 => every method declared in a converter interface of the input has a generated function. Rejection is never demanded. "+
			"distinct non-trivial = distinct (inject class, outcome class) pairs")
	rep.Assume("CPU time of the tool process (rusage incl. its go list children) is the termination measure: a run that is killed by the 20 s wall watchdog with <= 10 s CPU is inconclusive",
		"converter interfaces of an input are recognised by the harness syntactically (package-level interface named Convergen or with a '// :convergen' doc line); methods reached only through embedding are not required",
		"position requirement applies only to classes the generator marks positioned (malformed/contradictory notations, wrongly shaped or unknown callbacks, signature and operand faults); ':literal' values, illegal source bytes, struct field kinds, "+
			"interface shapes outside the conventions and file-level faults only need a non-empty message")
	n := 3000
	if e.Tier == "thorough" {
		n = 40000
	}
	all := scen.GenFuzz(core.Rand(e.Seed, "c14"), n)
	rep.Extra("cases", len(all))
	classes := map[string]bool{}
	for _, s := range all {
		classes[s.InjectClass] = true
	}
	rep.Extra("inject_classes_generated", len(classes))
	var suspects []*c14Case
	sampled := map[string]bool{}
	// debugging aid: VERIF_C14_DUMP=<file> lists every case with its outcome
	var dump *os.File
	if p := os.Getenv("VERIF_C14_DUMP"); p != "" {
		dump, _ = os.Create(p)
		defer dump.Close()
	}
	finish := func(c *c14Case) {
		oc := judgeC14(rep, c)
		s := c.S
		// a run that is rejected must not "succeed" silently under -dry: with -dry -print, exit 0 means the
		// code that would have been written is on stdout - with a function for every converter method
		if c.Run.Exit == 1 && c.Argv == "setup.go" && !c.Run.TimedOut && core.Rand(e.Seed, "c14-dry", s.ID).Intn(4) == 0 {
			r2 := e.Run(core.RunSpec{Args: []string{"-dry", "-print", "setup.go"}, Dir: c.Dir, WallSec: c14WallSec})
			rep.Count("rejected_inputs_rerun_with_dry_print", 1)
			if r2.Exit == 0 && !r2.TimedOut {
				want, ok := c14Expected(s.Files[s.Setup])
				got, perr := c14Funcs([]byte(r2.Stdout))
				var missing []string
				if ok && perr == nil {
					for _, w := range want {
						if got[w] == 0 {
							missing = append(missing, w)
						}
					}
				}
				if !ok || perr != nil || len(missing) > 0 || len(want) == 0 {
					rep.Violate(&core.Violation{Property: "C14", Monitor: "dry-run", Symptom: "dry-run-reports-success-for-rejected-input", Features: map[string]string{"group": s.Features["group"]}, Case: s.ID,
						Detail: fmt.Sprintf("'convergen setup.go' exits 1 (%s) but 'convergen -dry -print setup.go' exits 0; printed code parse error: %v; methods without printed function: %v; stderr of the dry run: %q",
							core.Trunc(c14FirstDiag(c.Run.Stderr), 200), perr, missing, core.Trunc(r2.Stderr, 200)), Files: c.replay()})
				}
			}
		}
		if dump != nil {
			fmt.Fprintf(dump, "%s\t%s\t%s\texit=%d\tcpu=%dms\t%s\n", s.ID, s.InjectClass, oc, c.Run.Exit, c.Run.CPU.Milliseconds(), core.Trunc(c14FirstDiag(c.Run.Stderr), 160))
		}
		rep.Histo("outcome", oc)
		if c14WithLog(c) {
			rep.Count("cases_run_with_log", 1)
		}
		rep.Histo("group/outcome", s.Features["group"]+" -> "+oc)
		if oc != "inconclusive" {
			rep.Distinct(s.InjectClass + " => " + oc)
		}
		lvl := s.InjectClass
		if i := strings.Index(lvl, "/"); i > 0 {
			lvl = lvl[:i]
		}
		rep.Histo("level", lvl)
		if !sampled[lvl+oc] && (oc == "accepted" || oc == "rejected-positioned" || oc == "rejected") {
			sampled[lvl+oc] = true
			rep.Sample(map[string]any{"case": s.ID, "class": s.InjectClass, "outcome": oc, "injected": core.Trunc(c14Injected(s), 300), "inject_lines": s.Features["inject_lines"],
				"exit": c.Run.Exit, "cpu_ms": c.Run.CPU.Milliseconds(), "stderr_first": core.Trunc(c14FirstDiag(c.Run.Stderr), 300)}, 6)
		}
	}
	var maxCPU time.Duration
	for start, bi := 0, 0; start < len(all); start, bi = start+c14BatchSize, bi+1 {
		end := start + c14BatchSize
		if end > len(all) {
			end = len(all)
		}
		// every other batch lives below a directory whose name holds characters that are special to
		// formatted printing and shells (a checkout called "50%off (new) $x"): positions must still read true
		root := filepath.Join(e.Work, fmt.Sprintf("c14-b%d", bi))
		if bi%2 == 1 {
			root = filepath.Join(e.Work, fmt.Sprintf("c14-b%d 50%%off %%v%%s%%d (new) $x", bi))
		}
		if err := scen.WriteModuleBase(root); err != nil {
			rep.Inconclusive("batch setup: " + err.Error())
			continue
		}
		cases := make([]*c14Case, 0, end-start)
		for _, s := range all[start:end] {
			c, err := c14Prepare(e, root, s)
			if err != nil {
				rep.Inconclusive("case setup: " + s.ID + ": " + err.Error())
				continue
			}
			cases = append(cases, c)
		}
		e.Parallel(len(cases), func(i int) { c14RunOnce(e, cases[i]) })
		for _, c := range cases {
			if c.Run.CPU > maxCPU {
				maxCPU = c.Run.CPU
			}
			if c.Run.TimedOut && c.Run.CPU > c14CPUSuspect {
				suspects = append(suspects, c)
				continue
			}
			finish(c)
		}
		// suspects are re-run before the batch directory goes away: nothing else runs meanwhile and at
		// most 4 of them at a time on >= 8 cores (each is a single-threaded CPU-bound process, and CPU
		// time, not wall time, is what is measured)
		if len(suspects) > 0 {
			w := 1
			if e.Workers >= 8 {
				w = 4
			}
			rep.Count("cpu_suspects_rerun_alone", len(suspects))
			core.ParallelN(w, len(suspects), func(i int) { c14RerunAlone(e, suspects[i]) })
			for _, c := range suspects {
				finish(c)
			}
			suspects = nil
		}
		_ = os.RemoveAll(root)
		_ = os.RemoveAll(filepath.Join(e.Work, "c14-nomodule", filepath.Base(root)))
	}
	rep.Extra("max_cpu_ms_of_a_run", maxCPU.Milliseconds())
	return rep.Finish()
}
