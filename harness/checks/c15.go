package checks

// C15 — a run writes only its output (and log); dry or failed runs write nothing there.
//
// Enumeration (level fault_enumeration): input kinds {accepted, rejected early, rejected late
// (after generation, in goimports/gofmt), crashing — taken from the broad generator by their
// observed outcome — plus hand-made inputs: accepted, no converter interface, syntax error,
// unknown converter function, nonexistent input path, undefined operand type, unknown
// notation, wrong package clause, empty file, three late failures (a :literal that is not an
// expression; two current generator defects), a crashing hook}
// x all 2^4 combinations of {-dry, -print, -log, -out <other name in the same dir>}
// x output-path pre-states {absent, present (sentinel content), present + immutable
// (chattr +i), a directory in the way, missing parent directory (only with -out),
// unwritable directory (tool run as uid/gid 65534 in a root-owned 0755 tree, or the
// directory itself made immutable)}.
//
// Every case runs the real binary as a child process in its own private copy of a scenario
// module. Observations (engine fsmon): (1) snapshot of every path under the module root
// before and after (type, mode, size, SHA-256, symlink target; never times); (2) in strace
// mode (three flag combinations per (kind, state) cell, additionally every 4th case in
// thorough) every write-class system call issued by the tool's own threads — `go list`
// children and their descendants are separate processes and excluded by construction;
// (3) a private, empty TMPDIR per case: if something is left in it, the case is re-run under
// strace so that the creator can be attributed.
//
// Oracle (never more than the property says):
//
//	F1  changed/created/deleted paths ⊆ {output path if ¬dry ∧ exit 0} ∪ {log path if -log}
//	    (directories newly created above a path that may be written are not judged)
//	F2  -dry or exit≠0 ⇒ the output path is exactly as before (absent stays absent, content
//	    byte-identical, the directory in the way still that directory with its content)
//	F3  the setup file and every other source are identical (special case of F1, own symptom)
//	S1  strace: no successful write-class syscall by the tool on any path other than the output
//	    path and the log path; /dev/null, terminals, pipes and writes to fd 1/2 are not files
//	S2  strace: no successful modifying syscall on the output path when -dry or exit≠0, none
//	    on the log path without -log
//
// Deliberately not judged: whether the log file is created by a run that later fails (the
// property allows the log whenever -log is given); what `go list` writes to GOCACHE/HOME;
// mid-write faults (ENOSPC/EIO), which are outside the property's fault model.

import (
	"fmt"
	"os"
	"os/signal"
	"path/filepath"
	"sort"
	"strings"
	"sync"
	"syscall"

	"vh/core"
	"vh/fsmon"
	"vh/scen"
)

func init() { Registry["C15"] = RunC15 }

const (
	c15Uid     = 65534
	c15AltOut  = "c15alt.gen.go"
	c15MissOut = "c15_missing/dir/x.gen.go"
	// c15Tail makes every setup file not gofmt-clean, so that an in-place reformat of the
	// setup file changes its bytes.
	c15Tail = "\n\n\nvar   c15Tail   =   [ ]int{ 1,2 }\n"
)

// "alias": the -out value designates the INPUT file itself (same path, a symbolic link to it, or a hard link to it)
var c15States = []string{"absent", "present", "immutable", "dir", "noparent", "unwritable", "alias"}

// c15Input is one input (a module tree and the name of the input file).
type c15Input struct {
	Kind   string // acc | rej-early | rej-late | crash | h-…
	Name   string
	Origin string // broad | hand
	PkgRel string
	Files  map[string]string // module-root relative
	Input  string            // base name of the input argument inside PkgRel
	Env    []string          // extra environment of the tool for this input (later entries win)
}

type c15Case struct {
	Idx      int
	ID       string
	In       *c15Input
	Bits     int
	Dry      bool
	Print    bool
	Log      bool
	Out      bool
	State    string
	Mech     string // "" | uid | uid+present | chattr-dir
	LogPre   bool   // a log file with sentinel content exists before the run
	LogDev   bool   // ... and that "log file" is a symbolic link to /dev/null (every write succeeds, fsync does not)
	Sentinel string // go | garbage
	Spelling string // rel | abs | root
	Strace   bool
	Escal    bool
	// StdoutFull: standard output is /dev/full (every write fails with ENOSPC); only with -print
	StdoutFull bool
}

func (c *c15Case) flagString() string {
	var fs []string
	for _, f := range []struct {
		on bool
		n  string
	}{{c.Dry, "dry"}, {c.Print, "print"}, {c.Log, "log"}, {c.Out, "out"}} {
		if f.on {
			fs = append(fs, f.n)
		}
	}
	if len(fs) == 0 {
		return "none"
	}
	return strings.Join(fs, "+")
}

// c15Obs is what was observed for one case.
type c15Obs struct {
	Root, Cwd      string
	Args           []string
	OutAbs, LogAbs string
	SetupAbs       string
	Res            core.RunResult
	Pre, Post      *fsmon.Snapshot
	Changes        []fsmon.Change
	Rewritten      []string
	TmpLeft        []string
	Events         []fsmon.Event
	TraceNote      string
	Infra          string // non-empty: the case could not be set up / observed (inconclusive)
}

type c15ctx struct {
	e        *core.Env
	rep      *core.Report
	base     string
	ims      *fsmon.Immutables
	nbHome   string
	nbCache  string
	uidOK    bool
	uidWhy   string
	straceOK bool
	stWhy    string
	immOK    bool
	immWhy   string
	mu       sync.Mutex
	behav    map[string]int
}

// ---------------------------------------------------------------------------------------
// inputs

const c15HandTypes = `package sc

type A struct {
	Name string
	N    int
	Tags []string
}

type B struct {
	Name string
	N    int
	Tags []string
}

func hook1(a *A)  {   }
`

func c15HandSetup(body string) string {
	return "//go:build convergen\n\npackage sc\n\n" + body + c15Tail
}

func c15HandInputs() []*c15Input {
	mk := func(kind, setup, input string) *c15Input {
		return &c15Input{Kind: kind, Name: kind, Origin: "hand", PkgRel: "hm", Input: input,
			Files: map[string]string{"hm/types.go": c15HandTypes, "hm/setup.go": setup}}
	}
	okBody := "type Convergen interface {\n\t// :typecast\n\tAtoB(src *A) (dst *B)\n\tBtoA(src *B) (dst *A, err error)\n}\n"
	return []*c15Input{
		mk("h-ok", c15HandSetup(okBody), "setup.go"),
		mk("h-noiface", c15HandSetup("type NotAConverter struct{ X int }\n"), "setup.go"),
		mk("h-syntax", c15HandSetup(okBody+"\nfunc broken( {\n"), "setup.go"),
		mk("h-unkconv", c15HandSetup("type Convergen interface {\n\t// :conv c15NoSuchFunc Name Name\n\tAtoB(src *A) (dst *B)\n\tBtoA(src *B) (dst *A, err error)\n}\n"), "setup.go"),
		mk("h-noinput", c15HandSetup(okBody), "c15_nosuch.go"),
		mk("h-badtype", c15HandSetup("type Convergen interface {\n\tAtoB(src *Nope) (dst *B)\n\tBtoA(src *B) (dst *A, err error)\n}\n"), "setup.go"),
		mk("h-badnotation", c15HandSetup("type Convergen interface {\n\t// :c15nosuchnotation x y\n\tAtoB(src *A) (dst *B)\n\tBtoA(src *B) (dst *A, err error)\n}\n"), "setup.go"),
		mk("h-wrongpkg", strings.Replace(c15HandSetup(okBody), "package sc", "package other", 1), "setup.go"),
		mk("h-empty", "", "setup.go"),
		// late failures: generation succeeds, goimports/gofmt of the generated text fails
		mk("h-late-literal", c15HandSetup("type Convergen interface {\n\t// :literal Name )(\n\tAtoB(src *A) (dst *B)\n\tBtoA(src *B) (dst *A, err error)\n}\n"), "setup.go"),
		mk("h-late-shortbody", c15HandSetup("type Convergen interface {\n\tAtoB(*A) *B\n}\n"), "setup.go"),
		mk("h-late-recvargs", c15HandSetup("type Convergen interface {\n\t// :recv a\n\tAtoB(*A, int) *B\n\tBtoA(src *B) (dst *A, err error)\n}\n"), "setup.go"),
		// a go.mod the go command could "repair" (a replace directive without its require) and a file that
		// imports the module, run with the go command's default -mod=readonly: go.mod is a source like any other
		func() *c15Input {
			in := mk("h-gomod-repairable", c15HandSetup(okBody), "setup.go")
			in.Files["go.mod"] = "module " + scen.ModName + "\n\ngo 1.19\n\nreplace example.com/c15lib => ./c15libmod\n"
			in.Files["c15libmod/go.mod"] = "module example.com/c15lib\n\ngo 1.19\n"
			in.Files["c15libmod/lib.go"] = "package c15lib\n\ntype T struct{ X int }\n"
			in.Files["hm/uselib.go"] = "package sc\n\nimport \"example.com/c15lib\"\n\nvar _ c15lib.T\n"
			in.Env = []string{"GOFLAGS=-mod=readonly"}
			return in
		}(),
		// two converter interfaces, one of which passes the parser and is refused by the BUILDER (destination is not
		// a struct), sorting after / before the one that builds: a run that ends in an error writes nothing
		mk("h-mixed-ifaces", c15HandSetup(okBody+"\n// :convergen\ntype Second interface {\n\tToID(src *A) int\n}\n"), "setup.go"),
		mk("h-mixed-ifaces-first", c15HandSetup(okBody+"\n// :convergen\ntype AFirst interface {\n\tToID(src *A) int\n}\n"), "setup.go"),
		// a setup file whose name has two dots, next to the generated output of its sibling setup.go
		func() *c15Input {
			in := mk("h-dotted-name", c15HandSetup(okBody), "setup.v2.go")
			in.Files["hm/setup.v2.go"] = in.Files["hm/setup.go"]
			delete(in.Files, "hm/setup.go")
			in.Files["hm/setup.gen.go"] = "// Code generated by github.com/reedom/convergen\n// DO NOT EDIT.\n\npackage sc\n\n// output of a sibling setup.go, generated earlier\nvar c15Sibling = 1\n"
			return in
		}(),
		// crash: hook with fewer than two parameters
		mk("h-crash-hook", c15HandSetup("type Convergen interface {\n\t// :preprocess hook1\n\tAtoB(src *A) (dst *B)\n\tBtoA(src *B) (dst *A, err error)\n}\n"), "setup.go"),
	}
}

// c15ExitClass classifies an observed run.
func c15ExitClass(r core.RunResult) string {
	switch {
	case r.TimedOut:
		return "timeout"
	case r.Crashed():
		return "crash"
	case r.Exit == 0:
		return "ok"
	case strings.Contains(r.Stderr, "error on optimizing imports") || strings.Contains(r.Stderr, "error on formatting"):
		return "fail-late"
	}
	return "fail"
}

func c15ErrClass(r core.RunResult) string {
	s := r.Stderr
	for _, k := range []string{"panic:", "permission denied", "operation not permitted", "is a directory", "not a directory",
		"no such file or directory", "read-only file system", "error on optimizing imports", "error on formatting",
		"interface not found", "not found", "expected "} {
		if strings.Contains(s, k) {
			return strings.TrimSuffix(k, ":")
		}
	}
	if strings.TrimSpace(stripWarnings(s)) == "" {
		return "-"
	}
	return "other"
}

func stripWarnings(s string) string {
	var keep []string
	for _, l := range strings.Split(s, "\n") {
		if strings.Contains(l, "no assignment for") || strings.TrimSpace(l) == "" {
			continue
		}
		keep = append(keep, l)
	}
	return strings.Join(keep, "\n")
}

// c15BroadPool generates n broad scenarios, runs the tool once on each (plain run in a
// scratch batch module) and groups them by observed outcome.
func (x *c15ctx) broadPool(n, perKind int) map[string][]*c15Input {
	e := x.e
	var ss []*scen.Scenario
	for i := 0; i < n; i++ {
		id := fmt.Sprintf("s%05d", i)
		s := GenByProfile("broad", e.Seed, i, id)
		s.Files[s.Setup] += c15Tail
		ss = append(ss, s)
	}
	pool := map[string][]*c15Input{}
	b, err := NewBatch(e, "c15-classify", ss)
	if err != nil {
		x.rep.Inconclusive("classification batch: " + err.Error())
		return pool
	}
	res := make([]core.RunResult, len(ss))
	e.Parallel(len(ss), func(i int) {
		s := ss[i]
		res[i] = e.Run(core.RunSpec{Args: []string{filepath.Base(s.Setup)}, Dir: filepath.Join(b.Root, s.PkgRel), WallSec: 120})
	})
	for i, s := range ss {
		kind := map[string]string{"ok": "acc", "fail": "rej-early", "fail-late": "rej-late", "crash": "crash"}[c15ExitClass(res[i])]
		x.rep.Histo("broad_classification", c15ExitClass(res[i]))
		if kind == "" || len(pool[kind]) >= perKind {
			continue
		}
		files := map[string]string{}
		for k, v := range s.Files {
			files[k] = v
		}
		pool[kind] = append(pool[kind], &c15Input{Kind: kind, Name: s.ID, Origin: "broad", PkgRel: s.PkgRel, Files: files, Input: filepath.Base(s.Setup)})
	}
	_ = os.RemoveAll(b.Root)
	return pool
}

// ---------------------------------------------------------------------------------------
// running one case

func c15Sentinel(c *c15Case, what string) string {
	if what == "log" {
		return "c15 log sentinel " + c.ID + "\n"
	}
	if c.Sentinel == "garbage" {
		return "\x00\x01 c15 sentinel (not Go) " + c.ID + "\n"
	}
	return "// c15 sentinel " + c.ID + "\n\npackage sc\n"
}

func (x *c15ctx) runCase(c *c15Case) *c15Obs {
	e := x.e
	o := &c15Obs{}
	caseDir := filepath.Join(x.base, fmt.Sprintf("c%06d", c.Idx))
	if c.Escal {
		caseDir += "e"
	}
	root := filepath.Join(caseDir, "mod")
	aux := filepath.Join(caseDir, "aux")
	tmp := filepath.Join(aux, "tmp")
	o.Root = root
	fail := func(format string, a ...any) *c15Obs {
		o.Infra = fmt.Sprintf(format, a...)
		return o
	}
	defer func() {
		// release immutable flags of this case whatever happened, then drop the directory
		fsmon.SweepTree(caseDir)
		if os.Getenv("VERIF_KEEP") == "" {
			_ = os.RemoveAll(caseDir)
		}
	}()
	if err := scen.WriteModuleBase(root); err != nil {
		return fail("module base: %v", err)
	}
	if err := core.WriteTree(root, c.In.Files); err != nil {
		return fail("scenario files: %v", err)
	}
	if err := os.MkdirAll(tmp, 0o755); err != nil {
		return fail("aux: %v", err)
	}
	pkgDir := filepath.Join(root, c.In.PkgRel)
	o.SetupAbs = filepath.Join(pkgDir, "setup.go")
	if c.Spelling == "symlink" {
		// the input file is a symbolic link into ANOTHER package directory: a second directory holds
		// copies of the sibling files and a link to the setup file; everything designated (output, log)
		// is designated by the spelling of the input, i.e. lies in the second directory
		lnkDir := pkgDir + "_lnk"
		if _, err := os.Lstat(filepath.Join(pkgDir, c.In.Input)); err == nil {
			if err := os.MkdirAll(lnkDir, 0o755); err != nil {
				return fail("link dir: %v", err)
			}
			ents, _ := os.ReadDir(pkgDir)
			for _, en := range ents {
				if en.IsDir() || en.Name() == c.In.Input {
					continue
				}
				data, err := os.ReadFile(filepath.Join(pkgDir, en.Name()))
				if err == nil {
					err = os.WriteFile(filepath.Join(lnkDir, en.Name()), data, 0o644)
				}
				if err != nil {
					return fail("link dir copy: %v", err)
				}
			}
			if err := os.Symlink(filepath.Join("..", filepath.Base(pkgDir), c.In.Input), filepath.Join(lnkDir, c.In.Input)); err != nil {
				return fail("symlink: %v", err)
			}
			pkgDir = lnkDir
		}
	}
	inputAbs := filepath.Join(pkgDir, c.In.Input)

	// spelling of input and -out
	outName := c15AltOut
	if c.State == "noparent" {
		outName = c15MissOut
	}
	if c.State == "alias" && c.Mech == "same" {
		outName = c.In.Input
	}
	if c.Out && c.Idx%7 == 3 && (c.State == "absent" || c.State == "present") {
		// an -out name whose extension is .log: the log path derived from it is the output path itself
		outName = "c15alt.log"
	}
	var inArg, outArg string
	switch c.Spelling {
	case "abs":
		o.Cwd, inArg, outArg = pkgDir, inputAbs, filepath.Join(pkgDir, outName)
	case "root":
		o.Cwd, inArg, outArg = root, c.In.PkgRel+"/"+c.In.Input, c.In.PkgRel+"/"+outName
	case "sub":
		// started from a directory other than the setup file's, with relative paths that climb out of it
		sub := filepath.Join(pkgDir, "c15sub")
		if err := os.MkdirAll(sub, 0o755); err != nil {
			return fail("sub dir: %v", err)
		}
		o.Cwd, inArg, outArg = sub, "../"+c.In.Input, "../"+outName
	default:
		// "gofile": as "rel", but the input is named by $GOFILE (go generate) instead of an argument
		o.Cwd, inArg, outArg = pkgDir, c.In.Input, outName
	}
	if c.Out {
		o.OutAbs = filepath.Join(pkgDir, outName)
	} else {
		o.OutAbs = strings.TrimSuffix(inputAbs, filepath.Ext(inputAbs)) + ".gen" + filepath.Ext(inputAbs)
	}
	o.LogAbs = strings.TrimSuffix(o.OutAbs, filepath.Ext(o.OutAbs)) + ".log"
	if c.Dry {
		o.Args = append(o.Args, "-dry")
	}
	if c.Print {
		o.Args = append(o.Args, "-print")
	}
	if c.Log {
		o.Args = append(o.Args, "-log")
	}
	if c.Out {
		o.Args = append(o.Args, "-out", outArg)
	}
	if c.Spelling != "gofile" {
		o.Args = append(o.Args, inArg)
	}

	// pre-state of the output (and log) path
	write := func(p, content string) error { return os.WriteFile(p, []byte(content), 0o644) }
	var err error
	switch c.State {
	case "absent", "noparent":
	case "present", "immutable":
		err = write(o.OutAbs, c15Sentinel(c, "out"))
	case "dir":
		if err = os.MkdirAll(o.OutAbs, 0o755); err == nil && c.Mech != "empty" {
			err = write(filepath.Join(o.OutAbs, "keep.txt"), "c15 keep "+c.ID+"\n")
		}
	case "unwritable":
		if c.Mech == "uid+present" || c.Mech == "uid-rofile" {
			err = write(o.OutAbs, c15Sentinel(c, "out"))
		}
		if err == nil && c.Mech == "uid-rofile" {
			// the FILE is read-only, its directory is writable for the (unprivileged) user the tool runs as
			if err = os.Chmod(o.OutAbs, 0o444); err == nil {
				err = os.Chmod(filepath.Dir(o.OutAbs), 0o777)
			}
		}
	case "alias":
		if _, serr := os.Lstat(inputAbs); serr != nil {
			break // the input does not exist: nothing to alias, the case degenerates to "absent"
		}
		switch c.Mech {
		case "symlink":
			err = os.Symlink(c.In.Input, o.OutAbs)
		case "hardlink":
			err = os.Link(inputAbs, o.OutAbs)
		}
	}
	if err != nil {
		return fail("pre-state %s: %v", c.State, err)
	}
	if c.LogPre && c.State != "noparent" {
		if c.LogDev && o.LogAbs != o.OutAbs {
			if err := os.Symlink("/dev/null", o.LogAbs); err != nil {
				return fail("log pre-state: %v", err)
			}
		} else if err := write(o.LogAbs, c15Sentinel(c, "log")); err != nil {
			return fail("log pre-state: %v", err)
		}
	}
	spec := core.RunSpec{Args: o.Args, Dir: o.Cwd, WallSec: 120, Env: []string{"TMPDIR=" + tmp}}
	if c.Spelling == "gofile" {
		spec.Env = append(spec.Env, "GOFILE="+c.In.Input)
	}
	switch {
	case c.State == "immutable":
		if !x.immOK {
			return fail("immutable flag unavailable: %s", x.immWhy)
		}
		if err := x.ims.Set(o.OutAbs); err != nil {
			return fail("chattr +i: %v", err)
		}
		if f, err := os.OpenFile(o.OutAbs, os.O_WRONLY, 0); err == nil {
			f.Close()
			return fail("immutable file is still writable")
		}
	case c.State == "unwritable" && c.Mech == "chattr-dir":
		if !x.immOK {
			return fail("immutable flag unavailable: %s", x.immWhy)
		}
		if err := x.ims.Set(filepath.Dir(o.OutAbs)); err != nil {
			return fail("chattr +i (dir): %v", err)
		}
		if f, err := os.OpenFile(filepath.Join(filepath.Dir(o.OutAbs), "c15probe"), os.O_WRONLY|os.O_CREATE, 0o644); err == nil {
			f.Close()
			return fail("immutable directory still accepts new files")
		}
	case c.State == "unwritable":
		if !x.uidOK {
			return fail("uid %d runs unavailable: %s", c15Uid, x.uidWhy)
		}
		spec.Cred = &syscall.Credential{Uid: c15Uid, Gid: c15Uid, Groups: []uint32{c15Uid}}
		spec.Env = append(spec.Env, "HOME="+x.nbHome, "GOCACHE="+x.nbCache)
		_ = os.Chmod(tmp, 0o777)
		_ = os.Chmod(aux, 0o777)
	}
	spec.Env = append(spec.Env, c.In.Env...)
	if c.StdoutFull && !c.Strace {
		spec.Wrap = []string{"/bin/sh", "-c", `exec "$@" >/dev/full`, "sh"}
	}
	traceFile := filepath.Join(aux, "trace.txt")
	if c.Strace {
		if !x.straceOK {
			return fail("strace unavailable: %s", x.stWhy)
		}
		spec.Wrap = fsmon.StraceWrap(traceFile)
	}

	o.Pre, err = fsmon.Take(root, o.OutAbs, o.LogAbs)
	if err != nil {
		return fail("snapshot: %v", err)
	}
	o.Res = e.Run(spec)
	o.Post, err = fsmon.Take(root, o.OutAbs, o.LogAbs)
	// release the flags before anything else can go wrong
	if c.State == "immutable" {
		_ = x.ims.Clear(o.OutAbs)
	} else if c.Mech == "chattr-dir" {
		_ = x.ims.Clear(filepath.Dir(o.OutAbs))
	}
	if err != nil {
		return fail("snapshot after: %v", err)
	}
	if o.Res.StartErr != "" {
		return fail("start: %s", o.Res.StartErr)
	}
	if o.Res.TimedOut {
		return fail("watchdog")
	}
	o.Changes = fsmon.Diff(o.Pre, o.Post)
	o.Rewritten = fsmon.Rewritten(o.Pre, o.Post)
	_ = filepath.Walk(tmp, func(p string, info os.FileInfo, err error) error {
		if err == nil && p != tmp {
			r, _ := filepath.Rel(tmp, p)
			o.TmpLeft = append(o.TmpLeft, r)
		}
		return nil
	})
	if c.Strace {
		f, err := os.Open(traceFile)
		if err != nil {
			return fail("trace missing: %v (stderr: %s)", err, core.Trunc(o.Res.Stderr, 200))
		}
		tr, perr := fsmon.ParseTrace(f)
		f.Close()
		if perr != nil {
			return fail("trace parse: %v", perr)
		}
		if len(tr.Calls) == 0 || tr.Root == 0 {
			return fail("empty trace (stderr: %s)", core.Trunc(o.Res.Stderr, 200))
		}
		first := tr.Calls[0]
		if first.Name != "execve" || !strings.Contains(first.Raw, filepath.Base(e.Tool)) {
			return fail("trace does not start with the tool's execve: %s", core.Trunc(first.Raw, 200))
		}
		o.Events = tr.ToolWriteEvents(o.Cwd)
		o.TraceNote = fmt.Sprintf("calls=%d tids=%d orphans=%d garbage=%d", len(tr.Calls), len(tr.Seen), len(tr.Orphans()), len(tr.Garbage))
		if len(tr.Orphans()) > 0 || len(tr.Garbage) > 0 {
			x.rep.Count("strace_traces_with_orphans_or_garbage", 1)
		}
	}
	return o
}

// ---------------------------------------------------------------------------------------
// oracle

func c15Under(path, dir string) bool { return path == dir || strings.HasPrefix(path, dir+"/") }

func c15Where(o *c15Obs, in *c15Input, abs string) string {
	pkgDir := filepath.Join(o.Root, in.PkgRel)
	switch {
	case filepath.Dir(abs) == filepath.Dir(o.OutAbs):
		return "output-dir"
	case c15Under(abs, pkgDir):
		return "package-dir"
	case c15Under(abs, o.Root):
		return "module"
	case strings.Contains(abs, "/aux/tmp"):
		return "tmpdir"
	case strings.Contains(abs, "/gocache") || strings.Contains(abs, "/c15-nobody/"):
		return "gocache-or-home"
	case strings.HasPrefix(abs, "/tmp/"):
		return "tmp"
	case strings.HasPrefix(abs, "/dev/") || strings.HasPrefix(abs, "/proc/") || strings.HasPrefix(abs, "/sys/"):
		return "devproc"
	}
	return "elsewhere"
}

func c15NameClass(abs string) string {
	b := filepath.Base(abs)
	switch {
	case b == "setup.go":
		return "setup.go"
	case b == "go.mod" || b == "go.sum":
		return b
	case strings.HasSuffix(b, ".gen.go"):
		return "*.gen.go"
	case strings.HasSuffix(b, ".go"):
		return "*.go"
	case strings.HasSuffix(b, ".log"):
		return "*.log"
	case strings.HasSuffix(b, ".tmp") || strings.Contains(b, "tmp") || strings.Contains(b, "temp"):
		return "tmp-like"
	}
	return "other"
}

func (x *c15ctx) judge(c *c15Case, o *c15Obs) {
	rep := x.rep
	rep.Eval(1)
	if o.Infra != "" {
		rep.Inconclusive(fmt.Sprintf("%s: %s", c.ID, o.Infra))
		rep.Histo("inconclusive_state", c.State+"/"+c.Mech)
		return
	}
	exitClass := c15ExitClass(o.Res)
	exit0 := o.Res.Exit == 0 && !o.Res.Crashed()
	allowOut := !c.Dry && exit0
	allowLog := c.Log
	outKey, logKey, setupKey := o.Pre.Key(o.OutAbs), o.Pre.Key(o.LogAbs), o.Pre.Key(o.SetupAbs)
	abs := func(key string) string {
		if filepath.IsAbs(key) {
			return key
		}
		return filepath.Join(o.Root, filepath.FromSlash(key))
	}
	seen := map[string]bool{}
	violate := func(monitor, symptom string, feat map[string]string, detail string) {
		feat["exit"] = exitClass
		v := &core.Violation{Property: "C15", Monitor: monitor, Symptom: symptom, Features: feat, Case: c.ID,
			Detail: detail, Files: c15ReplayFiles(c, o)}
		if seen[v.Fingerprint()] {
			return
		}
		seen[v.Fingerprint()] = true
		rep.Violate(v)
	}
	why := "-dry"
	if !c.Dry {
		why = "failed-run"
	}

	// F1-F3: snapshot differences
	outEffect, logEffect := "unchanged", "unchanged"
	if _, ok := o.Pre.Entries[outKey]; !ok {
		outEffect = "absent"
	}
	if _, ok := o.Pre.Entries[logKey]; !ok {
		logEffect = "absent"
	}
	inputKey := o.Pre.Key(filepath.Join(filepath.Dir(o.SetupAbs), c.In.Input))
	for _, ch := range o.Changes {
		switch {
		case c.State == "alias" && (ch.Path == inputKey || ch.Path == setupKey):
			// the output path designates the input itself: "the setup file is never modified" decides
			violate("snapshot", "setup-file-modified", map[string]string{"change": ch.Kind, "alias": c.Mech},
				fmt.Sprintf("flags=%s exit=%d: %s", c.flagString(), o.Res.Exit, ch.String()))
		case c15Under(ch.Path, outKey):
			if ch.Path == outKey {
				outEffect = ch.Kind
			} else {
				outEffect = "below:" + ch.Kind
			}
			if !allowOut {
				violate("snapshot", "output-path-changed-by-"+why, map[string]string{"change": ch.Kind, "state": c.State},
					fmt.Sprintf("flags=%s exit=%d: %s", c.flagString(), o.Res.Exit, ch.String()))
			}
		case ch.Path == logKey:
			logEffect = ch.Kind
			if !allowLog {
				violate("snapshot", "log-path-changed-without-log-flag", map[string]string{"change": ch.Kind},
					fmt.Sprintf("flags=%s exit=%d: %s", c.flagString(), o.Res.Exit, ch.String()))
			}
		case ch.Path == setupKey:
			violate("snapshot", "setup-file-modified", map[string]string{"change": ch.Kind},
				fmt.Sprintf("flags=%s exit=%d: %s", c.flagString(), o.Res.Exit, ch.String()))
		case ch.Kind == "created" && ch.After != nil && ch.After.Type == "dir" &&
			(allowOut && c15Under(outKey, ch.Path) || allowLog && c15Under(logKey, ch.Path)):
			// a new directory above a path the run may write: the property is silent
			rep.Count("ancestor_dir_created_not_judged", 1)
		default:
			kind := "file"
			if ch.After != nil {
				kind = ch.After.Type
			} else if ch.Before != nil {
				kind = ch.Before.Type
			}
			violate("snapshot", "foreign-path-"+ch.Kind, map[string]string{"where": c15Where(o, c.In, abs(ch.Path)),
				"name": c15NameClass(ch.Path), "type": kind},
				fmt.Sprintf("flags=%s exit=%d state=%s: %s", c.flagString(), o.Res.Exit, c.State, ch.String()))
		}
	}
	if len(o.Rewritten) > 0 {
		// same bytes and mode, different inode/mtime: recorded, never judged
		for _, k := range o.Rewritten {
			if k != outKey && k != logKey {
				rep.Count("identical_rewrite_of_foreign_file_not_judged", 1)
			}
		}
	}

	// S1-S2: system calls of the tool itself
	if c.Strace {
		rep.Count("strace_cases", 1)
		for _, ev := range o.Events {
			if !ev.OK {
				rep.Count("strace_failed_write_attempts", 1)
				continue
			}
			if ev.FD == 1 || ev.FD == 2 {
				continue
			}
			for _, p := range ev.Paths {
				if fsmon.NotAFile(p) {
					continue
				}
				rep.Count("strace_write_events_on_files", 1)
				switch {
				case c15Under(p, o.OutAbs):
					if allowOut {
						continue
					}
					_, existed := o.Pre.Get(p)
					effective := true
					if strings.HasPrefix(ev.Syscall, "open") {
						effective = ev.Trunc || ev.Creat && !existed
					}
					if effective {
						violate("strace", "output-path-written-by-"+why, map[string]string{"syscall": ev.Syscall, "state": c.State},
							fmt.Sprintf("flags=%s exit=%d: %s", c.flagString(), o.Res.Exit, ev.String()))
					}
				case p == o.LogAbs:
					if !allowLog {
						violate("strace", "log-path-written-without-log-flag", map[string]string{"syscall": ev.Syscall},
							fmt.Sprintf("flags=%s exit=%d: %s", c.flagString(), o.Res.Exit, ev.String()))
					}
				case strings.HasPrefix(ev.Syscall, "mkdir") && (allowOut && c15Under(o.OutAbs, p) || allowLog && c15Under(o.LogAbs, p)):
					// a new directory above a path the run may write: the property is silent
					rep.Count("ancestor_dir_created_not_judged", 1)
				default:
					violate("strace", "foreign-path-written", map[string]string{"syscall": ev.Syscall, "where": c15Where(o, c.In, p), "name": c15NameClass(p)},
						fmt.Sprintf("flags=%s exit=%d state=%s: %s", c.flagString(), o.Res.Exit, c.State, ev.String()))
				}
			}
		}
	}

	// coverage
	mode := "snapshot"
	if c.Strace {
		mode = "snapshot+strace"
	}
	rep.Distinct(strings.Join([]string{c.In.Kind, exitClass, c.flagString(), c.State, c.Mech, "out:" + outEffect, "log:" + logEffect, mode}, "|"))
	rep.Histo("state", c.State+map[bool]string{true: "/" + c.Mech, false: ""}[c.Mech != ""])
	rep.Histo("flags", c.flagString())
	rep.Histo("input_kind", c.In.Kind)
	rep.Histo("exit_class", exitClass)
	rep.Histo("output_effect", outEffect)
	rep.Histo("log_effect", logEffect)
	rep.Histo("spelling", c.Spelling)
	if exit0 && !c.Dry && outEffect != "created" && outEffect != "content" {
		rep.Count("exit0_without_new_output_not_judged_here", 1)
	}
	kc := c.In.Kind
	key := fmt.Sprintf("state=%s%s dry=%v log=%v logpre=%v input=%s => exit=%s err=%q out=%s log=%s", c.State,
		map[bool]string{true: "/" + c.Mech, false: ""}[c.Mech != ""], c.Dry, c.Log, c.LogPre && c.State != "noparent", kc, exitClass, c15ErrClass(o.Res), outEffect, logEffect)
	x.mu.Lock()
	x.behav[key]++
	x.mu.Unlock()
	if c.Strace && c.State != "absent" {
		var evs []string
		for _, ev := range o.Events {
			if len(ev.Paths) > 0 && !fsmon.NotAFile(ev.Paths[0]) && ev.FD != 1 && ev.FD != 2 {
				evs = append(evs, ev.String())
			}
		}
		rep.Sample(map[string]any{"case": c.ID, "cwd": o.Cwd, "argv": o.Args, "state": c.State, "mechanism": c.Mech, "exit": o.Res.Exit,
			"stderr": core.Trunc(stripWarnings(o.Res.Stderr), 300), "changes": c15ChangeStrings(o), "tool_write_syscalls": c15Head(evs, 8), "trace": o.TraceNote}, 4)
	}
}

func c15Head(s []string, n int) []string {
	if len(s) > n {
		return append(append([]string{}, s[:n]...), fmt.Sprintf("... %d more", len(s)-n))
	}
	return s
}

func c15ChangeStrings(o *c15Obs) []string {
	var out []string
	for _, ch := range o.Changes {
		out = append(out, ch.String())
	}
	return out
}

func c15ReplayFiles(c *c15Case, o *c15Obs) map[string]string {
	files := map[string]string{}
	for rel, content := range c.In.Files {
		files[rel] = content
	}
	files["go.mod"] = "module " + scen.ModName + "\n\ngo 1.19\n"
	files["vtr/vtr.go"] = scen.VtrSrc
	files["ext/ext.go"] = scen.ExtSrc
	rel := func(p string) string {
		r, err := filepath.Rel(o.Root, p)
		if err != nil {
			return p
		}
		return r
	}
	var sb strings.Builder
	fmt.Fprintf(&sb, "case: %s\ninput kind: %s (%s)\n", c.ID, c.In.Kind, c.In.Name)
	fmt.Fprintf(&sb, "cwd: <module>/%s\nargv: convergen %s\n", rel(o.Cwd), strings.Join(o.Args, " "))
	fmt.Fprintf(&sb, "output path: <module>/%s\nlog path: <module>/%s\n", rel(o.OutAbs), rel(o.LogAbs))
	fmt.Fprintf(&sb, "pre-state of the output path: %s %s (sentinel=%s, log file present before=%v)\n", c.State, c.Mech, c.Sentinel, c.LogPre && c.State != "noparent")
	switch {
	case c.State == "immutable":
		sb.WriteString("  (write the sentinel to the output path, then chattr +i it)\n")
	case c.Mech == "chattr-dir":
		sb.WriteString("  (chattr +i on the directory of the output path)\n")
	case c.State == "unwritable":
		fmt.Fprintf(&sb, "  (run as uid/gid %d in the root-owned tree, HOME and GOCACHE writable)\n", c15Uid)
	case c.State == "dir":
		sb.WriteString("  (mkdir the output path and put keep.txt into it)\n")
	}
	fmt.Fprintf(&sb, "strace mode: %v %s\nexit=%d signal=%s\n\nchanges (before => after):\n", c.Strace, o.TraceNote, o.Res.Exit, o.Res.Signal)
	for _, s := range c15ChangeStrings(o) {
		sb.WriteString("  " + s + "\n")
	}
	if c.Strace {
		sb.WriteString("\nwrite-class syscalls of the tool itself:\n")
		for _, ev := range o.Events {
			sb.WriteString("  " + ev.String() + "\n")
		}
	}
	if len(o.TmpLeft) > 0 {
		fmt.Fprintf(&sb, "\nleft in the private TMPDIR: %v\n", o.TmpLeft)
	}
	files["run.txt"] = sb.String()
	files["stderr.txt"] = o.Res.Stderr
	files["stdout.txt"] = core.Trunc(o.Res.Stdout, 20000)
	return files
}

// ---------------------------------------------------------------------------------------
// environment probes

func (x *c15ctx) probes(ok *c15Input) {
	e := x.e
	// the tool, the case trees and the toolchain must be reachable by uid 65534
	_ = os.Chmod(e.Work, 0o755)
	x.nbHome = filepath.Join(e.Work, "c15-nobody", "home")
	x.nbCache = filepath.Join(e.Work, "c15-nobody", "gocache")
	for _, d := range []string{x.nbHome, x.nbCache} {
		_ = os.MkdirAll(d, 0o755)
		_ = os.Chown(d, c15Uid, c15Uid)
	}
	// immutable flag
	p := filepath.Join(x.base, "imm-probe")
	_ = os.WriteFile(p, []byte("x"), 0o644)
	if err := x.ims.Set(p); err != nil {
		x.immWhy = err.Error()
	} else if f, err := os.OpenFile(p, os.O_WRONLY, 0); err == nil {
		f.Close()
		x.immWhy = "flag set but file still writable"
	} else {
		x.immOK = true
	}
	_ = x.ims.Clear(p)
	_ = os.Remove(p)
	// uid 65534 and strace: run the hand-made accepted input with -dry
	root := filepath.Join(x.base, "probe", "mod")
	_ = scen.WriteModuleBase(root)
	_ = core.WriteTree(root, ok.Files)
	dir := filepath.Join(root, ok.PkgRel)
	// The uid probe must not depend on how the tool behaves (a tool that breaks the property
	// must not switch the fault state off): `go list` as uid 65534 with the private HOME and
	// GOCACHE, and the tool binary started as uid 65534 on a nonexistent input (any exit status;
	// it only has to be executable), both before the tool has run in the probe tree.
	cred := &syscall.Credential{Uid: c15Uid, Gid: c15Uid, Groups: []uint32{c15Uid}}
	nbEnv := []string{"HOME=" + x.nbHome, "GOCACHE=" + x.nbCache}
	gl := e.Run(core.RunSpec{Bin: "go", Args: []string{"list", "-tags", "convergen", "./..."}, Dir: root, WallSec: 120, Cred: cred, Env: nbEnv})
	r := e.Run(core.RunSpec{Args: []string{"-dry", "c15_probe_nosuch.go"}, Dir: dir, WallSec: 120, Cred: cred, Env: nbEnv})
	switch {
	case gl.StartErr != "" || r.StartErr != "":
		x.uidWhy = gl.StartErr + " " + r.StartErr
	case gl.Exit != 0:
		x.uidWhy = fmt.Sprintf("go list as uid %d exits %d: %s", c15Uid, gl.Exit, core.Trunc(gl.Stderr, 300))
	case r.Exit < 0:
		x.uidWhy = fmt.Sprintf("tool as uid %d: exit %d: %s", c15Uid, r.Exit, core.Trunc(r.Stderr, 300))
	default:
		x.uidOK = true
	}
	plain := e.Run(core.RunSpec{Args: []string{"-dry", ok.Input}, Dir: dir, WallSec: 120})
	tf := filepath.Join(x.base, "probe", "trace.txt")
	s := e.Run(core.RunSpec{Args: []string{"-dry", ok.Input}, Dir: dir, WallSec: 120, Wrap: fsmon.StraceWrap(tf)})
	if f, err := os.Open(tf); err != nil {
		x.stWhy = fmt.Sprintf("no trace: %v; %s %s", err, s.StartErr, core.Trunc(s.Stderr, 300))
	} else {
		tr, _ := fsmon.ParseTrace(f)
		f.Close()
		switch {
		case s.Exit != plain.Exit:
			x.stWhy = fmt.Sprintf("exit %d under strace, %d without: %s", s.Exit, plain.Exit, core.Trunc(s.Stderr, 300))
		case tr == nil || len(tr.Calls) < 10 || len(tr.Parent) == 0:
			x.stWhy = "trace has no process tree"
		default:
			x.straceOK = true
		}
	}
	_ = os.RemoveAll(filepath.Join(x.base, "probe"))
}

// ---------------------------------------------------------------------------------------
// the check

// RunC15 is the check for C15.
func RunC15(e *core.Env) int {
	rep := core.NewReport(e, "fault_enumeration",
		"input kinds (accepted / rejected early / rejected late / crashing, from the broad generator by observed outcome, + 13 hand-made inputs) "+
			"x all 16 combinations of -dry,-print,-log,-out x output-path pre-states {absent, present, immutable, directory in the way, missing parent (only with -out), "+
			"unwritable directory: uid 65534 / uid 65534 with existing file / chattr +i directory, -out designating the input file itself: same path / symbolic link / hard link}; every cell is run at least once; "+
			"a case is distinct by (input kind, observed exit class, flag combination, pre-state, mechanism, observed effect on the output path, observed effect on the log path, snapshot vs snapshot+strace)")
	rep.Assume("the designated output path is the -out value, else the input path with .gen inserted before the extension; the log path is the output path with its extension replaced by .log (C18's contract)",
		"processes the tool spawns (go list and descendants) are not 'the run' for the syscall oracle; whatever they change below the module root is still caught by the snapshot oracle",
		"directory mtimes and file times are not compared; verdicts depend on existence, type, mode, size and SHA-256 only",
		"mid-write faults (ENOSPC/EIO during the final write) are outside the property's fault model and not injected")
	x := &c15ctx{e: e, rep: rep, base: filepath.Join(e.Work, "c15"), ims: fsmon.NewImmutables(), behav: map[string]int{}}
	_ = os.MkdirAll(x.base, 0o755)
	// immutable files must never survive this function: deferred sweep + signal handler
	sweep := func() {
		x.ims.ClearAll()
		fsmon.SweepTree(x.base)
	}
	defer sweep()
	sig := make(chan os.Signal, 1)
	signal.Notify(sig, syscall.SIGINT, syscall.SIGTERM)
	defer signal.Stop(sig)
	go func() {
		if _, ok := <-sig; ok {
			sweep()
			e.Close()
			os.Exit(2)
		}
	}()

	hand := c15HandInputs()
	x.probes(hand[0])
	for _, p := range []struct {
		ok   bool
		n, w string
	}{{x.immOK, "chattr +i", x.immWhy}, {x.uidOK, "uid 65534 runs", x.uidWhy}, {x.straceOK, "strace", x.stWhy}} {
		if !p.ok {
			fmt.Printf("C15: %s not available in this sandbox: %s\n", p.n, p.w)
		}
	}

	thorough := e.Tier == "thorough"
	nBroad, perKind, reps, handReps, straceEvery := 96, 12, 2, 1, 0
	if thorough {
		nBroad, perKind, reps, handReps, straceEvery = 400, 60, 25, 3, 4
	}
	pool := x.broadPool(nBroad, perKind)
	type kindT struct {
		name   string
		inputs []*c15Input
		reps   int
	}
	var kinds []kindT
	for _, k := range []string{"acc", "rej-early", "rej-late", "crash"} {
		if len(pool[k]) == 0 {
			rep.Count("broad_kind_absent_"+k, 1)
			continue
		}
		n := reps
		if k == "acc" {
			n = 2 * reps // accepted inputs are the ones that reach the final write
		}
		kinds = append(kinds, kindT{k, pool[k], n})
	}
	for _, h := range hand {
		kinds = append(kinds, kindT{h.Kind, []*c15Input{h}, handReps})
	}

	// fixed case list
	var cases []*c15Case
	for ki, k := range kinds {
		for si, st := range c15States {
			var applicable []int
			for bits := 0; bits < 16; bits++ {
				if (st == "noparent" || st == "alias") && bits&8 == 0 {
					continue // a missing parent directory / the input itself can only be named with -out
				}
				applicable = append(applicable, bits)
			}
			// strace sample: three flag combinations per (kind, state) cell, rotating with the seed
			straceBits := map[int]bool{}
			for j := 0; j < 3; j++ {
				straceBits[applicable[(3*si+5*ki+int(e.Seed%97)+j*(len(applicable)/3+1))%len(applicable)]] = true
			}
			for _, bits := range applicable {
				for r := 0; r < k.reps; r++ {
					rnd := core.Rand(e.Seed, "c15case", k.name, bits, st, r)
					c := &c15Case{Idx: len(cases), In: k.inputs[rnd.Intn(len(k.inputs))], Bits: bits, State: st,
						Dry: bits&1 != 0, Print: bits&2 != 0, Log: bits&4 != 0, Out: bits&8 != 0}
					c.LogPre = rnd.Intn(2) == 0
					c.Sentinel = "go"
					if rnd.Intn(4) == 0 {
						c.Sentinel = "garbage"
					}
					c.Spelling = []string{"rel", "rel", "abs", "root", "sub", "symlink", "gofile"}[rnd.Intn(7)]
					if st == "unwritable" {
						c.Mech = []string{"uid", "uid+present", "chattr-dir", "uid-rofile"}[(bits+r+rnd.Intn(4))%4]
					}
					if st == "dir" && (bits+r+ki)%2 == 1 {
						c.Mech = "empty" // an EMPTY directory in the way (removable by a careless clean-up)
					}
					if st == "alias" {
						c.Mech = []string{"same", "symlink", "hardlink"}[(bits/2+r+ki)%3]
					}
					c.Strace = r == 0 && straceBits[bits] || straceEvery > 0 && c.Idx%straceEvery == 0
					c.StdoutFull = c.Print && !c.Strace && (bits+si+ki+r)%3 == 1
					c.LogDev = c.Log && c.LogPre && !c.Strace && (bits+si+ki+r)%3 == 2
					c.ID = fmt.Sprintf("%s/%s/%s/%s%s/%s/r%d%s", k.name, c.In.Name, c.flagString(), st,
						map[bool]string{true: "-" + c.Mech, false: ""}[c.Mech != ""], c.Spelling, r, map[bool]string{true: "/stdout-full", false: ""}[c.StdoutFull]) + map[bool]string{true: "/log-devnull", false: ""}[c.LogDev]
					cases = append(cases, c)
				}
			}
		}
	}
	rep.Count("cases", len(cases))
	rep.Count("cells_not_applicable_noparent_or_alias_without_out", 16*len(kinds))
	rep.Exhaustive(true)

	e.Parallel(len(cases), func(i int) {
		c := cases[i]
		o := x.runCase(c)
		x.judge(c, o)
		if o.Infra == "" && !c.Strace && len(o.TmpLeft) > 0 {
			// something was left in the private TMPDIR: find out who created it
			rep.Count("escalated_to_strace_because_tmpdir_not_empty", 1)
			c2 := *c
			c2.Strace, c2.Escal = true, true
			c2.ID += "/escalated"
			x.judge(&c2, x.runCase(&c2))
		}
	})
	sweep()

	// behaviour table for the evidence (what the tool does in each pre-state)
	keys := make([]string, 0, len(x.behav))
	for k := range x.behav {
		keys = append(keys, k)
	}
	sort.Strings(keys)
	var table []string
	for _, k := range keys {
		table = append(table, fmt.Sprintf("%s  [x%d]", k, x.behav[k]))
	}
	rep.Extra("behaviour_by_prestate", table)
	rep.Extra("mechanisms_available", map[string]bool{"chattr_immutable": x.immOK, "uid_65534": x.uidOK, "strace": x.straceOK})
	if n := fsmon.SweepTree(x.base); n > 0 {
		rep.Count("immutable_flags_cleared_by_final_sweep", n)
	}
	return rep.Finish()
}
