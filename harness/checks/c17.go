package checks

import (
	"fmt"
	"regexp"
	"sort"
	"strings"

	"vh/core"
	"vh/outmon"
	"vh/scen"
)

var reNotationLine17 = regexp.MustCompile(`^\s*//\s*:[a-z]`)

func init() { Registry["C17"] = RunC17 }

// judgeC17 applies the selection oracle to one case.
func judgeC17(rep *core.Report, c *CaseResult) {
	s := c.S
	rep.Eval(1)
	if c.Run.TimedOut {
		rep.Inconclusive("watchdog " + s.ID)
		return
	}
	vec := s.Features["layout.vector"]
	kinds := map[string]bool{}
	for _, p := range strings.Split(vec, ",") {
		if strings.HasPrefix(p, "plain") || p == "sibling" || p == "no-iface" || strings.HasPrefix(p, "pkgdoc") || p == "docless" {
			kinds[p] = true
		}
	}
	feat := map[string]string{"kinds": strings.Join(outmon.SortedKeys(kinds), "+")}
	viol := func(sym, detail string) {
		rep.Violate(&core.Violation{Property: "C17", Monitor: "selection", Symptom: sym, Features: feat, Case: s.ID, Detail: detail, Files: c.ReplayFiles()})
	}
	convs := s.Converters()
	if len(convs) == 0 {
		// no converter interface in the input file: must be rejected with a diagnostic
		switch {
		case c.Run.Crashed():
			viol("crash", core.Trunc(c.Run.Stderr, 500))
		case c.Run.Exit == 0:
			viol("accepted-without-converter-interface", "the input file declares no converter interface but the run succeeded; functions in output: "+fmt.Sprint(planKeys(c)))
		case strings.TrimSpace(c.Run.Stderr) == "":
			viol("rejected-without-diagnostic", "exit "+fmt.Sprint(c.Run.Exit)+" with empty stderr")
		default:
			rep.Distinct("rejected|" + feat["kinds"])
			rep.Count("files_without_converter_rejected", 1)
		}
		return
	}
	if c.Run.Exit != 0 {
		feat["stderr"] = stderrClass(c.Run.Stderr)
		viol("rejected", fmt.Sprintf("file with %d converter interface(s) rejected (exit %d): %s", len(convs), c.Run.Exit, core.Trunc(c.Run.Stderr, 500)))
		return
	}
	if c.Out == nil {
		rep.Inconclusive("no output " + s.ID)
		return
	}
	in, err1 := outmon.ParseStruct([]byte(s.Files[s.Setup]))
	out, err2 := outmon.ParseStruct(c.Out)
	if err1 != nil || err2 != nil {
		rep.Inconclusive(fmt.Sprintf("parse: %v %v", err1, err2))
		return
	}
	// functions that are not carried over from the input = generated
	inFuncs := map[string]bool{}
	for _, d := range in.Decls {
		if d.Kind == "func" {
			inFuncs[d.Key()] = true
		}
	}
	var gen []string
	for _, d := range out.Decls {
		if d.Kind == "func" && !inFuncs[d.Key()] {
			k := d.Names[0]
			if d.Recv != "" {
				k = d.Recv + "." + k
			}
			gen = append(gen, k)
		}
	}
	sort.Strings(gen)
	want := ExpectedFuncKeys(s)
	if strings.Join(gen, ",") != strings.Join(want, ",") {
		extra, missing := diffSorted(gen, want)
		sym := "function-set-mismatch"
		if len(extra) > 0 && len(missing) == 0 {
			sym = "functions-for-unmarked-or-foreign-interface"
		} else if len(missing) > 0 && len(extra) == 0 {
			sym = "marked-interface-not-converted"
		}
		viol(sym, fmt.Sprintf("generated functions %v, expected %v (extra %v, missing %v)", gen, want, extra, missing))
		return
	}
	// every other interface of the input file survives, byte-identical after gofmt
	conv := map[string]bool{}
	for _, it := range convs {
		conv[it.Name] = true
	}
	for _, d := range in.Decls {
		if !d.IsIface {
			continue
		}
		name := d.Names[0]
		od := out.DeclByKey(d.Key())
		if conv[name] {
			if od != nil {
				viol("converter-interface-left-in-output", "interface "+name+" is still declared in the output")
			}
			continue
		}
		if od == nil {
			viol("unmarked-interface-removed", "interface "+name+" of the input file is not in the output")
			continue
		}
		if od.Text != d.Text && strings.HasSuffix(od.Text, "\n"+d.Text) {
			// the interface itself is intact but its doc comment gained lines: where do they come from?
			stray := strings.Split(strings.TrimSuffix(od.Text, "\n"+d.Text), "\n")
			from := "unknown"
			all := true
			for _, l := range stray {
				ok := false
				for _, cm := range in.Comments {
					if strings.TrimSpace(cm.Text) == strings.TrimSpace(l) && strings.Contains(l, "closing brace") {
						ok = true
					}
				}
				if !ok {
					all = false
				}
			}
			if all {
				from = "trailing-comment-of-converter-closing-brace"
			}
			feat2 := map[string]string{"kinds": feat["kinds"], "stray_from": from}
			rep.Violate(&core.Violation{Property: "C17", Monitor: "selection", Symptom: "unmarked-interface-doc-gained-foreign-comment", Features: feat2, Case: s.ID,
				Detail: fmt.Sprintf("interface %s: doc comment gained %q", name, stray), Files: c.ReplayFiles()})
			continue
		}
		if od.Text != d.Text && strings.HasPrefix(name, "Base") && strings.Contains(s.Features["layout.vector"], "embeds-plain-notated") {
			// an ordinary interface that a converter interface embeds: the notation lines on its methods act as
			// notations of generated functions, which C11 wants absent from the output; compared modulo them
			strip := func(t string) string {
				var kept []string
				for _, l := range strings.Split(t, "\n") {
					if !reNotationLine17.MatchString(l) && strings.TrimSpace(l) != "" {
						kept = append(kept, l)
					}
				}
				return strings.Join(kept, "\n")
			}
			if strip(od.Text) == strip(d.Text) {
				// same lines; a blank line in front of the method where the removed notation line stood means the
				// remaining doc lines are no longer attached to the method (KF-C17-embedded-method-doc-detached)
				detached := false
				ol := strings.Split(od.Text, "\n")
				for i := 1; i+1 < len(ol); i++ {
					if strings.TrimSpace(ol[i]) == "" && strings.HasPrefix(strings.TrimSpace(ol[i-1]), "//") && !strings.HasPrefix(strings.TrimSpace(ol[i+1]), "//") && strings.TrimSpace(ol[i+1]) != "" {
						detached = true
					}
				}
				if detached {
					rep.Violate(&core.Violation{Property: "C17", Monitor: "selection", Symptom: "embedded-method-doc-detached", Features: map[string]string{"doc_followed_by_notation": "true"}, Case: s.ID,
						Detail: fmt.Sprintf("interface %s (embedded by a converter interface): after removal of the notation line that ended a method comment the rest of that comment is no longer attached to the method:\n--- input:\n%s\n--- output:\n%s", name, d.Text, od.Text), Files: c.ReplayFiles()})
					continue
				}
				rep.Count("unmarked_interfaces_intact", 1)
				rep.Count("embedded_plain_interface_compared_modulo_notation_lines", 1)
				continue
			}
		}
		if od.Text != d.Text {
			// go:generate directives must go (C11); compare modulo those lines
			var kept []string
			hadGen := false
			for _, l := range strings.Split(d.Text, "\n") {
				if reGenerate.MatchString(l) {
					hadGen = true
					continue
				}
				kept = append(kept, l)
			}
			if hadGen && strings.Join(kept, "\n") == od.Text {
				rep.Count("unmarked_interfaces_intact", 1)
				continue
			}
			if hadGen && strings.HasSuffix(strings.Join(kept, "\n"), "\n"+od.Text) || hadGen && strings.HasSuffix(strings.Join(kept, "\n"), od.Text) {
				// the remaining doc lines were detached from the interface (same defect as KF-C11-doc-detached-by-go-generate)
				rep.Violate(&core.Violation{Property: "C17", Monitor: "selection", Symptom: "unmarked-interface-doc-detached", Features: map[string]string{"doc_followed_by_go_generate": "true"}, Case: s.ID,
					Detail: fmt.Sprintf("interface %s: after removal of the go:generate line the rest of its doc comment is no longer attached:\n--- input:\n%s\n--- output:\n%s", name, d.Text, od.Text), Files: c.ReplayFiles()})
				continue
			}
		}
		if od.Text != d.Text {
			viol("unmarked-interface-changed", fmt.Sprintf("interface %s changed:\n--- input (gofmt):\n%s\n--- output:\n%s", name, d.Text, od.Text))
			continue
		}
		rep.Count("unmarked_interfaces_intact", 1)
	}
	rep.Count("files_selected_correctly", 1)
	rep.Distinct(fmt.Sprintf("%s|conv=%d", feat["kinds"], len(convs)))
}

func diffSorted(a, b []string) (onlyA, onlyB []string) {
	ma, mb := map[string]int{}, map[string]int{}
	for _, x := range a {
		ma[x]++
	}
	for _, x := range b {
		mb[x]++
	}
	for x, n := range ma {
		if n > mb[x] {
			onlyA = append(onlyA, x)
		}
	}
	for x, n := range mb {
		if n > ma[x] {
			onlyB = append(onlyB, x)
		}
	}
	sort.Strings(onlyA)
	sort.Strings(onlyB)
	return
}

// RunC17 is the check for C17.
func RunC17(e *core.Env) int {
	rep := core.NewReport(e, "exploration",
		"generated files with any mix of Convergen-named, :convergen-marked (marker first/middle/last in the doc group, with/without space after //), unmarked, marker-detached-by-blank-line, marker-as-trailing-comment, near-miss (:convergence, lower-case convergen) "+
			"interfaces; :convergen and notation-looking lines in the package doc comment; doc-less interfaces; sibling files of the package that contain marked/Convergen interfaces; files with no converter interface. Oracle: generated functions (functions of the output that the input file does not declare) "+
			"= union of the methods of the converter interfaces of the INPUT FILE; every other interface of the input file present and byte-identical after gofmt; nothing from sibling files; no converter interface => exit != 0 with a diagnostic. "+
			"distinct non-trivial = (set of special interface kinds present, number of converter interfaces) with the oracle holding")
	n := 500
	if e.Tier == "thorough" {
		n = 8000
	}
	{
		setup := "//go:build convergen\n\npackage sc\n\ntype A struct{ X int }\n\ntype B struct{ X int }\n\ntype Convergen interface {\n\tConv(*A) *B\n}\n\n// c001 doc of Other\n//go:generate echo hello\ntype Other interface {\n\tDo(x int) string\n}\n"
		s := &scen.Scenario{ID: "kw-c17-generate", PkgRel: "kwc17a", PkgName: "sc", InConv: true, Files: map[string]string{}}
		s.Setup = s.PkgRel + "/setup.go"
		s.Files[s.Setup] = setup
		s.Files[s.PkgRel+"/types.go"] = "package sc\n"
		s.Ifaces = []*scen.Iface{{Name: "Convergen", Converter: true, Methods: []*scen.Method{{Name: "Conv", Src: scen.Param{Type: "*A"}, Dst: scen.Param{Type: "*B"}}}},
			{Name: "Other", Converter: false, Methods: []*scen.Method{{Name: "Do", Src: scen.Param{Type: "int"}, Dst: scen.Param{Type: "string"}}}}}
		s.Feature("layout.vector", "corpus")
		// witness of KF-C17-embedded-method-doc-detached: an ordinary interface embedded by the converter interface
		// whose method comment ENDS with a notation line
		setup2 := "//go:build convergen\n\npackage sc\n\ntype A struct{ X int }\n\ntype B struct{ X int }\n\ntype Base1 interface {\n\t// c001 doc of Via\n\t// :typecast\n\tVia(*A) *B\n}\n\ntype Convergen interface {\n\tBase1\n\tConv(*A) *B\n}\n"
		s2 := &scen.Scenario{ID: "kw-c17-embedded-doc", PkgRel: "kwc17b", PkgName: "sc", InConv: true, Files: map[string]string{}}
		s2.Setup = s2.PkgRel + "/setup.go"
		s2.Files[s2.Setup] = setup2
		s2.Files[s2.PkgRel+"/types.go"] = "package sc\n"
		via1 := &scen.Method{Name: "Via", Src: scen.Param{Type: "*A"}, Dst: scen.Param{Type: "*B"}, Notations: []scen.Notation{scen.N("typecast")}, DocLines: []string{"// c001 doc of Via"}}
		s2.Ifaces = []*scen.Iface{{Name: "Base1", Converter: false, Methods: []*scen.Method{via1}},
			{Name: "Convergen", Converter: true, Methods: []*scen.Method{via1, {Name: "Conv", Src: scen.Param{Type: "*A"}, Dst: scen.Param{Type: "*B"}}}}}
		s2.Feature("layout.vector", "corpus,embeds-plain-notated,embeds-plain")
		if cb, err := NewBatch(e, "corpus", []*scen.Scenario{s, s2}); err == nil {
			cb.RunTool(e, true)
			for _, c := range cb.Cases {
				judgeC17(rep, c)
			}
		}
	}
	// a third of the files are reached through a symbolic link to the module root (as an absolute path
	// from outside, or as the working directory): which interfaces belong to "the input file" must not
	// depend on how its path is spelled
	via := func(i int) string { return []string{"", "symlink-abs", "", "", "symlink-cwd", ""}[i%6] }
	runBroadBatchesVia(e, rep, "select", n, 250, via, func(c *CaseResult) {
		rep.Histo("input_reached_via", map[bool]string{true: "plain", false: c.Via}[c.Via == ""])
		judgeC17(rep, c)
		if c.Run.Exit == 0 && len(c.S.Ifaces) > len(c.S.Converters()) {
			rep.Sample(map[string]any{"case": c.S.ID, "setup": core.Trunc(c.S.Files[c.S.Setup], 1500), "generated": ExpectedFuncKeys(c.S)}, 2)
		}
	})
	return rep.Finish()
}

var _ = scen.ModName
