package checks

// Generators and text utilities for the C19 check: small-scope string enumeration, a random
// regexp grammar whose productions can also sample strings that are likely to match,
// a tokenizer of regexp text into deletion units for shrinking, and the classifier that
// names the case-sensitive constructs of a (shrunk) failing input.

import (
	"fmt"
	"math/rand"
	"sort"
	"strings"
	"unicode"
	"unicode/utf8"
)

// c19FullAlphabet is the alphabet of DESIGN C19 (a): ASCII letters of both cases, the
// separators of destination paths, a digit and the letters whose case folding is special.
var c19FullAlphabet = []rune{'a', 'A', 'b', 'B', '.', '_', '1', 'ſ', 'K', 'σ', 'ς', 'Σ', 'İ', 'ı', 'é', 'É'}

// c19AsciiAlphabet is its ASCII subset.
var c19AsciiAlphabet = []rune{'a', 'A', 'b', 'B', '.', '_', '1'}

// c19Strings enumerates all strings over alpha with minLen <= length <= maxLen, shortest first.
func c19Strings(alpha []rune, minLen, maxLen int) []string {
	var out []string
	level := []string{""}
	for l := 0; l <= maxLen; l++ {
		if l >= minLen {
			out = append(out, level...)
		}
		if l == maxLen {
			break
		}
		next := make([]string, 0, len(level)*len(alpha))
		for _, s := range level {
			for _, c := range alpha {
				next = append(next, s+string(c))
			}
		}
		level = next
	}
	return out
}

// ---------------------------------------------------------------------------------------
// random regexps

type c19Re struct {
	Text   string
	Sample func(r *rand.Rand) string
	Feats  []string
}

var c19LitRunes = []rune("abcxyzkskiABCXYZKSI019_ -ſKσςΣİıéÉßÀ")
var c19PathRunes = []rune("abcxyzksiABCXYZKSI0195_ .-\tſKσςΣİıéÉßÀ日")

func c19SwapCase(r *rand.Rand, c rune) rune {
	switch {
	case (c == 's' || c == 'S') && r.Intn(4) == 0:
		return 'ſ'
	case (c == 'k' || c == 'K') && r.Intn(4) == 0:
		return 'K'
	case c == 'σ' && r.Intn(2) == 0:
		return 'ς'
	case unicode.IsUpper(c):
		return unicode.ToLower(c)
	case unicode.IsLower(c):
		return unicode.ToUpper(c)
	}
	return c
}

func c19Const(s string) func(*rand.Rand) string { return func(*rand.Rand) string { return s } }

func c19Pick(r *rand.Rand, s string) func(*rand.Rand) string {
	rs := []rune(s)
	return func(r *rand.Rand) string { return string(rs[r.Intn(len(rs))]) }
}

const c19Meta = `\.+*?()|[]{}^$`

func c19QuoteRune(c rune) string {
	if strings.ContainsRune(c19Meta, c) {
		return `\` + string(c)
	}
	return string(c)
}

type c19Gen struct {
	r *rand.Rand
}

func (g *c19Gen) atom(depth int) c19Re {
	r := g.r
	n := r.Intn(100)
	switch {
	case n < 30: // literal
		c := c19LitRunes[r.Intn(len(c19LitRunes))]
		f := "lit"
		if c >= utf8.RuneSelf {
			f = "lit-nonascii"
		} else if unicode.IsUpper(c) {
			f = "lit-upper"
		}
		return c19Re{c19QuoteRune(c), c19Const(string(c)), []string{f}}
	case n < 34:
		return c19Re{".", func(r *rand.Rand) string { return string(c19PathRunes[r.Intn(len(c19PathRunes))]) }, []string{"dot"}}
	case n < 46: // perl classes
		type pc struct{ t, members string }
		l := []pc{{`\d`, "0159"}, {`\D`, "aZ_ .é"}, {`\w`, "aZ_09k"}, {`\W`, " .-éσ"}, {`\s`, " \t"}, {`\S`, "aZ0_.é"}}
		p := l[r.Intn(len(l))]
		return c19Re{p.t, c19Pick(r, p.members), []string{p.t}}
	case n < 56: // unicode classes
		type pc struct{ t, members string }
		l := []pc{{`\pL`, "aZéσ日"}, {`\PL`, "0_ .-"}, {`\p{Lu}`, "AZÉΣ"}, {`\p{Ll}`, "azéσς"}, {`\P{Lu}`, "az0_ "},
			{`\pN`, "059"}, {`\p{Greek}`, "σςΣ"}, {`\p{^Lu}`, "az0_"}, {`\pZ`, " "}, {`\P{Ll}`, "AZ0_"}, {`\p{L}`, "aZé"}}
		p := l[r.Intn(len(l))]
		return c19Re{p.t, c19Pick(r, p.members), []string{"unicode-class", p.t}}
	case n < 61: // hex / octal escapes
		type hx struct{ t, s string }
		l := []hx{{`\x41`, "A"}, {`\x4A`, "J"}, {`\x4a`, "J"}, {`\x6A`, "j"}, {`\x6a`, "j"}, {`\x{4A}`, "J"}, {`\x{212A}`, "K"},
			{`\x{17F}`, "ſ"}, {`\101`, "A"}, {`\x5F`, "_"}, {`\x2E`, "."}}
		h := l[r.Intn(len(l))]
		return c19Re{h.t, c19Const(h.s), []string{"hex-escape"}}
	case n < 65: // \Q..\E
		var sb strings.Builder
		k := 1 + r.Intn(3)
		src := []rune("abAB.+*(kKsS_1éÉ")
		for i := 0; i < k; i++ {
			sb.WriteRune(src[r.Intn(len(src))])
		}
		return c19Re{`\Q` + sb.String() + `\E`, c19Const(sb.String()), []string{`\Q..\E`}}
	case n < 80: // bracket class
		return g.class()
	case n < 86: // anchors / boundaries
		l := []string{"^", "$", `\A`, `\z`, `\b`, `\B`}
		t := l[r.Intn(len(l))]
		return c19Re{t, c19Const(""), []string{"anchor", t}}
	default:
		if depth <= 0 {
			return c19Re{"a", c19Const("a"), []string{"lit"}}
		}
		inner := g.expr(depth - 1)
		type gp struct{ open, feat string }
		l := []gp{{"(", "group"}, {"(?:", "group-nocapture"}, {"(?i:", "flag-i"}, {"(?-i:", "flag-neg-i"}, {"(?s:", "flag-s"},
			{"(?U:", "flag-U"}, {"(?P<Name>", "named-group"}, {"(?P<n>", "named-group"}, {"(?m:", "flag-m"}}
		p := l[r.Intn(len(l))]
		return c19Re{p.open + inner.Text + ")", inner.Sample, append([]string{p.feat}, inner.Feats...)}
	}
}

func (g *c19Gen) class() c19Re {
	r := g.r
	type item struct{ t, members, feat string }
	pool := []item{
		{"a", "a", ""}, {"b", "b", ""}, {"A", "A", "class-upper"}, {"Z", "Z", "class-upper"}, {"k", "k", ""}, {"S", "S", "class-upper"},
		{"_", "_", ""}, {`\.`, ".", ""}, {"0", "0", ""}, {"é", "é", "class-nonascii"}, {"σ", "σ", "class-nonascii"}, {"ſ", "ſ", "class-nonascii"},
		{"a-z", "amz", "class-range"}, {"A-Z", "AMZ", "class-range-upper"}, {"0-9", "059", "class-range"}, {"a-f", "af", "class-range"},
		{"A-F", "AF", "class-range-upper"}, {"A-z", "AZ_az", "class-range-upper"}, {"α-ω", "ασω", "class-nonascii"}, {"Α-Ω", "ΑΣΩ", "class-nonascii"},
		{`\d`, "05", `class-\d`}, {`\w`, "aZ_0", `class-\w`}, {`\s`, " ", `class-\s`}, {`\D`, "aZ_", `class-\D`}, {`\W`, " .-", `class-\W`}, {`\S`, "aZ0", `class-\S`},
		{"[:alpha:]", "aZ", "class-posix"}, {"[:upper:]", "AZ", "class-posix"}, {"[:^lower:]", "AZ0_", "class-posix"}, {"[:digit:]", "05", "class-posix"},
		{`\pL`, "aZé", `class-\pL`}, {`\p{Lu}`, "AZÉ", `class-\p{Lu}`}, {`\PL`, "0_ ", `class-\PL`}, {`\x41`, "A", "class-hex"},
	}
	neg := r.Intn(3) == 0
	k := 1 + r.Intn(3)
	var sb strings.Builder
	sb.WriteString("[")
	feats := []string{"class"}
	if neg {
		sb.WriteString("^")
		feats = []string{"class-negated"}
	}
	var members []rune
	for i := 0; i < k; i++ {
		it := pool[r.Intn(len(pool))]
		sb.WriteString(it.t)
		members = append(members, []rune(it.members)...)
		if it.feat != "" {
			feats = append(feats, it.feat)
		}
	}
	sb.WriteString("]")
	sample := func(r *rand.Rand) string {
		if neg {
			return string(c19PathRunes[r.Intn(len(c19PathRunes))])
		}
		return string(members[r.Intn(len(members))])
	}
	return c19Re{sb.String(), sample, feats}
}

func (g *c19Gen) repeat(a c19Re) c19Re {
	r := g.r
	type rp struct {
		op       string
		min, max int
	}
	l := []rp{{"*", 0, 3}, {"+", 1, 3}, {"?", 0, 1}, {"*?", 0, 2}, {"+?", 1, 2}, {"??", 0, 1}, {"{2}", 2, 2}, {"{1,3}", 1, 3}, {"{0,}", 0, 2}, {"{2,}", 2, 3}}
	p := l[r.Intn(len(l))]
	if a.Text == "" || strings.HasPrefix(a.Text, "^") || a.Text == "$" || a.Text == `\A` || a.Text == `\z` || a.Text == `\b` || a.Text == `\B` {
		return a // repetition of an empty-width atom is legal but uninteresting; keep the grammar valid
	}
	inner := a.Sample
	return c19Re{a.Text + p.op, func(r *rand.Rand) string {
		n := p.min + r.Intn(p.max-p.min+1)
		var sb strings.Builder
		for i := 0; i < n; i++ {
			sb.WriteString(inner(r))
		}
		return sb.String()
	}, append([]string{"repeat"}, a.Feats...)}
}

func (g *c19Gen) concat(depth int) c19Re {
	r := g.r
	k := 1 + r.Intn(4)
	var parts []c19Re
	for i := 0; i < k; i++ {
		a := g.atom(depth)
		if r.Intn(4) == 0 {
			a = g.repeat(a)
		}
		parts = append(parts, a)
	}
	var sb strings.Builder
	var feats []string
	for _, p := range parts {
		sb.WriteString(p.Text)
		feats = append(feats, p.Feats...)
	}
	return c19Re{sb.String(), func(r *rand.Rand) string {
		var sb strings.Builder
		for _, p := range parts {
			sb.WriteString(p.Sample(r))
		}
		return sb.String()
	}, feats}
}

func (g *c19Gen) expr(depth int) c19Re {
	a := g.concat(depth)
	if g.r.Intn(5) == 0 {
		b := g.concat(depth)
		return c19Re{a.Text + "|" + b.Text, func(r *rand.Rand) string {
			if r.Intn(2) == 0 {
				return a.Sample(r)
			}
			return b.Sample(r)
		}, append(append([]string{"alternation"}, a.Feats...), b.Feats...)}
	}
	return a
}

var c19Invalid = []string{"(", ")", "[a", `\Z`, `\C`, `\pz`, `\pX`, "a**", "a{2,1}", `\8`, "(?z)", "[z-a]", `\`, "(?P<n>", "a{1001}", `\E`, "[[:word:]]x{2,1}", "(?i", `\p{Nope}`, "+"}

// top generates one regexp body; about 4 % are deliberately invalid.
func (g *c19Gen) top() c19Re {
	r := g.r
	e := g.expr(2)
	switch r.Intn(25) {
	case 0:
		bad := c19Invalid[r.Intn(len(c19Invalid))]
		if r.Intn(2) == 0 {
			return c19Re{e.Text + bad, e.Sample, append([]string{"invalid"}, e.Feats...)}
		}
		return c19Re{bad + e.Text, e.Sample, append([]string{"invalid"}, e.Feats...)}
	case 1, 2:
		fl := []string{"(?i)", "(?s)", "(?U)", "(?m)", "(?-i)", "(?is)"}[r.Intn(6)]
		return c19Re{fl + e.Text, e.Sample, append([]string{"flag-prefix" + fl}, e.Feats...)}
	case 3, 4, 5:
		return c19Re{"^" + e.Text + "$", e.Sample, append([]string{"anchored"}, e.Feats...)}
	}
	return e
}

// c19Paths derives n subject strings for a regexp: samples of the grammar, with context, case
// perturbation and point mutations, plus a few unrelated strings.
func c19Paths(r *rand.Rand, re c19Re, n int) []string {
	var out []string
	randStr := func(k int) string {
		var sb strings.Builder
		for i := 0; i < k; i++ {
			sb.WriteRune(c19PathRunes[r.Intn(len(c19PathRunes))])
		}
		return sb.String()
	}
	for i := 0; i < n; i++ {
		switch r.Intn(12) {
		case 0:
			out = append(out, randStr(r.Intn(5)))
			continue
		case 1:
			out = append(out, "")
			continue
		}
		s := re.Sample(r)
		if r.Intn(2) == 0 {
			s = randStr(r.Intn(3)) + s
		}
		if r.Intn(2) == 0 {
			s += randStr(r.Intn(3))
		}
		rs := []rune(s)
		if r.Intn(5) < 2 {
			for k := range rs {
				if r.Intn(2) == 0 {
					rs[k] = c19SwapCase(r, rs[k])
				}
			}
		}
		if len(rs) > 0 && r.Intn(5) == 0 {
			rs[r.Intn(len(rs))] = c19PathRunes[r.Intn(len(c19PathRunes))]
		}
		out = append(out, string(rs))
	}
	return out
}

// ---------------------------------------------------------------------------------------
// shrinking support

// c19IsRegexpForm tells whether a :skip pattern is in /regexp/ form.
func c19IsRegexpForm(p string) bool {
	return len(p) >= 2 && strings.HasPrefix(p, "/") && strings.HasSuffix(p, "/")
}

// c19Units splits regexp text into deletion units: escape sequences, flag/group openers,
// counted repetitions, posix class names, single runes.
func c19Units(s string) []string {
	var u []string
	rs := []rune(s)
	isHex := func(c rune) bool { return strings.ContainsRune("0123456789abcdefABCDEF", c) }
	for i := 0; i < len(rs); {
		c := rs[i]
		j := i + 1
		switch {
		case c == '\\' && i+1 < len(rs):
			n := rs[i+1]
			j = i + 2
			switch {
			case (n == 'p' || n == 'P' || n == 'x') && j < len(rs) && rs[j] == '{':
				for j < len(rs) && rs[j] != '}' {
					j++
				}
				if j < len(rs) {
					j++
				}
			case (n == 'p' || n == 'P') && j < len(rs):
				j++
			case n == 'x':
				for k := 0; k < 2 && j < len(rs) && isHex(rs[j]); k++ {
					j++
				}
			case n >= '0' && n <= '7':
				for k := 0; k < 2 && j < len(rs) && rs[j] >= '0' && rs[j] <= '7'; k++ {
					j++
				}
			}
		case c == '(' && i+1 < len(rs) && rs[i+1] == '?':
			// (?flags) | (?flags: | (?P<name>
			k := i + 2
			for k < len(rs) && k < i+24 && rs[k] != ')' && rs[k] != ':' && rs[k] != '>' && rs[k] != '(' {
				k++
			}
			if k < len(rs) && (rs[k] == ':' || rs[k] == '>' || rs[k] == ')') {
				j = k + 1
			}
		case c == '[' && i+1 < len(rs) && rs[i+1] == ':':
			k := i + 2
			for k+1 < len(rs) && k < i+12 && !(rs[k] == ':' && rs[k+1] == ']') {
				k++
			}
			if k+1 < len(rs) && rs[k] == ':' && rs[k+1] == ']' {
				j = k + 2
			}
		case c == '{':
			k := i + 1
			for k < len(rs) && k < i+12 && (rs[k] == ',' || rs[k] >= '0' && rs[k] <= '9') {
				k++
			}
			if k < len(rs) && rs[k] == '}' && k > i+1 {
				j = k + 1
			}
		}
		u = append(u, string(rs[i:j]))
		i = j
	}
	return u
}

// c19DeleteCandidates returns strictly shorter variants of units: windows of 8/4/2/1 units
// removed, and matching bracket pairs (group, class, \Q..\E) unwrapped. Larger deletions first.
func c19DeleteCandidates(units []string, brackets bool) []string {
	var out []string
	seen := map[string]bool{}
	add := func(parts ...[]string) {
		var sb strings.Builder
		for _, p := range parts {
			for _, x := range p {
				sb.WriteString(x)
			}
		}
		s := sb.String()
		if !seen[s] {
			seen[s] = true
			out = append(out, s)
		}
	}
	n := len(units)
	if n == 0 {
		return nil
	}
	add() // everything removed
	for _, w := range []int{8, 4, 2, 1} {
		if w >= n {
			continue
		}
		for i := 0; i+w <= n; i++ {
			add(units[:i], units[i+w:])
		}
	}
	if brackets {
		for i, u := range units {
			closer := ""
			switch {
			case strings.HasPrefix(u, "(") && !strings.HasSuffix(u, ")"):
				closer = ")"
			case u == "[":
				closer = "]"
			case u == `\Q`:
				closer = `\E`
			}
			if closer == "" {
				continue
			}
			depth := 0
			for k := i + 1; k < n; k++ {
				v := units[k]
				if closer == ")" && strings.HasPrefix(v, "(") && !strings.HasSuffix(v, ")") {
					depth++
				}
				if v == closer {
					if depth == 0 {
						add(units[:i], units[i+1:k], units[k+1:]) // unwrap
						add(units[:i], units[k+1:])               // drop the whole bracketed span
						break
					}
					depth--
				}
			}
		}
	}
	return out
}

// c19Cause names the case-sensitive constructs present in the patterns and the path of a
// (shrunk) failing input; the result is a small, sorted, '+'-joined set of tags.
func c19Cause(patterns []string, paths ...string) string {
	set := map[string]bool{}
	fallback := map[string]bool{}
	runeTag := func(c rune, where string) {
		if c < utf8.RuneSelf {
			if c >= 'A' && c <= 'Z' {
				fallback[where+"upper-ascii"] = true
			}
			return
		}
		if unicode.SimpleFold(c) != c || unicode.ToLower(c) != c || unicode.ToUpper(c) != c {
			set[fmt.Sprintf("fold:U+%04X", c)] = true
		} else {
			set["nonascii"] = true
		}
	}
	for _, p := range patterns {
		if !c19IsRegexpForm(p) {
			for _, c := range p {
				runeTag(c, "")
			}
			continue
		}
		inClass := false
		for _, u := range c19Units(p[1 : len(p)-1]) {
			rs := []rune(u)
			switch {
			case rs[0] == '\\' && len(rs) >= 2:
				n := rs[1]
				switch {
				case n == 'p' || n == 'P':
					name := strings.Trim(string(rs[2:]), "{}")
					if n == 'P' {
						set[`\P`] = true
					} else if name != strings.ToLower(name) {
						set[`\p{Upper-name}`] = true
					}
				case n == 'x' || n >= '0' && n <= '7':
					set["code-point-escape"] = true
				case n >= 'A' && n <= 'Z':
					set[`\`+string(n)] = true
				case n >= utf8.RuneSelf:
					runeTag(n, "")
				}
			case rs[0] == '(' && len(rs) > 1:
				if strings.HasPrefix(u, "(?P<") {
					set["named-group(?P<>)"] = true
				} else {
					set["flags"+strings.TrimRight(u, ":)")+")"] = true
				}
			case rs[0] == '[' && len(rs) > 1:
				set["posix-class"+strings.Trim(u, "[]")] = true
			case u == "[":
				inClass = true
			case u == "]":
				inClass = false
			default:
				for _, c := range rs {
					if inClass && c >= 'A' && c <= 'Z' {
						set["class-upper-ascii"] = true
					} else {
						runeTag(c, "")
					}
				}
			}
		}
	}
	for _, s := range paths {
		for _, c := range s {
			runeTag(c, "path-")
		}
	}
	if len(set) == 0 {
		set = fallback
	}
	if len(set) == 0 {
		return "none"
	}
	var tags []string
	for t := range set {
		tags = append(tags, t)
	}
	sort.Strings(tags)
	return strings.Join(tags, "+")
}
