package checks

import (
	"fmt"
	"strings"

	"vh/core"
	"vh/refmodel"
	"vh/scen"
)

func init() { Registry["C09"] = RunC09 }

// funcText returns the source text of a generated function (doc comment included).
func funcText(c *CaseResult, key string) (string, bool) {
	p := c.Plans[key]
	if p == nil || c.Loader == nil {
		return "", false
	}
	start := p.Decl.Pos()
	if p.Decl.Doc != nil {
		start = p.Decl.Doc.Pos()
	}
	a := c.Loader.Fset.Position(start).Offset
	b := c.Loader.Fset.Position(p.Decl.End()).Offset
	if a < 0 || b > len(c.Out) || a > b {
		return "", false
	}
	return string(c.Out[a:b]), true
}

func notationsStr(ns []scen.Notation) string {
	var l []string
	for _, n := range ns {
		l = append(l, strings.TrimPrefix(n.Line(), "// "))
	}
	return strings.Join(l, " ")
}

// RunC09 is the check for C09.
func RunC09(e *core.Env) int {
	rep := core.NewReport(e, "exploration",
		"files with 1-3 converter interfaces x 1-6 methods over a probe struct pair whose generated body reveals every effective setting (case: name<->Name, getter: Val(), stringer: LStr->string, typecast: int->int64, match, style); "+
			"each of {style,match,case,getter,stringer,typecast} independently unset/on/off at interface level and at method level (one toggle at a time, and jointly), per-method :skip/:map/:literal lists with overlapping paths across methods, shuffled notation order. "+
			"Three oracles: R1 inheritance - the function of method m in the full file equals byte for byte the function generated from a single-method file with the EFFECTIVE settings (method, else interface, else default) written at method level only; "+
			"R2 non-interference - it also equals the function generated when every other method and interface is deleted; R3 - the reference model with the effective settings agrees with the body. "+
			"distinct non-trivial = (toggle, interface setting, method setting) triples whose effective value differs from the default, with R1 and R2 both holding")
	nOne, nJoint := 25, 150
	if e.Tier == "thorough" {
		nOne, nJoint = 250, 2500
	}
	type probe struct {
		it   *scen.Iface
		m    *scen.Method
		full *CaseResult
		eff  *CaseResult
		del  *CaseResult
	}
	var plan [][]*scen.Iface
	var labels []string
	for _, tg := range []string{"style", "match", "case", "getter", "stringer", "typecast"} {
		for i := 0; i < nOne; i++ {
			plan = append(plan, scen.GenScoping(core.Rand(e.Seed, "c09", tg, i), tg))
			labels = append(labels, tg)
		}
	}
	for i := 0; i < nJoint; i++ {
		plan = append(plan, scen.GenScoping(core.Rand(e.Seed, "c09-joint", i), ""))
		labels = append(labels, "joint")
	}
	// fixed part: a generated method used as a :conv target is judged by ITS OWN effective style (a
	// method-level :style overrides the interface default for that method only), whichever of the two
	// methods sorts first
	{
		var ss []*scen.Scenario
		type exp struct{ accept bool }
		var exps []exp
		for _, ifaceArg := range []bool{true, false} {
			for _, names := range [][2]string{{"AOuter", "ZGen"}, {"ZOuter", "AGen"}} {
				id := fmt.Sprintf("kc09conv%v%s", ifaceArg, strings.ToLower(names[0][:1]))
				b := scen.NewBuilder(nil, scen.Profile{}, id, id)
				b.Struct("", "SI", "V int")
				b.Struct("", "DI", "V int")
				b.Struct("", "A", "X int", "In SI")
				b.Struct("", "B", "X int", "In DI")
				gen := &scen.Method{Name: names[1], Src: scen.Param{Type: "SI"}, Dst: scen.Param{Type: "DI"}}
				outer := &scen.Method{Name: names[0], Src: scen.Param{Type: "*A"}, Dst: scen.Param{Type: "*B"}, Notations: []scen.Notation{scen.N("conv", names[1], "In", "In")}}
				it := &scen.Iface{Name: "Convergen", Converter: true, Methods: []*scen.Method{outer, gen}}
				if ifaceArg {
					// interface says arg, the converter method says return: it IS usable as a converter
					it.Notations = []scen.Notation{scen.N("style", "arg")}
					gen.Notations = []scen.Notation{scen.N("style", "return")}
				} else {
					// interface default (return), the converter method says arg: it is NOT usable
					gen.Notations = []scen.Notation{scen.N("style", "arg")}
				}
				b.S.Ifaces = append(b.S.Ifaces, it)
				b.S.RegFuncs = append(b.S.RegFuncs, names[1])
				sc := b.Finish()
				sc.InConv = ifaceArg
				ss = append(ss, sc)
				exps = append(exps, exp{ifaceArg})
			}
		}
		if cb, err := NewBatch(e, "conv-style", ss); err == nil {
			cb.RunTool(e, true)
			for i, c := range cb.Cases {
				rep.Eval(1)
				got := c.Run.Exit == 0 && len(c.TypeErrs) == 0 && c.Out != nil
				feat := map[string]string{"iface_style_arg": fmt.Sprint(exps[i].accept), "referrer_sorts_first": fmt.Sprint(strings.HasPrefix(c.S.ID[len(c.S.ID)-1:], "a"))}
				switch {
				case c.Run.Crashed() || c.Run.TimedOut:
					rep.Inconclusive("conv-style corpus: " + c.S.ID)
				case exps[i].accept && !got:
					rep.Violate(&core.Violation{Property: "C09", Monitor: "conv-style", Symptom: "converter-method-judged-by-interface-style", Features: feat, Case: c.S.ID,
						Detail: fmt.Sprintf("the converter method overrides the interface's :style arg with :style return, so it can serve as a :conv target; exit %d, type errors %v, stderr: %s", c.Run.Exit, c.TypeErrs, core.Trunc(c.Run.Stderr, 300)), Files: c.ReplayFiles()})
				case !exps[i].accept && c.Run.Exit == 0:
					rep.Violate(&core.Violation{Property: "C09", Monitor: "conv-style", Symptom: "converter-method-judged-by-interface-style", Features: feat, Case: c.S.ID,
						Detail: fmt.Sprintf("the converter method says :style arg at method level and cannot serve as a :conv target, yet the file was accepted; type errors of the output: %v", c.TypeErrs), Files: c.ReplayFiles()})
				default:
					rep.Distinct("conv-style|" + c.S.ID)
				}
			}
		}
	}
	const perBatch = 40
	for start, bi := 0, 0; start < len(plan); start, bi = start+perBatch, bi+1 {
		end := start + perBatch
		if end > len(plan) {
			end = len(plan)
		}
		var ss []*scen.Scenario
		var probes []*probe
		idx := map[string]int{}
		add := func(s *scen.Scenario) int {
			ss = append(ss, s)
			idx[s.ID] = len(ss) - 1
			return len(ss) - 1
		}
		type ref struct{ full, eff, del int }
		var refs []ref
		for fi := start; fi < end; fi++ {
			ifaces := plan[fi]
			fid := fmt.Sprintf("f%05d", fi)
			full := add(scen.ScopingScenario(ifaces, fid, fid))
			k := 0
			for _, it := range ifaces {
				for _, m := range it.Methods {
					eid := fmt.Sprintf("%se%d", fid, k)
					did := fmt.Sprintf("%sd%d", fid, k)
					k++
					ei := add(scen.ScopingScenario(scen.EffectiveOnly(it, m), eid, eid))
					di := add(scen.ScopingScenario(scen.OnlyMethod(it, m), did, did))
					probes = append(probes, &probe{it: it, m: m})
					refs = append(refs, ref{full, ei, di})
				}
			}
		}
		b, err := NewBatch(e, fmt.Sprintf("scope-b%d", bi), ss)
		if err != nil {
			rep.Inconclusive(err.Error())
			continue
		}
		b.RunTool(e, true)
		for i, p := range probes {
			p.full, p.eff, p.del = b.Cases[refs[i].full], b.Cases[refs[i].eff], b.Cases[refs[i].del]
		}
		// R3 on the full files
		for fi := start; fi < end; fi++ {
			c := b.Cases[idx[fmt.Sprintf("f%05d", fi)]]
			all := map[string]bool{"default": true, "skip": true, "map": true, "conv": true, "literal": true}
			modelCase(rep, "C09", c, all, true, func(fi *FuncInfo, exps []*refmodel.Expect) {})
		}
		for _, p := range probes {
			rep.Eval(1)
			key := FuncKey(p.m)
			feat := map[string]string{"iface_notations": notationsStr(p.it.Notations), "method_notations": notationsStr(p.m.Notations)}
			files := func() map[string]string {
				f := p.full.ReplayFiles()
				f["variant_effective_only/setup.go"] = p.eff.S.Files[p.eff.S.Setup]
				f["variant_effective_only/setup.gen.go"] = string(p.eff.Out)
				f["variant_effective_only/stderr.txt"] = p.eff.Run.Stderr
				f["variant_only_method/setup.go"] = p.del.S.Files[p.del.S.Setup]
				f["variant_only_method/setup.gen.go"] = string(p.del.Out)
				f["variant_only_method/stderr.txt"] = p.del.Run.Stderr
				return f
			}
			if p.full.Run.Exit != p.eff.Run.Exit && p.eff.Run.Exit != p.del.Run.Exit {
				// the full file may be rejected because of ANOTHER method; then only eff vs del are comparable
			}
			if p.eff.Run.Exit != p.del.Run.Exit {
				rep.Violate(&core.Violation{Property: "C09", Monitor: "R1", Symptom: "acceptance-differs", Features: map[string]string{"which": "effective-only vs only-method"}, Case: p.full.S.ID,
					Detail: fmt.Sprintf("method %s: single-method file with effective settings exits %d, file with the other methods deleted exits %d\n%s\n%s", key, p.eff.Run.Exit, p.del.Run.Exit, feat["iface_notations"], feat["method_notations"]), Files: files()})
				continue
			}
			if p.eff.Run.Exit != 0 {
				rep.Count("method_rejected_consistently", 1)
				continue
			}
			te, ok1 := funcText(p.eff, key)
			td, ok2 := funcText(p.del, key)
			if !ok1 || !ok2 {
				rep.Violate(&core.Violation{Property: "C09", Monitor: "R1", Symptom: "function-missing", Case: p.full.S.ID, Detail: "function " + key + " missing in a single-method variant", Files: files()})
				continue
			}
			o := scen.Effective(p.it, p.m)
			tgFeat := map[string]string{"effective": togglesOf(o) + "/" + o.Style}
			if te != td {
				rep.Violate(&core.Violation{Property: "C09", Monitor: "R1", Symptom: "interface-default-not-inherited", Features: tgFeat, Case: p.full.S.ID,
					Detail: fmt.Sprintf("method %s [iface: %s] [method: %s]\n--- effective settings at method level:\n%s\n--- original method under its interface:\n%s", key, feat["iface_notations"], feat["method_notations"], te, td), Files: files()})
				continue
			}
			if p.full.Run.Exit != 0 {
				rep.Count("full_file_rejected_by_other_method", 1)
				continue
			}
			tf, ok := funcText(p.full, key)
			if !ok {
				rep.Violate(&core.Violation{Property: "C09", Monitor: "R2", Symptom: "function-missing", Case: p.full.S.ID, Detail: "function " + key + " missing in the full file", Files: files()})
				continue
			}
			if tf != td {
				rep.Violate(&core.Violation{Property: "C09", Monitor: "R2", Symptom: "other-methods-interfere", Features: tgFeat, Case: p.full.S.ID,
					Detail: fmt.Sprintf("method %s [iface: %s] [method: %s]\n--- in the full file:\n%s\n--- with every other method/interface deleted:\n%s", key, feat["iface_notations"], feat["method_notations"], tf, td), Files: files()})
				continue
			}
			rep.Count("methods_R1_R2_hold", 1)
			// distinct: (toggle, iface setting, method setting) with effective != default
			def := scen.Opts{Style: "return", Match: "name", Case: true}
			for _, k := range []string{"style", "match", "case", "getter", "stringer", "typecast"} {
				eff := map[string]string{"style": o.Style, "match": o.Match, "case": fmt.Sprint(o.Case), "getter": fmt.Sprint(o.Getter), "stringer": fmt.Sprint(o.Stringer), "typecast": fmt.Sprint(o.Typecast)}[k]
				d := map[string]string{"style": def.Style, "match": def.Match, "case": "true", "getter": "false", "stringer": "false", "typecast": "false"}[k]
				is, ms := settingOf(p.it.Notations, k), settingOf(p.m.Notations, k)
				if eff != d || (is != "unset" && ms != "unset" && is != ms) {
					rep.Distinct(fmt.Sprintf("%s|iface=%s|method=%s", k, is, ms))
				}
			}
		}
		// R2 for whole files: a file is refused only if one of its methods is refused when it stands alone
		byFull := map[*CaseResult][]*probe{}
		for _, p := range probes {
			byFull[p.full] = append(byFull[p.full], p)
		}
		for full, ps := range byFull {
			if full.Run.Exit == 0 || full.Run.TimedOut {
				continue
			}
			culprit := false
			for _, p := range ps {
				if p.del.Run.Exit != 0 {
					culprit = true
				}
			}
			if !culprit {
				rep.Violate(&core.Violation{Property: "C09", Monitor: "R2", Symptom: "file-refused-although-every-method-alone-is-accepted", Case: full.S.ID,
					Detail: fmt.Sprintf("the file with %d method(s) exits %d (%s) but each of its methods, alone under its interface, is accepted", len(ps), full.Run.Exit, core.Trunc(full.Run.Stderr, 300)), Files: full.ReplayFiles()})
			} else {
				rep.Count("full_files_refused_with_a_culprit_method", 1)
			}
		}
		if len(probes) > 0 {
			p := probes[0]
			t, _ := funcText(p.full, FuncKey(p.m))
			rep.Sample(map[string]any{"file": core.Trunc(p.full.S.Files[p.full.S.Setup], 1200), "method": p.m.Name, "function": t}, 2)
		}
	}
	return rep.Finish()
}

func settingOf(ns []scen.Notation, key string) string {
	v := "unset"
	for _, n := range ns {
		switch {
		case n.Name == key && len(n.Args) > 0:
			v = n.Args[0]
		case n.Name == key:
			v = "on"
		case n.Name == key+":off":
			v = "off"
		}
	}
	return v
}
