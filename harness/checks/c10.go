package checks

import (
	"fmt"
	"strings"

	"vh/core"
	"vh/execmon"
	"vh/scen"
)

func init() { Registry["C10"] = RunC10 }

func hookFeat(fi *FuncInfo, kind string, o *execmon.HookObs) map[string]string {
	f := methodFeatures(fi)
	f["hook"] = kind
	f["hook_dst_ptr"] = fmt.Sprint(o.DstIsPtr)
	f["hook_src_ptr"] = fmt.Sprint(o.SrcIsPtr)
	f["hook_extras"] = fmt.Sprint(o.NArgs > 2)
	return f
}

// judgeC10 checks the hook observations of one function.
func judgeC10(rep *core.Report, fi *FuncInfo, recs []*execmon.Rec) {
	c := fi.Case
	m := fi.Method
	if m.PreSite == "" && m.PostSite == "" {
		return
	}
	seen := map[string]bool{}
	report := func(v *core.Violation, r *execmon.Rec) {
		if seen[v.Fingerprint()] {
			return
		}
		seen[v.Fingerprint()] = true
		v.Files = recFiles(c, r)
		rep.Violate(v)
	}
	for _, r := range recs {
		if r.Fail != "" || r.SigErr != "" || r.Panic != "" || !r.Judged {
			continue
		}
		if r.Err != "none" && r.Err != "nil" {
			continue
		}
		rep.Eval(1)
		type hk struct {
			kind, site string
			o          *execmon.HookObs
		}
		for _, h := range []hk{{"pre", m.PreSite, r.Pre}, {"post", m.PostSite, r.Post}} {
			if h.site == "" {
				continue
			}
			n := 0
			for _, s := range r.Trace {
				if s == h.site {
					n++
				}
			}
			if n != 1 || h.o == nil {
				report(&core.Violation{Property: "C10", Monitor: "exec", Symptom: "hook-call-count", Features: map[string]string{"hook": h.kind, "count": fmt.Sprint(n)}, Case: c.S.ID,
					Detail: fmt.Sprintf("%s(%s): %sprocess hook %s ran %d times; trace=%v", r.Fn, r.Val, h.kind, h.site, n, r.Trace)}, r)
				continue
			}
			o := h.o
			feat := hookFeat(fi, h.kind, o)
			// order: pre before every other callback, post after every other callback
			if h.kind == "pre" && o.TracePos != 0 {
				report(&core.Violation{Property: "C10", Monitor: "exec", Symptom: "pre-not-first", Features: feat, Case: c.S.ID,
					Detail: fmt.Sprintf("%s(%s): preprocess hook is event %d of trace %v", r.Fn, r.Val, o.TracePos, r.Trace)}, r)
			}
			if h.kind == "post" && o.TracePos != len(r.Trace)-1 {
				report(&core.Violation{Property: "C10", Monitor: "exec", Symptom: "post-not-last", Features: feat, Case: c.S.ID,
					Detail: fmt.Sprintf("%s(%s): postprocess hook is event %d of trace %v", r.Fn, r.Val, o.TracePos, r.Trace)}, r)
			}
			// destination state at entry / effect on the real destination
			if len(o.DstDiff) > 0 {
				sym := "pre-sees-assigned-destination"
				what := "destination seen by the preprocess hook differs from the destination's initial state"
				if h.kind == "post" {
					sym = "post-not-on-real-destination"
					what = "final destination differs from what the postprocess hook left (by pointer) / saw (by value)"
				}
				report(&core.Violation{Property: "C10", Monitor: "exec", Symptom: sym, Features: feat, Case: c.S.ID,
					Detail: fmt.Sprintf("%s(%s): %s: %s", r.Fn, r.Val, what, strings.Join(o.DstDiff, "; "))}, r)
			}
			if o.DstSame == "no" {
				report(&core.Violation{Property: "C10", Monitor: "exec", Symptom: "hook-dst-not-identical", Features: feat, Case: c.S.ID,
					Detail: fmt.Sprintf("%s(%s): %s hook received a destination pointer different from the function's destination", r.Fn, r.Val, h.kind)}, r)
			}
			if o.SrcSame == "no" {
				report(&core.Violation{Property: "C10", Monitor: "exec", Symptom: "hook-src-not-identical", Features: feat, Case: c.S.ID,
					Detail: fmt.Sprintf("%s(%s): %s hook received a source pointer different from the caller's", r.Fn, r.Val, h.kind)}, r)
			}
			if len(o.SrcDiff) > 0 {
				report(&core.Violation{Property: "C10", Monitor: "exec", Symptom: "hook-src-content", Features: feat, Case: c.S.ID,
					Detail: fmt.Sprintf("%s(%s): %s hook saw a different source: %s", r.Fn, r.Val, h.kind, strings.Join(o.SrcDiff, "; "))}, r)
			}
			if len(o.ExtraDiff) > 0 {
				report(&core.Violation{Property: "C10", Monitor: "exec", Symptom: "hook-extras", Features: feat, Case: c.S.ID,
					Detail: fmt.Sprintf("%s(%s): %s hook saw different additional arguments: %s", r.Fn, r.Val, h.kind, strings.Join(o.ExtraDiff, "; "))}, r)
			}
			rep.Distinct(fmt.Sprintf("%s|d%v|s%v|x%v|%s|%s|%s|%s|e%s", h.kind, o.DstIsPtr, o.SrcIsPtr, o.NArgs > 2, feat["style"], feat["recv"], feat["src_ptr"], feat["dst_ptr"], feat["err"]))
			rep.Count("hook_observations", 1)
			if o.Mutated {
				rep.Count("hook_mutations_checked", 1)
			}
		}
		// post hook saw the final values: the model/post-snapshot comparison is in r.Mismatches
		if m.PostSite != "" && r.Post != nil && len(r.Mismatches) > 0 {
			mm := r.Mismatches[0]
			report(&core.Violation{Property: "C10", Monitor: "exec", Symptom: "post-before-assignments-done", Features: hookFeat(fi, "post", r.Post), Case: c.S.ID,
				Detail: fmt.Sprintf("%s(%s): at postprocess entry destination leaf %s holds %s, expected final value %s", r.Fn, r.Val, mm.Path, mm.Got, mm.Want)}, r)
		}
		if m.PreSite != "" && m.PostSite == "" && r.Pre != nil && r.Pre.Mutated && len(r.Mismatches) > 0 {
			mm := r.Mismatches[0]
			report(&core.Violation{Property: "C10", Monitor: "exec", Symptom: "pre-mutation-lost-or-kept-wrongly", Features: hookFeat(fi, "pre", r.Pre), Case: c.S.ID,
				Detail: fmt.Sprintf("%s(%s): after a by-pointer preprocess hook overwrote every destination leaf, leaf %s ends as %s, expected %s (assigned leaves: copied value, others: the hook's marker)", r.Fn, r.Val, mm.Path, mm.Got, mm.Want)}, r)
		}
	}
}

// RunC10 is the check for C10.
func RunC10(e *core.Env) int {
	rep := core.NewReport(e, "exploration",
		"hook-heavy random scenarios over all non-reverse method shapes: hooks with destination/source by pointer or value, with/without error, with/without additional parameters, declared in the setup file or a sibling file; "+
			"hooks record operand identities and snapshots and MUTATE the destination when they get it by pointer (pre: every leaf, post: every leaf with other markers). Oracle: each hook exactly once, pre first / post last in the callback trace, "+
			"pre sees the destination's initial state, post sees the final expected state, a by-pointer hook's mutation lands in the real destination, operand pointer identity/content and additional arguments as documented. "+
			"distinct non-trivial = (pre/post, hook dst ptr, hook src ptr, extras declared, style, recv, operand pointer-ness, error) actually observed")
	n, k := 250, 1
	if e.Tier == "thorough" {
		n, k = 3000, 3
	}
	if cb, err := NewBatch(e, "badhooks", illFittingHooks()); err == nil {
		cb.RunTool(e, true)
		for _, c := range cb.Cases {
			rep.Eval(1)
			feat := map[string]string{"bad_hook": c.S.Features["bad_hook"][4:]}
			switch {
			case c.Run.TimedOut:
				rep.Inconclusive("watchdog " + c.S.ID)
			case c.Run.Crashed():
				rep.Violate(&core.Violation{Property: "C10", Monitor: "rejection", Symptom: "ill-fitting-hook-crashes", Features: feat, Case: c.S.ID, Detail: core.Trunc(c.Run.Stderr, 600), Files: c.ReplayFiles()})
			case c.Run.Exit == 0 && feat["bad_hook"][3:] == "variadic" && len(c.TypeErrs) == 0:
				// a variadic tail may legitimately be seen as "no additional parameters": accepted AND compiling is fine
				rep.Count("variadic_hook_accepted_and_compiles", 1)
			case c.Run.Exit == 0:
				rep.Violate(&core.Violation{Property: "C10", Monitor: "rejection", Symptom: "ill-fitting-hook-accepted", Features: feat, Case: c.S.ID,
					Detail: fmt.Sprintf("a hook whose shape cannot fit the method was accepted; type errors of the output: %v\n%s", c.TypeErrs, core.Trunc(c.S.Files[c.S.Setup], 600)), Files: c.ReplayFiles()})
			case strings.TrimSpace(c.Run.Stderr) == "":
				rep.Violate(&core.Violation{Property: "C10", Monitor: "rejection", Symptom: "ill-fitting-hook-silent", Features: feat, Case: c.S.ID, Detail: "exit != 0 without diagnostic", Files: c.ReplayFiles()})
			default:
				rep.Count("ill_fitting_hooks_rejected", 1)
				rep.Distinct("rejected|" + feat["bad_hook"])
			}
		}
	}
	runExecBatchesC(e, rep, "hooks", n, 125, execmon.Job{NRandom: k, MutateHooks: true}, corpusC10(), func(b *Batch, eo *ExecOut) {
		// the fixed list of valid hook uses: refusing one means its hooks are never called
		for _, c := range b.Cases {
			if !strings.HasPrefix(c.S.ID, "kc10") {
				continue
			}
			rep.Eval(1)
			if c.Run.Exit != 0 || !Runnable(c) {
				rep.Violate(&core.Violation{Property: "C10", Monitor: "acceptance", Symptom: "valid-hook-use-not-generated", Features: map[string]string{"case": c.S.ID}, Case: c.S.ID,
					Detail: fmt.Sprintf("a documented use of :preprocess/:postprocess is refused or yields code that does not compile (exit %d): %s %v", c.Run.Exit, core.Trunc(c.Run.Stderr, 400), c.TypeErrs), Files: c.ReplayFiles()})
			} else {
				rep.Distinct("valid-corpus|" + c.S.ID)
			}
		}
		// :reverse methods with hooks: the property does not say which operand is a reversed method's "own
		// destination", so both parameter orders are offered; one of them at least must be usable, and
		// whichever is accepted must compile (next monitor)
		revAccepted, revSeen := 0, 0
		for _, c := range b.Cases {
			if strings.HasPrefix(c.S.ID, "kr10rev") {
				revSeen++
				rep.Eval(1)
				if c.Run.Exit == 0 && len(c.TypeErrs) == 0 {
					revAccepted++
					rep.Distinct("reverse-hooks-accepted|" + c.S.ID)
				}
			}
		}
		if revSeen > 0 && revAccepted == 0 {
			var files map[string]string
			for _, c := range b.Cases {
				if strings.HasPrefix(c.S.ID, "kr10rev") {
					files = c.ReplayFiles()
				}
			}
			rep.Violate(&core.Violation{Property: "C10", Monitor: "acceptance", Symptom: "reverse-method-hooks-unusable", Features: map[string]string{}, Case: "kr10rev",
				Detail: "a :reverse method accepts hooks in neither parameter order (declared destination first / declared source first) with compiling output", Files: files})
		}
		// an accepted hook whose CALL does not compile hands the hook something other than what it declares
		for _, c := range b.Cases {
			if c.Run.Exit != 0 || len(c.TypeErrs) == 0 {
				continue
			}
			for _, m := range c.S.AllMethods() {
				for _, kind := range []string{"preprocess", "postprocess"} {
					nt, ok := m.Get(kind)
					if !ok || len(nt.Args) == 0 {
						continue
					}
					for _, te := range c.TypeErrs {
						if strings.Contains(te, nt.Args[0]+"(") || strings.Contains(te, " to "+nt.Args[0]) || strings.HasSuffix(strings.TrimSpace(te), " "+nt.Args[0]) {
							rep.Eval(1)
							rep.Violate(&core.Violation{Property: "C10", Monitor: "typecheck", Symptom: "hook-call-does-not-compile",
								Features: map[string]string{"hook": kind[:3], "class": classifyTypeErr(te), "src_ptr": fmt.Sprint(strings.HasPrefix(m.Src.Type, "*")), "dst_ptr": fmt.Sprint(strings.HasPrefix(m.Dst.Type, "*"))},
								Case:     c.S.ID, Detail: fmt.Sprintf("%s: the call of %s hook %s does not compile: %s", m.Name, kind, nt.Args[0], te), Files: c.ReplayFiles()})
							break
						}
					}
				}
			}
		}
		for id, infos := range eo.Infos {
			for key, fi := range infos {
				judgeC10(rep, fi, eo.Recs[id+"/"+key])
			}
		}
		for _, r := range eo.Result.Recs {
			if r.Pre != nil && r.Post != nil {
				rep.Sample(map[string]any{"scenario": r.Scen, "function": r.Fn, "valuation": r.Val, "trace": r.Trace, "pre": r.Pre, "post": r.Post}, 2)
			}
		}
	})
	return rep.Finish()
}

// illFittingHooks: one scenario per hook whose shape cannot fit the method; each must be rejected at
// generation time (exit != 0, diagnostic, no crash).
func illFittingHooks() []*scen.Scenario {
	var out []*scen.Scenario
	mk := func(id, hookSrc, hookName, kind string, extras []scen.Param, hasErr bool) {
		b := scen.NewBuilder(nil, scen.Profile{}, id, id)
		b.Struct("", "A", "X int")
		b.Struct("", "B", "X int")
		b.Struct("", "C", "X int")
		if hookSrc != "" {
			b.Func(hookSrc, true, "")
		}
		m := &scen.Method{Name: "M", Src: scen.Param{Type: "*A"}, Dst: scen.Param{Type: "*B"}, Extras: extras, HasErr: hasErr,
			Notations: []scen.Notation{scen.N(kind, hookName)}}
		s := b.Manual(m)
		s.InConv = false
		s.Feature("bad_hook", id)
		out = append(out, s)
	}
	i := 0
	for _, kind := range []string{"preprocess", "postprocess"} {
		k := kind[:3]
		add := func(name, src, hook string, extras []scen.Param, hasErr bool) {
			i++
			mk(fmt.Sprintf("bh%02d%s%s", i, k, name), src, hook, kind, extras, hasErr)
		}
		add("noparams", "func h() {}\n", "h", nil, false)
		add("oneparam", "func h(d *B) {}\n", "h", nil, false)
		add("wrongdst", "func h(d *C, s *A) {}\n", "h", nil, false)
		add("wrongsrc", "func h(d *B, s *C) {}\n", "h", nil, false)
		add("swapped", "func h(s *A, d *B) {}\n", "h", nil, false)
		add("extrasnone", "func h(d *B, s *A, n int, t string) {}\n", "h", nil, false)
		add("extrasfewer", "func h(d *B, s *A, n int) {}\n", "h", []scen.Param{{Type: "int"}, {Type: "string"}}, false)
		add("extrasmore", "func h(d *B, s *A, n int, t string, u bool) {}\n", "h", []scen.Param{{Type: "int"}, {Type: "string"}}, false)
		add("extrastype", "func h(d *B, s *A, n string) {}\n", "h", []scen.Param{{Type: "int"}}, false)
		add("retvalue", "func h(d *B, s *A) int { return 0 }\n", "h", nil, false)
		add("rettwo", "func h(d *B, s *A) (error, error) { return nil, nil }\n", "h", nil, true)
		add("errnoerr", "func h(d *B, s *A) error { return nil }\n", "h", nil, false)
		add("notfunc", "var h = 1\n", "h", nil, false)
		add("typename", "", "A", nil, false)
		add("unknown", "", "nosuchhook", nil, false)
		add("unexportedext", "", "ext.convHidden", nil, false)
		add("unknownpkg", "", "nopkg.Hook", nil, false)
		add("variadic", "func h(d *B, s *A, more ...int) {}\n", "h", nil, false)
		// repaired in 24f5e58: a variadic parameter ...T receives ONE argument, so an additional argument of type
		// []T does not fit it (the call hook(dst, src, arg) does not compile)
		add("variadicslice", "func h(d *B, s *A, more ...string) {}\n", "h", []scen.Param{{Type: "[]string"}}, false)
		add("scalar", "func h(d int, s string) {}\n", "h", nil, false)
		// an additional parameter that differs from the method's argument by one level of pointer (the
		// arguments are passed on verbatim), in both directions
		add("extrasptrless", "func h(d *B, s *A, n int) {}\n", "h", []scen.Param{{Type: "*int"}}, false)
		add("extrasptrmore", "func h(d *B, s *A, n *int) {}\n", "h", []scen.Param{{Type: "int"}}, false)
		add("extrasstructptr", "func h(d *B, s *A, o C) {}\n", "h", []scen.Param{{Type: "*C"}}, false)
		// a result of a CONCRETE type that implements error (a nil *T stored in err is a non-nil error)
		add("rettypederr", "type hErr struct{}\n\nfunc (*hErr) Error() string { return \"h\" }\n\nfunc h(d *B, s *A) *hErr { return nil }\n", "h", nil, true)
	}
	// one hook function shared by two methods: it fits one of them and not the other, whichever is
	// declared (or sorts) first - every USE of a hook has to be checked against its own method
	j := 0
	for _, kind := range []string{"preprocess", "postprocess"} {
		for _, sh := range []struct {
			name, hook   string
			fitSrc, fitE bool // the ill-fitting method differs in source type / lacks the error result
		}{
			{"sharedsrc", "func h(d *B, s *A) {}\n", true, false},
			{"sharederr", "func h(d *B, s *A) error { return nil }\n", false, true},
		} {
			for _, fitFirst := range []bool{true, false} {
				j++
				id := fmt.Sprintf("bs%02d%s%s%v", j, kind[:3], sh.name, fitFirst)
				b := scen.NewBuilder(nil, scen.Profile{}, id, id)
				b.Struct("", "A", "X int")
				b.Struct("", "B", "X int")
				b.Struct("", "C", "X int")
				b.Func(sh.hook, true, "")
				fit := &scen.Method{Src: scen.Param{Type: "*A"}, Dst: scen.Param{Type: "*B"}, HasErr: sh.fitE, Notations: []scen.Notation{scen.N(kind, "h")}}
				bad := &scen.Method{Src: scen.Param{Type: "*A"}, Dst: scen.Param{Type: "*B"}, Notations: []scen.Notation{scen.N(kind, "h")}}
				if sh.fitSrc {
					bad.Src.Type = "*C"
				}
				var s *scen.Scenario
				if fitFirst {
					fit.Name, bad.Name = "Afits", "Zbad"
					s = b.Manual(fit, bad)
				} else {
					fit.Name, bad.Name = "Zfits", "Abad"
					s = b.Manual(bad, fit)
				}
				s.InConv = false
				s.Feature("bad_hook", id)
				out = append(out, s)
			}
		}
	}
	return out
}

// corpusC10 is the fixed list of VALID hook uses that every run contains.
func corpusC10() []*scen.Scenario {
	var out []*scen.Scenario
	// hooks of a package the setup file imports BLANK (it is named in notations only) and whose package
	// clause differs from the last element of its import path
	for _, k := range []string{"blank", "plain"} {
		id := "kc10imp" + k
		b := scen.NewBuilder(nil, scen.Profile{}, id, id)
		m := &scen.Method{Name: "Hooked", Src: scen.Param{Type: "*ext.Shape"}, Dst: scen.Param{Type: "*ext.Shape"},
			Notations: []scen.Notation{scen.N("preprocess", "hooks.Before"), scen.N("postprocess", "hooks.After")},
			Probes: []scen.Probe{{Dst: "X", Mech: "same", DstT: "int", SrcT: "int"}, {Dst: "Y", Mech: "same", DstT: "string", SrcT: "string"}}}
		s := b.Manual(m)
		imp := "_ \"" + s.PkgPath() + "/hooks-v2\""
		use := ""
		if k == "plain" {
			imp = "\"" + s.PkgPath() + "/hooks-v2\""
			use = "\nvar _ = hooks.Marker\n"
		}
		setup := s.Files[s.Setup]
		at := strings.Index(setup, "\npackage ")
		eol := at + 1 + strings.Index(setup[at+1:], "\n")
		s.Files[s.Setup] = setup[:eol+1] + "\nimport " + imp + "\n" + setup[eol+1:] + use
		s.Files[s.PkgRel+"/hooks-v2/hooks.go"] = "package hooks\n\nimport (\n\t\"vb/ext\"\n\t\"vb/vtr\"\n)\n\nconst Marker = 1\n\n" +
			"func Before(d, s *ext.Shape) {\n\tvtr.Enter(\"hooks.Before\", d, s)\n}\n\nfunc After(d, s *ext.Shape) {\n\tvtr.Enter(\"hooks.After\", d, s)\n}\n"
		out = append(out, s)
	}
	out = append(out, corpusImportedFuncs("kc10")...)
	out = append(out, corpusReverseHooks("kr10rev")...)
	return out
}
