package checks

// C19 part (t): the same (pattern, path, case rule) semantics observed END TO END. A :skip
// pattern travels through the notation parser, the option tables and the builder before the
// matcher sees it; the observable is the skip decision per destination path in the generated
// function. One scenario per pattern, three methods per scenario: case rule on, :case:off
// before the :skip, :case:off after it. The reference is the same standard-library oracle
// as in the in-process parts, applied to every prefix of a destination path (a struct member
// that matches takes all its members with it).

import (
	"fmt"
	"math/rand"
	"regexp/syntax"
	"strings"
	"unicode"

	"vh/core"
	"vh/scen"
)

var c19E2EOwn = []string{"Name string", "ID int", "Σ string", "name string", "status string", "max int"}
var c19E2EDeep = []string{"Owner Own", "Tag string"}
var c19E2ETop = []string{"Name string", "name string", "NAME string", "FirstName string", "Names string", "ID int", "IDs []int",
	"Straße string", "STRASSE string", "Σας string", "ΣΑΣ string", "K string", "Kk int", "Nameſ string", "street string", "town string", "data string", "len int", "error string", "String string", "Owner Own", "Deep Dp", "Base"}

// an EMBEDDED struct: the paths of its members carry the embedded type's name
var c19E2EBase = []string{"ID int", "Note string"}

func c19E2ENames(fields []string) []string {
	var out []string
	for _, f := range fields {
		out = append(out, strings.SplitN(f, " ", 2)[0])
	}
	return out
}

// c19E2EPaths returns (all destination paths incl. struct members, leaves only).
func c19E2EPaths() (all, leaves []string) {
	own := c19E2ENames(c19E2EOwn)
	for _, n := range c19E2ENames(c19E2ETop) {
		switch n {
		case "Owner":
			all = append(all, n)
			for _, o := range own {
				all = append(all, "Owner."+o)
				leaves = append(leaves, "Owner."+o)
			}
		case "Base":
			all = append(all, n)
			for _, o := range c19E2ENames(c19E2EBase) {
				all = append(all, "Base."+o)
				leaves = append(leaves, "Base."+o)
			}
		case "Deep":
			all = append(all, "Deep", "Deep.Owner", "Deep.Tag")
			leaves = append(leaves, "Deep.Tag")
			for _, o := range own {
				all = append(all, "Deep.Owner."+o)
				leaves = append(leaves, "Deep.Owner."+o)
			}
		default:
			all = append(all, n)
			leaves = append(leaves, n)
		}
	}
	return
}

func c19E2EQuote(s string) string {
	var sb strings.Builder
	for _, c := range s {
		sb.WriteString(c19QuoteRune(c))
	}
	return sb.String()
}

func c19E2ESwap(r *rand.Rand, s string) string {
	rs := []rune(s)
	for i := range rs {
		if r.Intn(2) == 0 {
			rs[i] = c19SwapCase(r, rs[i])
		}
	}
	return string(rs)
}

type c19E2EPat struct {
	Text string
	Feat string
}

// c19E2EPatS is a pattern with, optionally, a SECOND :skip line on the same method: a path is
// skipped iff one of the two patterns matches it, each pattern judged on its own.
type c19E2EPatS struct {
	c19E2EPat
	Second string
}

// c19E2EPairs: flags and groups of one pattern end with that pattern.
var c19E2EPairs = [][3]string{
	{`/(?i)^name$/`, "two-patterns-flag-i", `/^id$/`}, {`/(?-i)^Name$/`, "two-patterns-flag-neg-i", `/^id$/`},
	{`/^id$/`, "two-patterns-flag-i", `/(?i)^name$/`}, {`/(?i)^street$/`, "two-patterns-flag-i", `/^Town$/`},
	{`/(?s)^Na.e$/`, "two-patterns-flag-s", `/^I.$/`}, {`/(?U)^N.*e/`, "two-patterns-flag-U", `/^ID.*/`},
	{`/^Name|ID$/`, "two-patterns-alternation", `/^Tag|Note$/`}, {`/^(Name$/`, "two-patterns-first-invalid", `/^ID)$/`},
	{`Name`, "two-patterns-plain+regexp", `/(?i)^id$/`}, {`/(?i)^id$/`, "two-patterns-regexp+plain", `name`},
	{`Owner`, "two-patterns-plain", `Deep.Owner.Name`}, {`/^Owner\./`, "two-patterns-prefix", `/(?i)^deep\.tag$/`},
}

// c19E2EFixed are constructs a user would write against these field names.
var c19E2EFixed = []c19E2EPat{
	{`/^Name$/`, "anchored"}, {`/^Name/`, "anchor-left"}, {`/Name$/`, "anchor-right"}, {`/Name/`, "unanchored"}, {`/^name$/`, "anchored"},
	{`/^(?i)name$/`, "flag-i"}, {`/^(?i:n)ame$/`, "flag-i-group"}, {`/(?-i)Name/`, "flag-neg-i"}, {`/\bName\b/`, "word-boundary"}, {`/\BName/`, "word-boundary"},
	{`/^\pL+$/`, "unicode-class"}, {`/^\p{Lu}+$/`, "unicode-class"}, {`/^\p{Ll}+$/`, "unicode-class"}, {`/\p{Greek}/`, "unicode-class"}, {`/^\P{Greek}+$/`, "unicode-class"},
	{`/^[[:upper:]]+$/`, "posix-class"}, {`/^[[:lower:]]+$/`, "posix-class"}, {`/^[A-Z]{2,}$/`, "counted"}, {`/^[A-Z]{2,3}$/`, "counted-comma"}, {`/^I{1,2}D/`, "counted-comma"},
	{`/^.{4}$/`, "counted"}, {`/^.{2,3}$/`, "counted-comma"}, {`/^[^.]+$/`, "negated-class"}, {`/^[^.]+\.[^.]+$/`, "negated-class"}, {`/\./`, "escaped-dot"},
	{`/^Owner\../`, "escaped-dot"}, {`/^Owner.Name$/`, "dot-wildcard"}, {`/^Owner\.Name$/`, "escaped-dot"}, {`/^\QOwner.Name\E$/`, `\Q..\E`}, {`/^(Owner|Deep\.Owner)\.Name$/`, "alternation"},
	{`/^Name|ID$/`, "alternation-precedence"}, {`/^(?:Name|ID)$/`, "alternation"}, {`/^(?:Name){1,2}$/`, "counted-comma"}, {`/^Names?$/`, "optional"}, {`/^Na.*e$/`, "star"},
	{`/^Na.*?e/`, "lazy"}, {`/\x{212A}/`, "hex-escape"}, {`/^[k]$/`, "fold-kelvin"}, {`/^[K-K]$/`, "fold-kelvin"}, {`/^k$/`, "fold-kelvin"}, {`/^K$/`, "fold-kelvin"},
	{`/ſ/`, "fold-long-s"}, {`/^names$/`, "fold-long-s"}, {`/^NAMES$/`, "fold-long-s"}, {`/straße/`, "sharp-s"}, {`/^STRASSE$/`, "sharp-s"}, {`/^stra(ss|ß)e$/`, "sharp-s"},
	{`/σας/`, "fold-sigma"}, {`/^ΣΑΣ$/`, "fold-sigma"}, {`/^σασ$/`, "fold-sigma"}, {`/^Σ/`, "fold-sigma"}, {`/Σ$/`, "fold-sigma"}, {`/,/`, "comma"}, {`/^[N,]ame$/`, "class-comma"},
	{`/^Name$|//x/`, "comment-marker-in-regexp"}, {`/^(?:ID|//)$/`, "comment-marker-in-regexp"}, {`/^$/`, "empty-match"}, {`/$^/`, "never"}, {`//`, "empty-regexp"}, {`/^\w+$/`, "perl-class"}, {`/^\W/`, "perl-class"}, {`/\d/`, "perl-class"}, {`/^\S+$/`, "perl-class"},
	{`/^(?s:.)+$/`, "flag-s"}, {`/(?m)^Name$/`, "flag-m"}, {`/^(?U:N.*)e/`, "flag-U"}, {`/^(?P<n>Na)me$/`, "named-group"}, {`/^((N)(a))me$/`, "groups"},
	{`/^[\pL&&]+$/`, "class-literal"}, {`/^[\p{Lu}\p{Ll}]+$/`, "class-unicode"}, {`/^[^\P{Lu}]/`, "class-double-negation"}, {`/\AName\z/`, "text-anchors"},
	// unexported members whose first letters occur in the destination variable's name ("dst")
	{`street`, "plain-unexported"}, {`reet`, "plain-unexported"}, {`/^to/`, "anchor-left-unexported"}, {`/^own$/`, "anchored-unexported"}, {`Owner.status`, "plain-unexported"}, {`/^Owner\.atus$/`, "anchored-unexported"}, {`data`, "plain-unexported"}, {`/^ata$/`, "anchored-unexported"},
	// members of an embedded struct
	{`Base.ID`, "plain-embedded"}, {`Base.Note`, "plain-embedded"}, {`Note`, "plain-embedded-promoted-name"}, {`/^Note$/`, "anchored-embedded-promoted-name"}, {`/^Base\.Note$/`, "anchored-embedded"}, {`/^ID$/`, "anchored-embedded-shadowed"}, {`/Note$/`, "anchor-right-embedded"}, {`Base`, "plain-embedded-struct"},
	// the /regexp/ form itself
	{`/`, "form"}, {`/Name`, "form"}, {`Name/`, "form"}, {`/Owner/Name/`, "form"}, {`Owner.Name`, "plain"}, {`owner.name`, "plain"}, {`OWNER.NAME`, "plain"},
	{`Owner`, "plain-struct"}, {`owner`, "plain-struct"}, {`Deep.Owner`, "plain-struct"}, {`Deep.Owner.Σ`, "plain"}, {`deep.owner.σ`, "plain"}, {`deep.owner.ς`, "plain"},
	{`Name.`, "plain-nearmiss"}, {`.Name`, "plain-nearmiss"}, {`Nam`, "plain-nearmiss"}, {`^Name$`, "plain-looks-like-regexp"}, {`Na.e`, "plain-looks-like-regexp"}, {`N.*`, "plain-looks-like-regexp"},
	{`strasse`, "plain"}, {`STRAßE`, "plain"}, {`straße`, "plain"}, {`k`, "plain"}, {`K`, "plain"}, {`kK`, "plain"}, {`KK`, "plain"}, {`nameſ`, "plain"}, {`NAMES`, "plain"}, {`names`, "plain"}, {`nameS`, "plain"},
	// members spelled like predeclared identifiers: names like any other
	{`len`, "plain-predeclared-name"}, {`error`, "plain-predeclared-name"}, {`ERROR`, "plain-predeclared-name"}, {`string`, "plain-predeclared-name"}, {`String`, "plain-predeclared-name"},
	{`Owner.max`, "plain-predeclared-name"}, {`Deep.Owner.max`, "plain-predeclared-name"}, {`max`, "plain-predeclared-name"}, {`/^len$/`, "anchored-predeclared-name"}, {`nil`, "plain-predeclared-name"}, {`_`, "plain-blank"},
	// invalid regexps: the run must be rejected (and never crash)
	{`/(/`, "invalid"}, {`/[a/`, "invalid"}, {`/a{2,1}/`, "invalid"}, {`/\pX/`, "invalid"}, {`/(?z)/`, "invalid"}, {`/a**/`, "invalid"}, {`/\8/`, "invalid"}, {`/+/`, "invalid"},
}

// c19E2EGen derives a pattern from a destination path.
func c19E2EGen(r *rand.Rand, all []string) c19E2EPat {
	p := all[r.Intn(len(all))]
	last := p[strings.LastIndex(p, ".")+1:]
	q := c19E2EQuote(p)
	switch r.Intn(12) {
	case 0:
		return c19E2EPat{c19E2ESwap(r, p), "plain-caseswap"}
	case 1:
		return c19E2EPat{"/^" + c19E2EQuote(c19E2ESwap(r, p)) + "$/", "anchored-caseswap"}
	case 2:
		return c19E2EPat{"/" + c19E2EQuote(c19E2ESwap(r, last)) + "/", "unanchored-caseswap"}
	case 3, 4, 5:
		// one rune of the path replaced by a construct
		rs := []rune(p)
		i := r.Intn(len(rs))
		c := rs[i]
		qc := c19QuoteRune(c)
		lc, uc := c19QuoteRune(unicode.ToLower(c)), c19QuoteRune(unicode.ToUpper(c))
		cands := []c19E2EPat{{qc + "{1,2}", "counted-comma"}, {qc + "{1,}", "counted-comma"}, {"[" + qc + ",]", "class-comma"}, {"[^,]", "class-comma"},
			{"(?:" + qc + "|,)", "alternation-comma"}, {"(" + qc + ")", "group"}, {fmt.Sprintf(`\x{%X}`, c), "hex-escape"}, {qc + "?" + qc, "optional"},
			{`\pL`, "unicode-class"}, {"[[:alpha:]]", "posix-class"}, {".", "dot"}, {"[" + lc + "]", "class-lower"}, {"[" + uc + "]", "class-upper"},
			{"[" + lc + "-" + lc + "]", "class-range"}, {"[^" + uc + "]", "negated-class-upper"}, {"(?i:" + lc + ")", "flag-i-group"}, {"(?-i:" + qc + ")", "flag-neg-i"},
			{`\Q` + string(c) + `\E`, `\Q..\E`}, {qc + "*", "star"}, {qc + "+?", "lazy"}, {`[^\PL]`, "class-double-negation"}, {`\S`, "perl-class"}}
		if c == '.' {
			cands = append(cands, c19E2EPat{`\W`, "perl-class"}, c19E2EPat{`\b.\b`, "word-boundary"}, c19E2EPat{`[.]`, "class-dot"})
		}
		k := cands[r.Intn(len(cands))]
		body := c19E2EQuote(string(rs[:i])) + k.Text + c19E2EQuote(string(rs[i+1:]))
		switch r.Intn(4) {
		case 0:
			return c19E2EPat{"/" + body + "/", k.Feat + "/unanchored"}
		case 1:
			return c19E2EPat{"/^" + body + "/", k.Feat + "/anchor-left"}
		}
		return c19E2EPat{"/^" + body + "$/", k.Feat + "/anchored"}
	case 6:
		o := all[r.Intn(len(all))]
		return c19E2EPat{"/^(?:" + q + "|" + c19E2EQuote(c19E2ESwap(r, o)) + ")$/", "alternation"}
	case 7:
		return c19E2EPat{"/^" + q + "{2,3}$/", "nearmiss-counted"}
	case 8:
		// a rune dropped or doubled: a near miss for plain patterns
		rs := []rune(p)
		i := r.Intn(len(rs))
		if r.Intn(2) == 0 && len(rs) > 1 {
			return c19E2EPat{string(rs[:i]) + string(rs[i+1:]), "plain-nearmiss"}
		}
		return c19E2EPat{string(rs[:i+1]) + string(rs[i:]), "plain-nearmiss"}
	case 9:
		return c19E2EPat{"/(?i)^" + c19E2EQuote(strings.ToLower(p)) + "$/", "flag-i"}
	case 10:
		return c19E2EPat{"/" + c19E2EQuote(last) + "$/", "anchor-right"}
	}
	return c19E2EPat{strings.ToUpper(p), "plain-upper"}
}

// RunC19E2E runs the end-to-end part into rep.
func c19RunE2E(e *core.Env, rep *core.Report, n int) {
	all, leaves := c19E2EPaths()
	r := core.Rand(e.Seed, "c19-e2e")
	var pats []c19E2EPatS
	for _, p := range c19E2EFixed {
		pats = append(pats, c19E2EPatS{c19E2EPat: p})
	}
	for _, p := range c19E2EPairs {
		pats = append(pats, c19E2EPatS{c19E2EPat{p[0], p[1]}, p[2]})
	}
	nFixed := len(pats)
	seenPat := map[string]bool{}
	for _, p := range pats {
		seenPat[p.Text+"\x00"+p.Second] = true
	}
	for tries := 0; len(pats) < nFixed+n && tries < 20*n; tries++ {
		p := c19E2EPatS{c19E2EPat: c19E2EGen(r, all)}
		if strings.ContainsAny(p.Text, " \t") {
			continue
		}
		if r.Intn(8) == 0 {
			// a second pattern on the same method
			q := c19E2EGen(r, all)
			if q.Text != p.Text && !strings.ContainsAny(q.Text, " \t") {
				p.Second, p.Feat = q.Text, "two-patterns/"+p.Feat
			}
		}
		if seenPat[p.Text+"\x00"+p.Second] {
			continue
		}
		seenPat[p.Text+"\x00"+p.Second] = true
		pats = append(pats, p)
	}
	var ss []*scen.Scenario
	type variant struct {
		name  string
		exact bool
	}
	variants := []variant{{"On", true}, {"OffBefore", false}, {"OffAfter", false}}
	for i, p := range pats {
		b := scen.NewBuilder(nil, scen.Profile{}, fmt.Sprintf("t%04d", i), fmt.Sprintf("c19t%04d", i))
		b.Struct("", "Base", c19E2EBase...)
		b.Struct("", "Own", c19E2EOwn...)
		b.Struct("", "Dp", c19E2EDeep...)
		b.Struct("", "A", c19E2ETop...)
		b.Struct("", "B", c19E2ETop...)
		var ms []*scen.Method
		for _, v := range variants {
			m := &scen.Method{Name: "Skip" + v.name, Src: scen.Param{Type: "*A"}, Dst: scen.Param{Type: "*B"}}
			switch v.name {
			case "On":
				m.Notations = []scen.Notation{scen.N("skip", p.Text)}
			case "OffBefore":
				m.Notations = []scen.Notation{scen.N("case:off"), scen.N("skip", p.Text)}
			default:
				m.Notations = []scen.Notation{scen.N("skip", p.Text), scen.N("case:off")}
			}
			if p.Second != "" {
				m.Notations = append(m.Notations, scen.N("skip", p.Second))
			}
			ms = append(ms, m)
		}
		ss = append(ss, b.Manual(ms...))
	}
	b, err := NewBatch(e, "c19-e2e", ss)
	if err != nil {
		rep.Inconclusive("c19 e2e batch: " + err.Error())
		return
	}
	b.RunTool(e, true)
	rc := c19RefCache{}
	for i, c := range b.Cases {
		p := pats[i]
		ref := rc.get(p.Text)
		var ref2 *c19Ref
		if p.Second != "" {
			ref2 = rc.get(p.Second)
			if !ref2.valid || ref2.undecided {
				if ref.valid && !ref.undecided {
					ref = ref2 // the file must be refused for its invalid pattern, whichever line holds it
				}
				ref2 = nil
			}
		}
		rep.Histo("e2e_construct", strings.SplitN(p.Feat, "/", 2)[0])
		viol := func(symptom string, feat map[string]string, detail string) {
			feat["pattern_kind"] = ref.kind()
			feat["construct"] = strings.SplitN(p.Feat, "/", 2)[0]
			v := &core.Violation{Property: "C19", Monitor: "end-to-end", Symptom: symptom, Features: feat, Case: c.S.ID,
				Detail: fmt.Sprintf(":skip %s: %s", p.Text, detail), Files: c.ReplayFiles()}
			rep.Violate(v)
		}
		if c.Run.Crashed() || c.Run.TimedOut {
			rep.Eval(1)
			viol("tool-crashed-on-pattern", map[string]string{"valid": fmt.Sprint(ref.valid)}, core.Trunc(c.Run.Stderr, 400))
			continue
		}
		if !ref.valid {
			rep.Eval(1)
			rep.Distinct("t|invalid|" + fmt.Sprint(c.Run.Exit != 0))
			if ref.undecided {
				continue
			}
			if _, err := syntax.Parse("(?i)"+ref.body, syntax.Perl); err == nil {
				continue // validity differs between re and (?i)re: the oracle abstains
			}
			if c.Run.Exit == 0 {
				viol("invalid-regexp-accepted", map[string]string{}, "the run exits 0")
			}
			continue
		}
		if c.Run.Exit != 0 {
			rep.Eval(1)
			viol("valid-pattern-rejected", map[string]string{}, fmt.Sprintf("exit %d: %s", c.Run.Exit, core.Trunc(c.Run.Stderr, 300)))
			continue
		}
		if !Runnable(c) {
			rep.Eval(1)
			rep.Inconclusive(fmt.Sprintf("c19 e2e %s (%s): output not analysable: %s", c.S.ID, p.Text, core.Trunc(strings.Join(c.TypeErrs, "; "), 300)))
			continue
		}
		_, infos := PrepareUnit(c)
		for _, v := range variants {
			fi := infos["Skip"+v.name]
			if fi == nil {
				rep.Inconclusive(fmt.Sprintf("c19 e2e %s: function Skip%s not found in the output", c.S.ID, v.name))
				continue
			}
			roleOf := RoleOf(fi)
			for _, leaf := range leaves {
				rep.Eval(1)
				want, by := false, ""
				segs := strings.Split(leaf, ".")
				for k := 1; k <= len(segs); k++ {
					pre := strings.Join(segs[:k], ".")
					if ref.match(pre, v.exact) || (ref2 != nil && ref2.match(pre, v.exact)) {
						want, by = true, pre
						break
					}
				}
				if ref.undecided || (ref2 != nil && ref2.undecided) {
					break
				}
				lo := ObserveLeaf(fi, roleOf, leaf)
				got := lo.Kind == "skip"
				depth := fmt.Sprint(len(segs))
				nonASCII := fmt.Sprint(strings.IndexFunc(leaf, func(c rune) bool { return c > 127 }) >= 0)
				rep.Distinct(strings.Join([]string{"t", ref.kind(), p.Feat, v.name, depth, nonASCII, c19Bool01(want), c19Bool01(got)}, "|"))
				rep.Histo("e2e_skip_decisions", fmt.Sprintf("case-rule-%s/reference-match=%v", map[bool]string{true: "on", false: "off"}[v.exact], want))
				if got == want {
					continue
				}
				sym := "skipped-though-pattern-does-not-match"
				if want {
					sym = "not-skipped-though-pattern-matches"
				}
				viol(sym, map[string]string{"case_rule": v.name, "depth": depth, "non_ascii_path": nonASCII},
					fmt.Sprintf("method Skip%s (case rule %s): destination %s is %s in the output (covered by %q); the reference says match=%v%s",
						v.name, map[bool]string{true: "on", false: "off"}[v.exact], leaf, lo.Kind, lo.CoverPath, want,
						map[bool]string{true: " via " + by, false: ""}[want]))
			}
		}
		if i < 3 || i == nFixed {
			rep.Sample(map[string]any{"part": "t", "pattern": p.Text, "construct": p.Feat, "exit": c.Run.Exit, "functions": len(infos), "leaves_judged_per_function": len(leaves)}, 4)
		}
	}
	rep.Extra("e2e_patterns", len(pats))
	rep.Extra("e2e_destination_paths", all)
}
