package checks

import (
	"strings"

	"vh/scen"
)

// Fixed, hand-written VALID uses of notations that name functions through the setup file's imports.
// They were added in round 7 of the seeded-change campaign (DESIGN 10.2): every one is accepted by
// the pinned tree and yields compiling code. C03 judges acceptance + the function multiset, C10 the
// hook monitors, C07 the error wiring (ErrSites are declared).

// addImports puts import lines (and trailing text) into the setup file of a finished scenario.
func addImports(s *scen.Scenario, imports []string, tail string) {
	setup := s.Files[s.Setup]
	at := strings.Index(setup, "\npackage ")
	eol := at + 1 + strings.Index(setup[at+1:], "\n")
	blk := "\nimport (\n"
	for _, im := range imports {
		blk += "\t" + im + "\n"
	}
	blk += ")\n"
	s.Files[s.Setup] = setup[:eol+1] + blk + setup[eol+1:] + tail
}

func shapeProbes() []scen.Probe {
	return []scen.Probe{{Dst: "X", Mech: "same", DstT: "int", SrcT: "int"}, {Dst: "Y", Mech: "same", DstT: "string", SrcT: "string"}}
}

// corpusImportedFuncs: functions of DOT-imported packages named without qualifier in :conv and hooks,
// converters of a blank-imported package whose name differs from its directory, and a blank import
// listed in front of an ordinary import of a same-named package (the hook is the ordinary one's).
func corpusImportedFuncs(prefix string) []*scen.Scenario {
	var out []*scen.Scenario
	helpers := func(s *scen.Scenario, dir, pkg, extra string) {
		s.Files[s.PkgRel+"/"+dir+"/h.go"] = "package " + pkg + "\n\nimport (\n\t\"vb/ext\"\n\t\"vb/vtr\"\n)\n\nconst Marker = 1\n\n" +
			"func Up(v string) string {\n\tvtr.Enter(\"" + pkg + ".Up\", v)\n\treturn v + \"!\"\n}\n\n" +
			"func Before(d, s *ext.Shape) {\n\tvtr.Enter(\"" + pkg + ".Before\", d, s)\n}\n\nfunc After(d, s *ext.Shape) {\n\tvtr.Enter(\"" + pkg + ".After\", d, s)\n}\n" + extra
	}
	{
		// dot import: hooks and converter named bare
		id := prefix + "dot"
		b := scen.NewBuilder(nil, scen.Profile{}, id, id)
		m := &scen.Method{Name: "DotHooked", Src: scen.Param{Type: "*ext.Shape"}, Dst: scen.Param{Type: "*ext.Shape"},
			Notations: []scen.Notation{scen.N("preprocess", "Before"), scen.N("postprocess", "After"), scen.N("conv", "Up", "Y")},
			Probes:    []scen.Probe{{Dst: "X", Mech: "same", DstT: "int", SrcT: "int"}, {Dst: "Y", Mech: "conv", DstT: "string", SrcT: "string", Extra: "plain"}}}
		s := b.Manual(m)
		addImports(s, []string{". \"" + s.PkgPath() + "/dothelp\""}, "\nvar _ = Marker\n")
		helpers(s, "dothelp", "dothelp", "")
		out = append(out, s)
	}
	{
		// blank import, package clause differs from the directory, used by :conv (README form for converters)
		id := prefix + "blankconv"
		b := scen.NewBuilder(nil, scen.Profile{}, id, id)
		m := &scen.Method{Name: "BlankConv", Src: scen.Param{Type: "*ext.Shape"}, Dst: scen.Param{Type: "*ext.Shape"},
			Notations: []scen.Notation{scen.N("conv", "crypto.Up", "Y")},
			Probes:    []scen.Probe{{Dst: "X", Mech: "same", DstT: "int", SrcT: "int"}, {Dst: "Y", Mech: "conv", DstT: "string", SrcT: "string", Extra: "ext"}}}
		s := b.Manual(m)
		addImports(s, []string{"_ \"" + s.PkgPath() + "/crypto/v2\""}, "")
		helpers(s, "crypto/v2", "crypto", "")
		out = append(out, s)
	}
	{
		// `_ ".../compat/hooks"` in front of `".../hooks"`: both packages are called hooks, the notation names
		// the ordinary import's function, which returns an error (the other one's does not)
		id := prefix + "blankfirst"
		b := scen.NewBuilder(nil, scen.Profile{}, id, id)
		m := &scen.Method{Name: "BlankFirst", Src: scen.Param{Type: "*ext.Shape"}, Dst: scen.Param{Type: "*ext.Shape"}, HasErr: true,
			Notations: []scen.Notation{scen.N("preprocess", "hooks.Validate")}, ErrSites: []string{"hooks.Validate"}, PreSite: "hooks.Validate",
			Probes: shapeProbes()}
		s := b.Manual(m)
		addImports(s, []string{"_ \"" + s.PkgPath() + "/compat/hooks\"", "\"" + s.PkgPath() + "/hooks\""}, "\nvar _ = hooks.Marker\n")
		s.Files[s.PkgRel+"/compat/hooks/h.go"] = "package hooks\n\nimport \"vb/ext\"\n\nconst Marker = 0\n\nfunc Validate(d, s *ext.Shape) {}\n"
		s.Files[s.PkgRel+"/hooks/h.go"] = "package hooks\n\nimport (\n\t\"vb/ext\"\n\t\"vb/vtr\"\n)\n\nconst Marker = 1\n\n" +
			"func Validate(d, s *ext.Shape) error {\n\tvtr.Enter(\"hooks.Validate\", d, s)\n\tif vtr.Fail(\"hooks.Validate\") {\n\t\treturn vtr.ErrOf(\"hooks.Validate\")\n\t}\n\treturn nil\n}\n"
		out = append(out, s)
	}
	{
		// an additional argument the setup file names `_`: the hook that declares it still receives it
		id := prefix + "blankextra"
		b := scen.NewBuilder(nil, scen.Profile{}, id, id)
		b.Func("func ctxBefore(d, s *ext.Shape, tag string) {\n\tvtr.Enter(\"ctxBefore\", d, s, tag)\n}\n", true, "")
		b.Func("func ctxAfter(d, s *ext.Shape, tag string) {\n\tvtr.Enter(\"ctxAfter\", d, s, tag)\n}\n", true, "")
		m := &scen.Method{Name: "BlankExtra", Src: scen.Param{Type: "*ext.Shape", Name: "src"}, Dst: scen.Param{Type: "*ext.Shape", Name: "dst"},
			Extras:    []scen.Param{{Type: "string", Name: "_"}},
			Notations: []scen.Notation{scen.N("preprocess", "ctxBefore"), scen.N("postprocess", "ctxAfter")}, Probes: shapeProbes()}
		out = append(out, b.Manual(m))
	}
	return out
}

// corpusReverseHooks: a :reverse method with hooks, once with the hook parameters in the order of the
// declared (destination, source) and once swapped. The property does not say which of the two a
// reversed method's "own destination" is, so the rule is orientation-free: at least one orientation is
// accepted, and whatever is accepted compiles (judged by the callers).
func corpusReverseHooks(prefix string) []*scen.Scenario {
	var out []*scen.Scenario
	for _, k := range []string{"decl", "swap"} {
		id := prefix + k
		b := scen.NewBuilder(nil, scen.Profile{}, id, id)
		b.Struct("", "RA", "X int", "Y string")
		b.Struct("", "RB", "X int", "Y string")
		first, second := "*RB", "*RA" // declared destination, declared source
		if k == "swap" {
			first, second = second, first
		}
		b.Func("func revBefore(p "+first+", q "+second+") {\n\tvtr.Enter(\"revBefore\", p, q)\n}\n", true, "")
		b.Func("func revAfter(p "+first+", q "+second+") {\n\tvtr.Enter(\"revAfter\", p, q)\n}\n", true, "")
		m := &scen.Method{Name: "Load", Src: scen.Param{Type: "*RA"}, Dst: scen.Param{Type: "*RB"},
			Notations: []scen.Notation{scen.N("style", "arg"), scen.N("recv", "r"), scen.N("reverse"), scen.N("preprocess", "revBefore"), scen.N("postprocess", "revAfter")},
			Probes:    shapeProbes()}
		s := b.Manual(m)
		s.InConv = false // judged by the orientation-free rule only
		out = append(out, s)
	}
	return out
}
