module vh

go 1.23
