package scen

import (
	"fmt"
	"math/rand"
	"regexp"
	"sort"
	"strings"
)

var (
	reUsesM   = regexp.MustCompile(`(^|[^A-Za-z0-9_."])m\.[A-Z]`)
	reUsesExt = regexp.MustCompile(`(^|[^A-Za-z0-9_."])ext\.[A-Za-z]`)
)

// FDecl is a struct field declaration.
type FDecl struct {
	Name     string
	Type     string // as seen from the scenario package
	Embedded bool
}

// SDecl is a generated struct type.
type SDecl struct {
	Pkg     string // "" = scenario package, "m" = per-scenario imported package
	Name    string
	Fields  []FDecl
	Methods []string // full Go source of methods, written for the declaring package
}

// Ref returns the type expression as seen from the scenario package.
func (s *SDecl) Ref() string {
	if s.Pkg == "" {
		return s.Name
	}
	return s.Pkg + "." + s.Name
}

// Profile biases the generator.
type Profile struct {
	Name        string
	MinMethods  int
	MaxMethods  int
	MinFields   int
	MaxFields   int
	MaxDepth    int
	Mechs       map[string]int // weights of field mechanisms
	PToggle     float64        // probability of each toggle notation
	PErr        float64        // probability that a method has an error result
	PArgStyle   float64
	PRecv       float64
	PReverse    float64 // only with arg style and no extras
	PExtras     float64
	PHooks      float64
	PImportedS  float64 // struct declared in package m
	PValOperand float64 // operand by value instead of pointer
	PNamed      float64 // named parameters
	PDocLines   float64
	PClone      float64 // an additional clone-style method (same struct type on both sides)
	NoExecOnly  bool    // allow types the exec runtime cannot judge (func/chan are still fine)
	// Types restricts the alphabet by kind prefix (nil = all).
	Types []string
	// ConvErrInNoErr allows error-returning converters in methods without error (C07 static part).
	ConvErrInNoErr float64
}

// DefaultMechs is the broad mechanism mix.
var DefaultMechs = map[string]int{
	"same": 30, "diff": 22, "case": 8, "getter": 10, "nested": 10, "skip": 6, "map": 10, "conv": 10,
	"literal": 4, "none": 5, "slice": 10, "unexported": 4, "embedded": 3, "ptrnested": 4, "blank": 2, "twin": 3, "embgetter": 2,
}

// Broad is the profile used by C01/C02/C04/C05.
func Broad() Profile {
	return Profile{Name: "broad", MinMethods: 1, MaxMethods: 4, MinFields: 2, MaxFields: 7, MaxDepth: 2,
		Mechs: DefaultMechs, PToggle: 0.35, PErr: 0.4, PArgStyle: 0.3, PRecv: 0.2, PReverse: 0.3,
		PExtras: 0.3, PHooks: 0.25, PImportedS: 0.3, PValOperand: 0.3, PNamed: 0.3, PDocLines: 0.3, PClone: 0.08,
		ConvErrInNoErr: 0.15}
}

// Builder builds one scenario.
type Builder struct {
	R      *rand.Rand
	P      Profile
	S      *Scenario
	decls  []*SDecl
	funcsT []string // functions placed in types.go (ordinary build)
	funcsS []string // functions placed in setup.go (carried over)
	funcsM []string // functions placed in package m
	n      int
	usesM  bool
	// Pending holds extra methods created while generating a method (":conv" targets that are
	// themselves generated in the same run).
	Pending []*Method
	// PkgNameMode varies the per-scenario imported package: "" (package m in directory m), "differs"
	// (package mq in directory m, imported without a name), "alias-collide" (package clause "ext" in
	// directory m, imported with the explicit name m next to the real vb/ext).
	PkgNameMode string
}

var baseWords = []string{"Id", "Name", "Val", "Cnt", "Tag", "Ref", "Opt", "Nest", "List", "Kind", "Code", "Flag", "Size", "Txt", "Aux", "Key"}

func (b *Builder) next() int { b.n++; return b.n }

func (b *Builder) pick(w map[string]int) string {
	keys := make([]string, 0, len(w))
	tot := 0
	for k, v := range w {
		if v > 0 {
			keys = append(keys, k)
			tot += v
		}
	}
	sort.Strings(keys)
	x := b.R.Intn(tot)
	for _, k := range keys {
		x -= w[k]
		if x < 0 {
			return k
		}
	}
	return keys[0]
}

func (b *Builder) chance(p float64) bool { return b.R.Float64() < p }

// typeFor picks an alphabet type usable in both given packages.
func (b *Builder) typeFor(pkgs ...string) TypeEntry {
	needNonLocal := false
	for _, p := range pkgs {
		if p != "" {
			needNonLocal = true
		}
	}
	for {
		t := Alphabet[b.R.Intn(len(Alphabet))]
		if needNonLocal && t.Local {
			continue
		}
		if len(b.P.Types) > 0 {
			ok := false
			for _, pre := range b.P.Types {
				if strings.HasPrefix(t.Kind, pre) {
					ok = true
				}
			}
			if !ok {
				continue
			}
		}
		return t
	}
}

func (b *Builder) newStruct(pkg, prefix string) *SDecl {
	d := &SDecl{Pkg: pkg, Name: fmt.Sprintf("%s%d", prefix, b.next())}
	if pkg == "m" {
		b.usesM = true
	}
	b.decls = append(b.decls, d)
	return d
}

func lowerFirst(s string) string { return strings.ToLower(s[:1]) + s[1:] }

func caseVariant(r *rand.Rand, s string) string {
	switch r.Intn(3) {
	case 0:
		return strings.ToUpper(s)
	case 1:
		return lowerFirst(s)
	default:
		// flip second letter
		if len(s) > 1 {
			return s[:1] + strings.ToUpper(s[1:2]) + s[2:]
		}
		return strings.ToUpper(s)
	}
}

// getterSrc renders an instrumented getter.
func getterSrc(recvPkg, recvType, name, retType, body string, ptrRecv bool) string {
	rt := renderIn(recvPkg, retType)
	recv := "r " + recvType
	if ptrRecv {
		recv = "r *" + recvType
	}
	site := recvType + "." + name
	if recvPkg != "" {
		site = recvPkg + "." + site
	}
	return fmt.Sprintf("func (%s) %s() %s {\n\tvtr.Enter(%q)\n\treturn %s\n}\n", recv, name, rt, site, body)
}

// renderIn rewrites a type expression written for the scenario package for use inside pkg.
func renderIn(pkg, expr string) string {
	if pkg == "" {
		return expr
	}
	return strings.ReplaceAll(expr, pkg+".", "")
}

// pairCtx carries what nested generation needs.
type pairCtx struct {
	rootSrc  *SDecl // struct declaration of the copy source operand
	m        *Method
	srcPkg   string
	dstPkg   string
	dstPath  []string // destination path prefix
	srcPath  []string // source path prefix (member names; getters with "()")
	depth    int
	topLevel bool
}

func joinPath(prefix []string, name string) string {
	return strings.Join(append(append([]string{}, prefix...), name), ".")
}

// genPair fills src/dst struct declarations field by field.
func (b *Builder) genPair(ctx pairCtx, src, dst *SDecl, nfields int) {
	for i := 0; i < nfields; i++ {
		word := baseWords[b.R.Intn(len(baseWords))]
		name := fmt.Sprintf("%s%d", word, b.next())
		if b.chance(0.12) {
			name = fmt.Sprintf("%s_%d", word, b.next()) // underscores are ordinary identifier characters
		}
		mech := b.pick(b.P.Mechs)
		if ctx.depth >= b.P.MaxDepth && (mech == "nested" || mech == "ptrnested" || mech == "embedded") {
			mech = "same"
		}
		b.genField(ctx, src, dst, name, mech)
	}
}

func (b *Builder) addProbe(ctx pairCtx, name, mech, dstT, srcT, extra string) {
	ctx.m.Probes = append(ctx.m.Probes, Probe{Dst: joinPath(ctx.dstPath, name), Mech: mech, DstT: dstT, SrcT: srcT, Extra: extra})
}

func (b *Builder) genField(ctx pairCtx, src, dst *SDecl, name, mech string) {
	m := ctx.m
	switch mech {
	case "same":
		t := b.typeFor(src.Pkg, dst.Pkg)
		dst.Fields = append(dst.Fields, FDecl{Name: name, Type: t.Expr})
		src.Fields = append(src.Fields, FDecl{Name: name, Type: t.Expr})
		b.addProbe(ctx, name, mech, t.Expr, t.Expr, "")
	case "diff":
		td := b.typeFor(dst.Pkg)
		ts := b.typeFor(src.Pkg)
		dst.Fields = append(dst.Fields, FDecl{Name: name, Type: td.Expr})
		src.Fields = append(src.Fields, FDecl{Name: name, Type: ts.Expr})
		b.addProbe(ctx, name, mech, td.Expr, ts.Expr, "")
	case "case":
		t := b.typeFor(src.Pkg, dst.Pkg)
		sn := caseVariant(b.R, name)
		dst.Fields = append(dst.Fields, FDecl{Name: name, Type: t.Expr})
		src.Fields = append(src.Fields, FDecl{Name: sn, Type: t.Expr})
		extra := "one"
		if b.chance(0.3) {
			// a second case variant with a non-fitting type in front of / behind the fitting one
			other := b.typeFor(src.Pkg)
			sn2 := caseVariant(b.R, name)
			if sn2 != sn && sn2 != name {
				f := FDecl{Name: sn2, Type: other.Expr}
				if b.chance(0.5) {
					src.Fields = append(src.Fields[:len(src.Fields)-1], f, src.Fields[len(src.Fields)-1])
				} else {
					src.Fields = append(src.Fields, f)
				}
				extra = "two"
			}
		}
		b.addProbe(ctx, name, mech, t.Expr, t.Expr, extra)
	case "getter":
		t := b.typeFor(src.Pkg, dst.Pkg)
		if b.chance(0.3) {
			// getter of a different type than the destination
			t2 := b.typeFor(src.Pkg)
			dst.Fields = append(dst.Fields, FDecl{Name: name, Type: t.Expr})
			t = t2
		} else {
			dst.Fields = append(dst.Fields, FDecl{Name: name, Type: t.Expr})
		}
		hidden := fmt.Sprintf("g%s", name)
		src.Fields = append(src.Fields, FDecl{Name: hidden, Type: t.Expr})
		gname := name
		if b.chance(0.35) {
			gname = caseVariant(b.R, name)
		}
		ptrRecv := b.chance(0.4)
		src.Methods = append(src.Methods, getterSrc(src.Pkg, src.Name, gname, t.Expr, "r."+hidden, ptrRecv))
		extra := "valrecv"
		if ptrRecv {
			extra = "ptrrecv"
		}
		if b.chance(0.45) {
			// competing field whose name differs from the getter's only in case (both match under :case:off)
			t3 := b.typeFor(src.Pkg)
			if b.chance(0.6) {
				t3 = t
			}
			if gname != name {
				src.Fields = append(src.Fields, FDecl{Name: name, Type: t3.Expr})
				extra += "+field"
			}
		}
		b.addProbe(ctx, name, mech, dst.Fields[len(dst.Fields)-1].Type, t.Expr, extra)
	case "nested", "ptrnested", "embedded":
		sp, dp := src.Pkg, dst.Pkg
		if b.chance(0.3) {
			sp = b.otherPkg(sp)
		}
		if b.chance(0.3) {
			dp = b.otherPkg(dp)
		}
		// an m-declared struct cannot have a field of a scenario-local struct type
		if src.Pkg == "m" {
			sp = "m"
		}
		if dst.Pkg == "m" {
			dp = "m"
		}
		ns := b.newStruct(sp, "SN")
		nd := b.newStruct(dp, "DN")
		same := b.chance(0.15)
		// a sibling field WITHOUT any notation below it, whose name is a proper prefix of the nested
		// field's name and whose type is the nested struct type itself (same && whole-struct copy) or a
		// foreign struct with hidden members: it must keep being copied as a whole whatever notations
		// address the members of its longer-named neighbour
		sibling, sibFirst := "", b.chance(0.7)
		if mech == "nested" && b.chance(0.25) {
			sibling = name
			name = name + "By"
		}
		// the nested SOURCE struct may be reached through a getter that returns it by value: its members
		// are then members of a value without an address (no pointer-receiver getters on it)
		viaGetter := mech == "nested" && sibling == "" && b.chance(0.2)
		sub := ctx
		sub.depth++
		sub.srcPkg, sub.dstPkg = sp, dp
		sub.dstPath = append(append([]string{}, ctx.dstPath...), name)
		sub.srcPath = append(append([]string{}, ctx.srcPath...), name)
		if viaGetter {
			sub.srcPath[len(sub.srcPath)-1] = name + "()"
		}
		sub.topLevel = false
		nf := 1 + b.R.Intn(3)
		if b.chance(0.1) {
			nf = 0
		}
		if mech == "nested" && ns.Pkg == nd.Pkg && b.chance(0.15) {
			// a member that points back to the type of its own (by-value) struct, assignable from a
			// same-typed source member: recursive types are ordinary fields
			back := fmt.Sprintf("Next%d", b.next())
			pt := "*" + nd.Ref()
			nd.Fields = append(nd.Fields, FDecl{Name: back, Type: pt})
			ns.Fields = append(ns.Fields, FDecl{Name: back, Type: pt})
			b.addProbe(sub, back, "same", pt, pt, "self-pointer")
		}
		st, dt := ns.Ref(), nd.Ref()
		if same && (ns.Pkg == nd.Pkg) {
			// same struct type on both sides: whole-struct copy
			b.genPair(sub, ns, nd, nf)
			st = dt
			// ns stays declared but unused
		} else {
			b.genPair(sub, ns, nd, nf)
		}
		if sibling != "" {
			sibT := "ext.Inner"
			if st == dt && b.chance(0.6) {
				sibT = dt
			}
			if sibFirst {
				dst.Fields = append(dst.Fields, FDecl{Name: sibling, Type: sibT})
				src.Fields = append(src.Fields, FDecl{Name: sibling, Type: sibT})
			} else {
				defer func() {
					dst.Fields = append(dst.Fields, FDecl{Name: sibling, Type: sibT})
					src.Fields = append(src.Fields, FDecl{Name: sibling, Type: sibT})
				}()
			}
			b.addProbe(ctx, sibling, "same", sibT, sibT, "prefix-named-sibling")
		}
		switch mech {
		case "ptrnested":
			switch b.R.Intn(3) {
			case 0:
				st, dt = "*"+st, "*"+dt
			case 1:
				st = "*" + st
			default:
				dt = "*" + dt
			}
		}
		if mech == "embedded" && !strings.Contains(st, "*") {
			// embedded on both sides: field name = type name, so use matching names via same type name trick:
			// embed dst struct, source field is named like the dst type.
			dst.Fields = append(dst.Fields, FDecl{Name: nd.Name, Type: dt, Embedded: true})
			src.Fields = append(src.Fields, FDecl{Name: nd.Name, Type: st})
			// fix recorded probe paths: nested probes were recorded under `name`; rewrite
			for i := range m.Probes {
				p := joinPath(ctx.dstPath, name)
				if strings.HasPrefix(m.Probes[i].Dst, p+".") {
					m.Probes[i].Dst = joinPath(ctx.dstPath, nd.Name) + strings.TrimPrefix(m.Probes[i].Dst, p)
				}
			}
			rewriteNotationPaths(m, joinPath(ctx.dstPath, name), joinPath(ctx.dstPath, nd.Name), joinPath(ctx.srcPath, name), joinPath(ctx.srcPath, nd.Name))
			b.addProbe(ctx, nd.Name, mech, dt, st, "")
			return
		}
		dst.Fields = append(dst.Fields, FDecl{Name: name, Type: dt})
		if viaGetter {
			src.Fields = append(src.Fields, FDecl{Name: "g" + name, Type: st})
			src.Methods = append(src.Methods, getterSrc(src.Pkg, src.Name, name, st, "r.g"+name, b.chance(0.25)))
			if _, ok := m.Get("getter"); !ok && b.chance(0.7) {
				m.Notations = append(m.Notations, Notation{Name: "getter"})
			}
			b.addProbe(ctx, name, mech, dt, st, "via-getter")
			return
		}
		src.Fields = append(src.Fields, FDecl{Name: name, Type: st})
		b.addProbe(ctx, name, mech, dt, st, "")
	case "skip":
		// a field that would match, plus a :skip naming it
		inner := b.pick(map[string]int{"same": 5, "diff": 2, "none": 1, "conv": 2, "map": 2, "nested": 2, "literal": 1})
		if ctx.depth >= b.P.MaxDepth && inner == "nested" {
			inner = "same"
		}
		b.genField(ctx, src, dst, name, inner)
		last := dst.Fields[len(dst.Fields)-1].Name
		path := joinPath(ctx.dstPath, last)
		arg := path
		kind := "exact"
		quoted := strings.ReplaceAll(path, ".", `\.`)
		switch b.R.Intn(9) {
		case 0:
			arg = "/^" + quoted + "$/"
			kind = "regexp-anchored"
		case 1:
			arg = "/" + last + "/"
			kind = "regexp-partial"
		case 2:
			// case-variant spelling: only matches under :case:off
			arg = strings.ToLower(path)
			kind = "exact-lower"
		case 3, 4:
			// a construct spliced in at one letter of the last segment: counted repetition, classes
			// (also with a comma inside), alternation, escapes; the reference model decides what it matches
			i := len(quoted) - 1 - b.R.Intn(len(last))
			c := string(quoted[i])
			repl := []string{c + "{1,2}", c + "{1,}", "[" + c + ",]", "[^,]", "(?:" + c + "|,)", "(" + c + ")", `\x{` + fmt.Sprintf("%X", quoted[i]) + "}", c + "?" + c, `\w`, "[[:alnum:]]", c + "{0,0}" + c}[b.R.Intn(11)]
			arg = "/^" + quoted[:i] + repl + quoted[i+1:] + "$/"
			kind = "regexp-construct"
		case 5:
			// near misses that must NOT match (the field stays governed by its other rule)
			arg = []string{"/^" + quoted + "{2,3}$/", "/^" + quoted + ",$/", "/^(?:" + quoted + "){2,}$/", "/^" + quoted + "[,;]$/", "/^" + quoted + "$x/"}[b.R.Intn(5)]
			kind = "regexp-nearmiss"
		}
		n := Notation{Name: "skip", Args: []string{arg}}
		// position: before or after the notations the inner mechanism added
		if b.chance(0.5) {
			m.Notations = append([]Notation{n}, m.Notations...)
		} else {
			m.Notations = append(m.Notations, n)
		}
		b.addProbe(ctx, last, "skip", "", "", kind+"/"+inner)
	case "map":
		b.genMap(ctx, src, dst, name)
	case "conv":
		if b.chance(0.15) && src.Pkg == "" && dst.Pkg == "" {
			b.genConvGenerated(ctx, src, dst, name)
		} else {
			b.genConv(ctx, src, dst, name)
		}
	case "literal":
		t := b.pick(map[string]int{"int": 3, "string": 3, "bool": 1, "LInt": 1, "*int": 1})
		lit := map[string]string{"int": "4242", "string": `"lit-` + name + `"`, "bool": "true", "LInt": "LInt(77)", "*int": "nil"}[t]
		if t == "string" && b.chance(0.4) {
			// characters that are special to text templating / regexp replacement must survive literally
			// ... and so must comment markers inside the literal text
			lit = []string{`"$USD"`, `"$1.50off"`, `"${name}"`, `"100%d"`, `"a\\b"`, "`raw$0`", `"x$$y"`, `"http://x.y/z"`, `"a // b"`, `"/*c*/"`}[b.R.Intn(10)]
		}
		if (dst.Pkg != "" || src.Pkg != "") && t == "LInt" {
			t, lit = "int", "4242"
		}
		if t == "int" && b.chance(0.35) {
			// a literal whose text also occurs INSIDE the name of its destination field
			if i := strings.IndexAny(name, "0123456789"); i >= 0 {
				lit = strings.TrimLeft(strings.Trim(name[i:], "_"), "0")
				if lit == "" {
					lit = "4242"
				}
			}
		}
		if t == "string" && b.chance(0.15) {
			lit = `"` + name + `"`
		}
		dst.Fields = append(dst.Fields, FDecl{Name: name, Type: t})
		if b.chance(0.4) {
			// a same-named default candidate the literal must win over
			src.Fields = append(src.Fields, FDecl{Name: name, Type: t})
		}
		m.Notations = append(m.Notations, Notation{Name: "literal", Args: []string{joinPath(ctx.dstPath, name), lit}})
		b.addProbe(ctx, name, mech, t, "", lit)
	case "none":
		t := b.typeFor(dst.Pkg)
		dst.Fields = append(dst.Fields, FDecl{Name: name, Type: t.Expr})
		b.addProbe(ctx, name, mech, t.Expr, "", "")
	case "slice":
		b.genSlice(ctx, src, dst, name)
	case "twin":
		// case twins: an exported field and an unexported one that differ only in case, a notation on
		// ONE of them (":map"/":literal"/":conv" destinations compare case-sensitively whatever the case rule)
		if dst.Pkg != "" || src.Pkg != "" {
			b.genField(ctx, src, dst, name, "same")
			return
		}
		low := lowerFirst(name)
		t := "int"
		dst.Fields = append(dst.Fields, FDecl{Name: name, Type: t}, FDecl{Name: low, Type: t})
		src.Fields = append(src.Fields, FDecl{Name: name, Type: t}, FDecl{Name: low, Type: t})
		other := fmt.Sprintf("Other%d", b.next())
		target := low
		if b.chance(0.5) {
			target = name
		}
		kind := b.pick(map[string]int{"map": 4, "literal": 3, "skip": 2, "mapmiscased": 3})
		switch kind {
		case "map":
			src.Fields = append(src.Fields, FDecl{Name: other, Type: t})
			m.Notations = append(m.Notations, Notation{Name: "map", Args: []string{joinPath(ctx.srcPath, other), joinPath(ctx.dstPath, target)}})
		case "mapmiscased":
			// the destination of the notation is spelled in a case that matches NO field exactly
			src.Fields = append(src.Fields, FDecl{Name: other, Type: t})
			m.Notations = append(m.Notations, Notation{Name: "map", Args: []string{joinPath(ctx.srcPath, other), joinPath(ctx.dstPath, strings.ToUpper(name))}})
		case "literal":
			m.Notations = append(m.Notations, Notation{Name: "literal", Args: []string{joinPath(ctx.dstPath, target), "4242"}})
		case "skip":
			m.Notations = append(m.Notations, Notation{Name: "skip", Args: []string{joinPath(ctx.dstPath, target)}})
		}
		b.addProbe(ctx, name, "twin", t, t, kind+"/"+target)
		b.addProbe(ctx, low, "twin", t, t, kind+"/"+target)
	case "embgetter":
		// a LOCAL source struct that embeds a struct of another package which has an unexported
		// getter-shaped method (secret) and an exported one (Hid); destination fields named like them
		if src.Pkg != "" || dst.Pkg != "" {
			b.genField(ctx, src, dst, name, "same")
			return
		}
		for _, f := range src.Fields {
			if f.Name == "Inner" {
				b.genField(ctx, src, dst, name, "same")
				return
			}
		}
		for _, f := range dst.Fields {
			if f.Name == "secret" || f.Name == "Hid" {
				b.genField(ctx, src, dst, name, "same")
				return
			}
		}
		src.Fields = append(src.Fields, FDecl{Name: "Inner", Type: "ext.Inner", Embedded: true})
		dst.Fields = append(dst.Fields, FDecl{Name: "secret", Type: "int"}, FDecl{Name: "Hid", Type: "int"})
		b.addProbe(ctx, "secret", "embgetter", "int", "", "unexported-promoted")
		b.addProbe(ctx, "Hid", "embgetter", "int", "", "exported-promoted")
	case "blank":
		// blank padding fields: can be neither read nor assigned, the fields after them must still be handled
		t := []string{"int32", "[0]func()", "struct{}", "string"}[b.R.Intn(4)]
		dst.Fields = append(dst.Fields, FDecl{Name: "_", Type: t})
		if b.chance(0.5) {
			src.Fields = append(src.Fields, FDecl{Name: "_", Type: t})
		}
		// and a regular field after it
		b.genField(ctx, src, dst, name, "same")
	case "unexported":
		t := b.typeFor(src.Pkg, dst.Pkg)
		un := lowerFirst(name)
		dst.Fields = append(dst.Fields, FDecl{Name: un, Type: t.Expr})
		src.Fields = append(src.Fields, FDecl{Name: un, Type: t.Expr})
		if dst.Pkg != "" && b.chance(0.5) {
			// a :skip pattern that matches the UNREACHABLE member: it must still never be mentioned
			pat := []string{joinPath(ctx.dstPath, un), "/" + un + "$/", "/(?i)" + un + "/", strings.ToUpper(joinPath(ctx.dstPath, un))}[b.R.Intn(4)]
			m.Notations = append(m.Notations, Notation{Name: "skip", Args: []string{pat}})
		}
		b.addProbe(ctx, un, mech, t.Expr, t.Expr, fmt.Sprintf("dstpkg=%q srcpkg=%q", dst.Pkg, src.Pkg))
	default:
		panic("unknown mech " + mech)
	}
}

func rewriteNotationPaths(m *Method, oldDst, newDst, oldSrc, newSrc string) {
	rw := func(s, o, n string) string {
		if s == o {
			return n
		}
		if strings.HasPrefix(s, o+".") {
			return n + strings.TrimPrefix(s, o)
		}
		return s
	}
	for i := range m.Notations {
		n := &m.Notations[i]
		switch n.Name {
		case "skip", "literal":
			if len(n.Args) > 0 && !strings.HasPrefix(n.Args[0], "/") {
				n.Args[0] = rw(n.Args[0], oldDst, newDst)
				n.Args[0] = rw(n.Args[0], strings.ToLower(oldDst), strings.ToLower(newDst))
			}
		case "map":
			if len(n.Args) >= 2 {
				n.Args[0] = rw(n.Args[0], oldSrc, newSrc)
				n.Args[1] = rw(n.Args[1], oldDst, newDst)
			}
		case "conv":
			if len(n.Args) >= 2 {
				n.Args[1] = rw(n.Args[1], oldSrc, newSrc)
				if len(n.Args) >= 3 {
					n.Args[2] = rw(n.Args[2], oldDst, newDst)
				} else if oldSrc != newSrc || oldDst != newDst {
					n.Args = append(n.Args, rw(n.Args[1], newSrc, newDst))
				}
			}
		}
	}
}

func (b *Builder) otherPkg(p string) string {
	if p == "" {
		return "m"
	}
	return ""
}

// scalar types convenient for map/conv probes: (type, unique-value friendly)
var simpleTypes = []string{"int", "string", "int64", "bool", "float64", "uint8", "error", "interface{}"}

func (b *Builder) genMap(ctx pairCtx, src, dst *SDecl, name string) {
	m := ctx.m
	t := simpleTypes[b.R.Intn(len(simpleTypes))]
	if b.chance(0.15) {
		t = []string{"[]int", "[]string", "[]byte"}[b.R.Intn(3)] // mapped slices (also out of (slice, error) getters)
	}
	dst.Fields = append(dst.Fields, FDecl{Name: name, Type: t})
	dpath := joinPath(ctx.dstPath, name)
	variant := b.pick(map[string]int{"field": 4, "getter": 3, "nestedsrc": 2, "arg": 3, "argpath": 2, "unresolved": 1, "wrongcase": 1, "gettererr": 2, "typed": 2, "hiddenseg": 1, "arggettererr": 2, "gettererrtyped": 1})
	if variant == "arggettererr" && isReverse(m) {
		variant = "gettererr"
	}
	if variant == "hiddenseg" {
		t = "int"
		dst.Fields[len(dst.Fields)-1].Type = t
	}
	if !ctx.topLevel && ctx.rootSrc != nil && ctx.rootSrc.Pkg == src.Pkg && b.chance(0.3) {
		variant = "rootsrc"
	}
	if variant == "arg" || variant == "argpath" {
		if isReverse(m) {
			variant = "field"
		}
	}
	other := fmt.Sprintf("Other%d", b.next())
	competing := b.chance(0.35)
	if competing {
		// a same-named default candidate that must NOT be used
		src.Fields = append(src.Fields, FDecl{Name: name, Type: t})
	}
	sp := func(n string) string { return joinPath(ctx.srcPath, n) }
	switch variant {
	case "hiddenseg":
		// a later segment of the path is an unexported member of a struct from another package: not reachable
		src.Fields = append(src.Fields, FDecl{Name: other, Type: "ext.Inner"})
		m.Notations = append(m.Notations, Notation{Name: "map", Args: []string{sp(other + ".hid"), dpath}})
	case "rootsrc":
		// the source path names a member of the ROOT source operand; the nested source struct has a
		// member of the same name (a decoy that must not be used: source paths start at the operand)
		ctx.rootSrc.Fields = append(ctx.rootSrc.Fields, FDecl{Name: other, Type: t})
		src.Fields = append(src.Fields, FDecl{Name: other, Type: t})
		m.Notations = append(m.Notations, Notation{Name: "map", Args: []string{other, dpath}})
	case "field":
		src.Fields = append(src.Fields, FDecl{Name: other, Type: t})
		spath := sp(other)
		if ctx.topLevel && !isReverse(m) && b.chance(0.3) {
			// "$1" denotes the source operand itself, wherever the destination field is declared
			spath = "$1." + spath
		}
		m.Notations = append(m.Notations, Notation{Name: "map", Args: []string{spath, dpath}})
	case "typed":
		// source of a different type: needs the method's typecast/stringer opt-in
		ts := b.typeFor(src.Pkg)
		src.Fields = append(src.Fields, FDecl{Name: other, Type: ts.Expr})
		m.Notations = append(m.Notations, Notation{Name: "map", Args: []string{sp(other), dpath}})
	case "getter":
		hidden := "g" + other
		src.Fields = append(src.Fields, FDecl{Name: hidden, Type: t})
		ptr := b.chance(0.3)
		src.Methods = append(src.Methods, getterSrc(src.Pkg, src.Name, other, t, "r."+hidden, ptr))
		m.Notations = append(m.Notations, Notation{Name: "map", Args: []string{sp(other + "()"), dpath}})
	case "gettererr", "gettererrtyped":
		hidden := "g" + other
		gt := t
		if variant == "gettererrtyped" {
			// the (T, error) result fits only through the method's typecast/stringer opt-in: a value that comes
			// with an error cannot be converted in place
			gt = b.typeFor(src.Pkg).Expr
		}
		src.Fields = append(src.Fields, FDecl{Name: hidden, Type: gt})
		site := src.Name + "." + other
		if src.Pkg != "" {
			site = src.Pkg + "." + site
		}
		src.Methods = append(src.Methods, fmt.Sprintf("func (r %s) %s() (%s, error) {\n\tvtr.Enter(%q)\n\tif vtr.Fail(%q) {\n\t\tvar z %s\n\t\treturn z, vtr.ErrOf(%q)\n\t}\n\treturn r.%s, nil\n}\n",
			src.Name, other, gt, site, site, gt, site, hidden))
		m.Notations = append(m.Notations, Notation{Name: "map", Args: []string{sp(other + "()"), dpath}})
		m.ErrSites = append(m.ErrSites, site)
		if !m.HasErr {
			if b.chance(b.P.ConvErrInNoErr) {
				b.S.InConv = false
				b.S.Feature("reject_hint", "err-callback-in-noerr-method")
			} else {
				m.HasErr = true
			}
		}
	case "arggettererr":
		// an error-returning getter of an ADDITIONAL ARGUMENT: ':map $n.Get() X'
		ns := b.newStruct("", "AX")
		ns.Fields = append(ns.Fields, FDecl{Name: "gDeep", Type: t})
		site := ns.Name + ".Deep"
		ns.Methods = append(ns.Methods, fmt.Sprintf("func (r %s) Deep() (%s, error) {\n\tvtr.Enter(%q)\n\tif vtr.Fail(%q) {\n\t\tvar z %s\n\t\treturn z, vtr.ErrOf(%q)\n\t}\n\treturn r.gDeep, nil\n}\n",
			ns.Name, t, site, site, t, site))
		idx := b.ensureExtra(m, ns.Ref())
		if m.Extras[idx].Type != ns.Ref() {
			// no free slot for the argument: fall back to a plain field mapping
			src.Fields = append(src.Fields, FDecl{Name: other, Type: t})
			m.Notations = append(m.Notations, Notation{Name: "map", Args: []string{sp(other), dpath}})
			variant = "field"
			break
		}
		m.Notations = append(m.Notations, Notation{Name: "map", Args: []string{fmt.Sprintf("$%d.Deep()", idx+2), dpath}})
		m.ErrSites = append(m.ErrSites, site)
		if !m.HasErr {
			if b.chance(b.P.ConvErrInNoErr) {
				b.S.InConv = false
				b.S.Feature("reject_hint", "err-callback-in-noerr-method")
			} else {
				m.HasErr = true
			}
		}
	case "nestedsrc":
		ns := b.newStruct(src.Pkg, "SM")
		ns.Fields = append(ns.Fields, FDecl{Name: "Deep", Type: t})
		holder := other
		ft := ns.Ref()
		if b.chance(0.3) {
			ft = "*" + ft
		}
		src.Fields = append(src.Fields, FDecl{Name: holder, Type: ft})
		m.Notations = append(m.Notations, Notation{Name: "map", Args: []string{sp(holder + ".Deep"), dpath}})
	case "arg":
		idx := b.ensureExtra(m, t)
		m.Notations = append(m.Notations, Notation{Name: "map", Args: []string{fmt.Sprintf("$%d", idx+2), dpath}})
	case "argpath":
		ns := b.newStruct("", "AX")
		ns.Fields = append(ns.Fields, FDecl{Name: "Deep", Type: t})
		idx := b.ensureExtra(m, ns.Ref())
		m.Notations = append(m.Notations, Notation{Name: "map", Args: []string{fmt.Sprintf("$%d.Deep", idx+2), dpath}})
	case "unresolved":
		m.Notations = append(m.Notations, Notation{Name: "map", Args: []string{sp("Nope" + other), dpath}})
	case "wrongcase":
		src.Fields = append(src.Fields, FDecl{Name: other, Type: t})
		m.Notations = append(m.Notations, Notation{Name: "map", Args: []string{sp(strings.ToUpper(other)), dpath}})
	}
	extra := variant
	if competing {
		extra += "+competing"
	}
	b.addProbe(ctx, name, "map", t, "", extra)
}

func isReverse(m *Method) bool { _, ok := m.Get("reverse"); return ok }

// ensureExtra returns the index of an additional argument of type t (adding one if needed).
func (b *Builder) ensureExtra(m *Method, t string) int {
	for i, e := range m.Extras {
		if e.Type == t && b.chance(0.5) {
			return i
		}
	}
	if len(m.Extras) >= 3 {
		for i, e := range m.Extras {
			if e.Type == t {
				return i
			}
		}
		// replace type of last? keep simple: reuse index 0 regardless (may not fit => no match)
		return 0
	}
	p := Param{Type: t}
	if m.Src.Name != "" {
		p.Name = fmt.Sprintf("x%d", len(m.Extras))
	}
	m.Extras = append(m.Extras, p)
	return len(m.Extras) - 1
}

// convMenu: (arg type, result type, result expression template with %s = site and arg `v`)
type convShape struct{ arg, ret, body string }

var convMenu = []convShape{
	{"int", "string", `SITE + "(" + vtr.Itoa(int64(v)) + ")"`},
	{"string", "string", `SITE + "(" + v + ")"`},
	{"string", "int", `len(v)*1000 + 7`},
	{"int", "int64", `int64(v)*1000 + 7`},
	{"int64", "int", `int(v)*1000 + 7`},
	{"bool", "string", `SITE + "(" + map[bool]string{true: "T", false: "F"}[v] + ")"`},
	{"LShape", "ext.Shape", `ext.Shape{X: v.X*1000 + 7, Y: SITE + "(" + v.Y + ")"}`},
	{"ext.Shape", "LShape", `LShape{X: v.X*1000 + 7, Y: SITE + "(" + v.Y + ")"}`},
	{"*LShape", "string", `SITE + "(" + func() string { if v == nil { return "<nil>" }; return v.Y }() + ")"`},
	{"[]int", "[]string", `func() []string { r := make([]string, len(v)); for i, x := range v { r[i] = SITE + "(" + vtr.Itoa(int64(x)) + ")" }; return r }()`},
	{"LInt", "string", `SITE + "(" + vtr.Itoa(int64(v)) + ")"`},
	{"ext.MStr", "string", `SITE + "(" + string(v) + ")"`},
}

func (b *Builder) genConv(ctx pairCtx, src, dst *SDecl, name string) {
	m := ctx.m
	var cs convShape
	for {
		cs = convMenu[b.R.Intn(len(convMenu))]
		localTypes := strings.Contains(cs.arg, "L") || strings.Contains(cs.ret, "L")
		if localTypes && (src.Pkg != "" || dst.Pkg != "") {
			continue
		}
		break
	}
	variant := b.pick(map[string]int{"plain": 5, "err": 4, "ptrarg": 2, "ext": 2, "generated": 0, "getter": 2, "dstdiff": 2, "srcvalptr": 1, "badshape": 0, "errdstdiff": 1, "gettererr": 1})
	fname := fmt.Sprintf("cv%d", b.next())
	srcField := name
	dstField := name
	if b.chance(0.4) {
		srcField = fmt.Sprintf("Src%d", b.next())
	}
	argT, retT := cs.arg, cs.ret
	withErr := false
	dstT := retT
	srcT := argT
	paramT := argT
	switch variant {
	case "err":
		withErr = true
	case "ptrarg":
		// converter takes *T, source field is T: tool passes &src.F
		paramT = "*" + argT
	case "srcvalptr":
		// converter takes T, source field is *T
		srcT = "*" + argT
	case "dstdiff", "errdstdiff":
		// converter result needs the opted-in typecast to fit; "errdstdiff": and comes with an error, so it
		// cannot be converted in place (a value returned together with an error is assigned as it is or not at all)
		withErr = variant == "errdstdiff"
		switch retT {
		case "string":
			dstT = "ext.MStr"
		case "int":
			dstT = "int64"
		case "int64":
			dstT = "int"
		}
	}
	if variant == "ext" {
		// use the fixed package-qualified converters
		if b.chance(0.5) {
			fname, argT, retT, withErr = "ext.ConvIntStr", "int", "string", false
		} else {
			fname, argT, retT, withErr = "ext.ConvStrStrE", "string", "string", true
		}
		dstT, srcT, paramT = retT, argT, argT
	}
	if withErr && !m.HasErr {
		if b.chance(b.P.ConvErrInNoErr) {
			// error-returning converter in a method without error result: outside the conventions
			b.S.InConv = false
			b.S.Feature("reject_hint", "err-callback-in-noerr-method")
		} else {
			m.HasErr = true
		}
	}
	dst.Fields = append(dst.Fields, FDecl{Name: dstField, Type: dstT})
	srcExpr := joinPath(ctx.srcPath, srcField)
	if !ctx.topLevel && ctx.rootSrc != nil && ctx.rootSrc.Pkg == src.Pkg && variant != "getter" && b.chance(0.25) {
		// root-level source with a same-named decoy in the nested source struct
		ctx.rootSrc.Fields = append(ctx.rootSrc.Fields, FDecl{Name: srcField, Type: srcT})
		srcExpr = srcField
		variant += "+rootsrc"
	}
	if variant == "getter" {
		hidden := "g" + srcField
		src.Fields = append(src.Fields, FDecl{Name: hidden, Type: srcT})
		src.Methods = append(src.Methods, getterSrc(src.Pkg, src.Name, srcField, srcT, "r."+hidden, b.chance(0.3)))
		srcExpr += "()"
	} else if variant == "gettererr" {
		// the source of the converter is a getter that returns (T, error): it cannot be an argument
		hidden := "g" + srcField
		src.Fields = append(src.Fields, FDecl{Name: hidden, Type: srcT})
		gsite := src.Name + "." + srcField
		if src.Pkg != "" {
			gsite = src.Pkg + "." + gsite
		}
		src.Methods = append(src.Methods, fmt.Sprintf("func (r %s) %s() (%s, error) {\n\tvtr.Enter(%q)\n\tif vtr.Fail(%q) {\n\t\tvar z %s\n\t\treturn z, vtr.ErrOf(%q)\n\t}\n\treturn r.%s, nil\n}\n",
			src.Name, srcField, srcT, gsite, gsite, srcT, gsite, hidden))
		srcExpr += "()"
	} else {
		src.Fields = append(src.Fields, FDecl{Name: srcField, Type: srcT})
	}
	if !strings.HasPrefix(variant, "ext") {
		site := fname
		body := strings.ReplaceAll(cs.body, "SITE", fmt.Sprintf("%q", site))
		deref := ""
		if paramT != argT {
			deref = "\tv := *pv\n"
		}
		pname := "v"
		if paramT != argT {
			pname = "pv"
		}
		var fn string
		if withErr {
			fn = fmt.Sprintf("func %s(%s %s) (%s, error) {\n\tvtr.Enter(%q, %s)\n\tif vtr.Fail(%q) {\n\t\tvar z %s\n\t\treturn z, vtr.ErrOf(%q)\n\t}\n%s\treturn %s, nil\n}\n",
				fname, pname, paramT, retT, site, pname, site, retT, site, deref, body)
		} else {
			fn = fmt.Sprintf("func %s(%s %s) %s {\n\tvtr.Enter(%q, %s)\n%s\treturn %s\n}\n", fname, pname, paramT, retT, site, pname, deref, body)
		}
		if b.chance(0.5) {
			b.funcsS = append(b.funcsS, fn)
		} else {
			b.funcsT = append(b.funcsT, fn)
		}
		b.S.RegFuncs = append(b.S.RegFuncs, fname)
	}
	if withErr {
		m.ErrSites = append(m.ErrSites, fname)
	}
	args := []string{fname, srcExpr}
	dpath := joinPath(ctx.dstPath, dstField)
	if srcExpr != dpath || b.chance(0.3) {
		args = append(args, dpath)
	}
	m.Notations = append(m.Notations, Notation{Name: "conv", Args: args})
	extra := variant
	if withErr {
		extra += "+err"
	}
	b.addProbe(ctx, dstField, "conv", dstT, srcT, extra)
}

var sliceElems = []struct {
	d, s string
	loc  bool
}{
	{"int", "int", false}, {"string", "string", false}, {"LInt", "LInt", true}, {"ext.MInt", "ext.MInt", false},
	{"LShape", "LShape", true}, {"ext.Shape", "ext.Shape", false}, {"*LInner", "*LInner", true}, {"*int", "*int", false},
	{"interface{}", "interface{}", false}, {"error", "error", false},
	{"interface{}", "string", false}, {"interface{}", "int", false}, {"any", "LShape", true}, {"error", "*vtrErr", false}, {"LErrish", "*vtrErr", true},
	{"int64", "int", false}, {"LInt", "int", true}, {"int", "LInt", true}, {"ext.MInt", "LInt", true}, {"float64", "int", false}, {"string", "LStr", true}, {"LStr", "string", true},
	{"string", "int", false}, {"int", "string", false}, {"LShape", "ext.Shape", true}, {"ext.Shape", "LShape", true}, {"string", "[]byte", false}, {"[]byte", "string", false},
	{"*int", "*LInt", true}, {"[]int", "[]int", false},
	// bytes (the one element type with a string shortcut) and element types one pointer level apart (never convertible)
	{"byte", "byte", false}, {"uint8", "byte", false}, {"*LShape", "LShape", true}, {"LShape", "*LShape", true}, {"*int", "int", false}, {"int", "*int", false},
}

func (b *Builder) genSlice(ctx pairCtx, src, dst *SDecl, name string) {
	var e struct {
		d, s string
		loc  bool
	}
	for {
		e = sliceElems[b.R.Intn(len(sliceElems))]
		if e.loc && (src.Pkg != "" || dst.Pkg != "") {
			continue
		}
		break
	}
	s := strings.ReplaceAll(e.s, "*vtrErr", "*vtr.Err")
	dt, st := "[]"+e.d, "[]"+s
	extra := "unnamed"
	if e.d == "string" && e.s == "string" && b.chance(0.3) {
		if src.Pkg == "" && dst.Pkg == "" {
			dt, st, extra = "LTags", "LTags", "named"
		} else {
			dt, st, extra = "ext.Tags", "ext.Tags", "named"
		}
	}
	dst.Fields = append(dst.Fields, FDecl{Name: name, Type: dt})
	src.Fields = append(src.Fields, FDecl{Name: name, Type: st})
	if src.Pkg == "" && b.chance(0.12) {
		// a case twin of another type next to the slice field: under :case:off both match the name, only
		// the slice fits - and it is still copied into fresh storage
		src.Fields = append(src.Fields, FDecl{Name: lowerFirst(name), Type: "int"})
		if _, ok := ctx.m.Get("case:off"); !ok && b.chance(0.8) {
			ctx.m.Notations = append(ctx.m.Notations, Notation{Name: "case:off"})
		}
		extra += "+casetwin"
	}
	b.addProbe(ctx, name, "slice", dt, st, extra)
}

// hook generation
func (b *Builder) genHook(m *Method, kind string, srcT, dstT string) {
	fname := fmt.Sprintf("%s%d", kind[:3], b.next())
	dp := strings.TrimPrefix(dstT, "*")
	sp := strings.TrimPrefix(srcT, "*")
	// a hook that lives in the imported package m (possible when both operand types do)
	inM := strings.HasPrefix(dp, "m.") && strings.HasPrefix(sp, "m.") && b.chance(0.6)
	if inM {
		for _, e := range m.Extras {
			// scenario-local types are not visible in m: only basic and ext types qualify
			t := strings.TrimPrefix(e.Type, "*")
			switch {
			case t == "int" || t == "string" || t == "bool" || t == "float64" || t == "int64" || t == "uint8":
			case strings.HasPrefix(t, "ext."):
			default:
				inM = false
			}
		}
	}
	if inM {
		fname = strings.ToUpper(fname[:1]) + fname[1:]
	}
	dstPtr := b.chance(0.7)
	srcPtr := b.chance(0.5)
	withErr := m.HasErr && b.chance(0.5)
	withExtras := len(m.Extras) > 0 && b.chance(0.6)
	dparam, sparam := dp, sp
	if dstPtr {
		dparam = "*" + dp
	}
	if srcPtr {
		sparam = "*" + sp
	}
	params := fmt.Sprintf("d %s, s %s", dparam, sparam)
	args := "d, s"
	if withExtras {
		for i, e := range m.Extras {
			params += fmt.Sprintf(", a%d %s", i, e.Type)
			args += fmt.Sprintf(", a%d", i)
		}
	}
	site := fname
	if inM {
		site = "m." + fname
		params = renderIn("m", params)
	}
	var fn string
	// a hook may also be a package-level VARIABLE of function type
	asVar := !inM && b.chance(0.15)
	if asVar && withErr {
		fn = fmt.Sprintf("var %s = func(%s) error {\n\tvtr.Enter(%q, %s)\n\tif vtr.Fail(%q) {\n\t\treturn vtr.ErrOf(%q)\n\t}\n\treturn nil\n}\n", fname, params, site, args, site, site)
	} else if asVar {
		fn = fmt.Sprintf("var %s = func(%s) {\n\tvtr.Enter(%q, %s)\n}\n", fname, params, site, args)
	} else if withErr {
		fn = fmt.Sprintf("func %s(%s) error {\n\tvtr.Enter(%q, %s)\n\tif vtr.Fail(%q) {\n\t\treturn vtr.ErrOf(%q)\n\t}\n\treturn nil\n}\n", fname, params, site, args, site, site)
	} else {
		fn = fmt.Sprintf("func %s(%s) {\n\tvtr.Enter(%q, %s)\n}\n", fname, params, site, args)
	}
	switch {
	case inM:
		b.funcsM = append(b.funcsM, fn)
		b.usesM = true
	case b.chance(0.6):
		b.funcsS = append(b.funcsS, fn)
	default:
		b.funcsT = append(b.funcsT, fn)
	}
	m.Notations = append(m.Notations, Notation{Name: kind, Args: []string{site}})
	b.S.RegFuncs = append(b.S.RegFuncs, site)
	if kind == "preprocess" {
		m.PreSite = site
	} else {
		m.PostSite = site
	}
	if withErr {
		m.ErrSites = append(m.ErrSites, site)
	}
	m.Probes = append(m.Probes, Probe{Dst: "", Mech: kind, Extra: fmt.Sprintf("dstptr=%v srcptr=%v err=%v extras=%v", dstPtr, srcPtr, withErr, withExtras)})
}

// GenMethod generates one method with its struct pair.
func (b *Builder) GenMethod(name string) *Method {
	m := &Method{Name: name}
	p := b.P
	srcPkg, dstPkg := "", ""
	if b.chance(p.PImportedS) {
		srcPkg = "m"
	}
	if b.chance(p.PImportedS) {
		dstPkg = "m"
	}
	arg := b.chance(p.PArgStyle)
	recv := srcPkg == "" && b.chance(p.PRecv)
	m.HasErr = b.chance(p.PErr)
	named := b.chance(p.PNamed)
	if arg {
		m.Notations = append(m.Notations, Notation{Name: "style", Args: []string{"arg"}})
	}
	if recv {
		m.Notations = append(m.Notations, Notation{Name: "recv", Args: []string{[]string{"r", "self", "x"}[b.R.Intn(3)]}})
	}
	reverse := false
	if arg && b.chance(p.PReverse) {
		reverse = true
		m.Notations = append(m.Notations, Notation{Name: "reverse"})
	}
	// toggles
	for _, t := range []string{"getter", "stringer", "typecast"} {
		if b.chance(p.PToggle) {
			m.Notations = append(m.Notations, Notation{Name: t})
		}
	}
	if b.chance(p.PToggle * 0.6) {
		m.Notations = append(m.Notations, Notation{Name: "case:off"})
	}
	if b.chance(0.06) {
		m.Notations = append(m.Notations, Notation{Name: "match", Args: []string{"none"}})
	}
	// the settings commute: their order in the comment carries no meaning
	b.R.Shuffle(len(m.Notations), func(i, j int) { m.Notations[i], m.Notations[j] = m.Notations[j], m.Notations[i] })
	if named {
		m.Src.Name = []string{"in", "from", "s"}[b.R.Intn(3)]
		m.Dst.Name = []string{"out", "to", "d"}[b.R.Intn(3)]
	}
	if !reverse && b.chance(p.PExtras) {
		n := 1 + b.R.Intn(2)
		for i := 0; i < n; i++ {
			pt := []string{"int", "string", "ext.Shape", "*LShape", "bool", "[]ext.Shape", "map[string]*LShape"}[b.R.Intn(7)]
			pr := Param{Type: pt}
			if named {
				pr.Name = fmt.Sprintf("x%d", i)
			}
			m.Extras = append(m.Extras, pr)
		}
	}
	// Under :reverse the copy goes from the (interface) result type into the first parameter type.
	src := b.newStruct(srcPkg, "S")
	dst := b.newStruct(dstPkg, "D")
	ctx := pairCtx{m: m, srcPkg: srcPkg, dstPkg: dstPkg, topLevel: true}
	nf := p.MinFields + b.R.Intn(p.MaxFields-p.MinFields+1)
	if reverse {
		// the first parameter is the copy destination, the result type the copy source
		ctx.rootSrc = dst
		b.genPair(ctx, dst, src, nf)
	} else {
		ctx.rootSrc = src
		b.genPair(ctx, src, dst, nf)
	}
	sref, dref := src.Ref(), dst.Ref()
	if !b.chance(p.PValOperand) {
		sref = "*" + sref
	}
	if !b.chance(p.PValOperand) {
		dref = "*" + dref
	}
	m.Src.Type, m.Dst.Type = sref, dref
	if recv && dstPkg == "" && b.chance(0.2) {
		// a generated METHOD may carry the name of a package-level declaration (here: its own result
		// type); only functions share the package block
		m.Name = dst.Name
	}
	if !reverse && b.chance(p.PHooks) {
		if b.chance(0.6) {
			b.genHook(m, "preprocess", sref, dref)
		}
		if b.chance(0.6) {
			b.genHook(m, "postprocess", sref, dref)
		}
	}
	if b.chance(p.PDocLines) {
		m.DocLines = append(m.DocLines, fmt.Sprintf("// %s converts things (doc %d).", name, b.next()))
	}
	if b.chance(0.12) && len(m.Notations) > 0 {
		// an unknown (or misplaced) ":word" line among the notations: it is only logged, every other
		// notation of the comment stays in force
		raw := []string{":note keep in sync with the API", ":warning: generated", ":skipp X", ":todo", ":convergen", ":See also"}[b.R.Intn(6)]
		at := b.R.Intn(len(m.Notations))
		m.Notations = append(m.Notations[:at], append([]Notation{{Raw: raw}}, m.Notations[at:]...)...)
	}
	return m
}

// genClone generates a clone-style method: the source and the destination are the SAME struct type,
// or two local types with identical member lists under :typecast, and no notation addresses a
// member. The members are still copied one by one (slices into fresh storage).
func (b *Builder) genClone(name string) *Method {
	m := &Method{Name: name}
	s := b.newStruct("", "C")
	d := s
	if b.chance(0.4) {
		d = b.newStruct("", "CD")
		m.Notations = append(m.Notations, N("typecast"))
	}
	if b.chance(0.3) {
		m.Notations = append(m.Notations, N("style", "arg"))
	}
	types := []string{"int", "string", "[]int", "[]string", "[]LInt", "[]*int", "LTags", "[]LInner", "*int", "LInner", "map[string]int", "[][]int", "[]byte", "ext.Tags", "[]ext.Shape"}
	nf := 2 + b.R.Intn(4)
	for i := 0; i < nf; i++ {
		fname := fmt.Sprintf("%s%d", baseWords[b.R.Intn(len(baseWords))], b.next())
		t := types[b.R.Intn(len(types))]
		if i == 0 {
			t = []string{"[]int", "[]string", "LTags", "[]LInner"}[b.R.Intn(4)] // at least one slice
		}
		s.Fields = append(s.Fields, FDecl{Name: fname, Type: t})
		if d != s {
			d.Fields = append(d.Fields, FDecl{Name: fname, Type: t})
		}
		mech := "same"
		if strings.HasPrefix(t, "[]") || t == "LTags" || t == "ext.Tags" {
			mech = "slice"
		}
		m.Probes = append(m.Probes, Probe{Dst: fname, Mech: mech, DstT: t, SrcT: t, Extra: "clone"})
	}
	m.Src.Type, m.Dst.Type = "*"+s.Ref(), "*"+d.Ref()
	if b.chance(0.2) {
		m.Src.Type = s.Ref()
	}
	return m
}

// NewBuilder creates a builder for a scenario in directory pkgRel.
func NewBuilder(r *rand.Rand, p Profile, id, pkgRel string) *Builder {
	s := &Scenario{ID: id, PkgRel: pkgRel, PkgName: "sc", Files: map[string]string{}, InConv: true}
	s.Setup = pkgRel + "/setup.go"
	return &Builder{R: r, P: p, S: s}
}

// Finish renders all files.
func (b *Builder) Finish() *Scenario {
	s := b.S
	var ty, mp strings.Builder
	needExtT, needExtM := false, false
	fmt.Fprintf(&ty, "package %s\n\nIMPORTS\n", s.PkgName)
	mp.WriteString("package m\n\nIMPORTS\n")
	for _, d := range b.decls {
		w := &ty
		if d.Pkg == "m" {
			w = &mp
		}
		fmt.Fprintf(w, "type %s struct {\n", d.Name)
		for _, f := range d.Fields {
			t := renderIn(d.Pkg, f.Type)
			if f.Embedded {
				fmt.Fprintf(w, "\t%s\n", t)
			} else {
				fmt.Fprintf(w, "\t%s %s\n", f.Name, t)
			}
		}
		w.WriteString("}\n\n")
		for _, msrc := range d.Methods {
			w.WriteString(msrc + "\n")
			recv := d.Name
			// registry: method expression with pointer form if needed
			mname := methodName(msrc)
			ptr := strings.Contains(msrc[:strings.Index(msrc, ")")], "*")
			ref := recv
			if d.Pkg != "" {
				ref = d.Pkg + "." + recv
			}
			if ptr {
				s.RegMethods = append(s.RegMethods, "(*"+ref+")."+mname)
			} else {
				s.RegMethods = append(s.RegMethods, ref+"."+mname)
			}
		}
	}
	for _, f := range b.funcsT {
		ty.WriteString(f + "\n")
	}
	for _, f := range b.funcsM {
		mp.WriteString(f + "\n")
	}
	tys := ty.String()
	needExtT = reUsesExt.MatchString(tys)
	imps := "import \"vb/vtr\"\n"
	if needExtT {
		imps = "import (\n\t\"vb/ext\"\n\t\"vb/vtr\"\n)\n"
	}
	if b.usesM && reUsesM.MatchString(tys) {
		imps = strings.Replace(imps, "import (\n", "import (\n\t\""+s.PkgPath()+"/m\"\n", 1)
		if !needExtT {
			imps = "import (\n\t\"" + s.PkgPath() + "/m\"\n\t\"vb/vtr\"\n)\n"
		}
	}
	tys = strings.Replace(tys, "IMPORTS\n", imps+"\nvar _ = vtr.Reset\n", 1)
	s.Files[s.PkgRel+"/types.go"] = tys
	s.Files[s.PkgRel+"/prelude.go"] = PreludeSrc(s.PkgName)
	if b.usesM {
		ms := mp.String()
		needExtM = reUsesExt.MatchString(ms)
		mi := "import \"vb/vtr\"\n"
		if needExtM {
			mi = "import (\n\t\"vb/ext\"\n\t\"vb/vtr\"\n)\n"
		}
		ms = strings.Replace(ms, "IMPORTS\n", mi+"\nvar _ = vtr.Reset\n", 1)
		if b.R != nil && b.chance(0.2) {
			// the imported package is itself the product of a code generator, this one included: its
			// declarations are as real as any other
			ms = []string{"// Code generated by github.com/reedom/convergen\n// DO NOT EDIT.\n\n", "// Code generated by protoc-gen-go. DO NOT EDIT.\n\n"}[b.R.Intn(2)] + ms
		}
		s.Files[s.PkgRel+"/m/m.go"] = ms
	}
	// setup.go
	var su strings.Builder
	su.WriteString("//go:build convergen\n\n")
	fmt.Fprintf(&su, "package %s\n\n", s.PkgName)
	var body strings.Builder
	for _, it := range s.Ifaces {
		body.WriteString(RenderIface(it))
		body.WriteString("\n")
	}
	for _, f := range b.funcsS {
		body.WriteString(f + "\n")
	}
	bs := body.String()
	var im []string
	code := stripComments(bs)
	if reUsesExt.MatchString(code) {
		im = append(im, "\"vb/ext\"")
	} else if reUsesExt.MatchString(bs) {
		im = append(im, "_ \"vb/ext\"")
	}
	if b.usesM && reUsesM.MatchString(code) {
		im = append(im, "\""+s.PkgPath()+"/m\"")
	} else if b.usesM && reUsesM.MatchString(bs) {
		im = append(im, "_ \""+s.PkgPath()+"/m\"")
	}
	if strings.Contains(code, "vtr.") {
		im = append(im, "\"vb/vtr\"")
	}
	if len(im) > 0 {
		sort.Strings(im)
		su.WriteString("import (\n")
		for _, i := range im {
			su.WriteString("\t" + i + "\n")
		}
		su.WriteString(")\n\n")
	}
	su.WriteString(bs)
	s.Files[s.Setup] = su.String()
	mode := b.PkgNameMode
	if mode == "" && b.usesM && b.R != nil {
		switch x := b.R.Float64(); {
		case x < 0.12:
			mode = "differs"
		case x < 0.2:
			mode = "alias-collide"
		case x < 0.27:
			mode = "dot"
		}
	}
	if b.usesM && mode == "differs" {
		// the imported package's name differs from the last element of its import path
		reQ := regexp.MustCompile(`(^|[^A-Za-z0-9_."])m\.([A-Z])`)
		for _, f := range []string{s.PkgRel + "/types.go", s.Setup} {
			s.Files[f] = reQ.ReplaceAllString(s.Files[f], "${1}mq.${2}")
		}
		s.Files[s.PkgRel+"/m/m.go"] = strings.Replace(s.Files[s.PkgRel+"/m/m.go"], "package m\n", "package mq\n", 1)
		s.Feature("pkgname_differs_from_dir", "true")
	}
	if b.usesM && mode == "alias-collide" {
		// explicit import name equal to the last path element while the package clause says "ext",
		// the name of another package that is imported as well
		imp := "\"" + s.PkgPath() + "/m\""
		for _, f := range []string{s.PkgRel + "/types.go", s.Setup} {
			s.Files[f] = strings.Replace(s.Files[f], "\t"+imp+"\n", "\tm "+imp+"\n", 1)
			s.Files[f] = strings.Replace(s.Files[f], "\t_ "+imp+"\n", "\t_ "+imp+"\n", 1)
		}
		s.Files[s.PkgRel+"/m/m.go"] = strings.Replace(s.Files[s.PkgRel+"/m/m.go"], "package m\n", "package ext\n", 1)
		s.Feature("pkgname_alias_collides", "true")
	}
	if b.usesM && mode == "dot" {
		// the setup file dot-imports the package: its types are written without a qualifier there
		imp := "\"" + s.PkgPath() + "/m\""
		// (not when a notation names a function or method of the package: how a notation refers to a
		// dot-imported function is not documented)
		inComments := false
		for _, l := range strings.Split(s.Files[s.Setup], "\n") {
			if i := strings.Index(l, "//"); i >= 0 && reUsesM.MatchString(l[i:]) {
				inComments = true
			}
		}
		if strings.Contains(s.Files[s.Setup], "\t"+imp+"\n") && !inComments {
			reQ := regexp.MustCompile(`(^|[^A-Za-z0-9_."])m\.([A-Z])`)
			su := strings.Replace(s.Files[s.Setup], "\t"+imp+"\n", "\t. "+imp+"\n", 1)
			s.Files[s.Setup] = reQ.ReplaceAllString(su, "${1}${2}")
			s.Feature("pkg_dot_imported", "true")
		}
	}
	s.DrvImports = append(s.DrvImports, "\"vb/ext\"")
	if b.usesM {
		s.DrvImports = append(s.DrvImports, "m \""+s.PkgPath()+"/m\"")
	}
	return s
}

func methodName(src string) string {
	// "func (r T) Name() ..."
	i := strings.Index(src, ") ")
	rest := src[i+2:]
	j := strings.Index(rest, "(")
	return rest[:j]
}

// GenBroad generates one scenario from the broad family.
func GenBroad(r *rand.Rand, p Profile, id, pkgRel string) *Scenario {
	b := NewBuilder(r, p, id, pkgRel)
	nm := p.MinMethods + r.Intn(p.MaxMethods-p.MinMethods+1)
	it := &Iface{Name: "Convergen", Converter: true, Generate: r.Intn(2) == 0}
	if r.Intn(4) == 0 {
		it.DocLines = []string{"// Convergen is the converter definition."}
	}
	for i := 0; i < nm; i++ {
		it.Methods = append(it.Methods, b.GenMethod(fmt.Sprintf("Conv%c%d", 'A'+i, i)))
	}
	if r.Float64() < p.PClone {
		it.Methods = append(it.Methods, b.genClone(fmt.Sprintf("Clone%d", nm)))
	}
	if len(b.Pending) > 0 && r.Intn(3) == 0 {
		// the generated converters live in a second converter interface that sorts before or after the
		// one referring to them
		second := &Iface{Name: []string{"AuxParts", "Parts"}[r.Intn(2)], Converter: true, Notations: []Notation{N("convergen")}, Methods: b.Pending}
		if r.Intn(2) == 0 {
			b.S.Ifaces = append(b.S.Ifaces, second, it)
		} else {
			b.S.Ifaces = append(b.S.Ifaces, it, second)
		}
		b.S.Feature("generated_converter_in", second.Name)
	} else {
		it.Methods = append(it.Methods, b.Pending...)
		b.S.Ifaces = append(b.S.Ifaces, it)
	}
	b.S.Feature("profile", p.Name)
	return b.Finish()
}

func stripComments(src string) string {
	var sb strings.Builder
	for _, l := range strings.Split(src, "\n") {
		if i := strings.Index(l, "//"); i >= 0 {
			l = l[:i]
		}
		sb.WriteString(l + "\n")
	}
	return sb.String()
}

// Errs is the profile for C07: many error-capable call sites.
func Errs() Profile {
	p := Broad()
	p.Name = "errs"
	p.Mechs = map[string]int{"same": 10, "conv": 40, "map": 25, "nested": 15, "skip": 3, "none": 3, "getter": 5, "ptrnested": 4}
	p.PErr = 0.7
	p.PHooks = 0.6
	p.ConvErrInNoErr = 0.3
	p.MinFields, p.MaxFields = 3, 8
	return p
}

// Hooks is the profile for C10.
func Hooks() Profile {
	p := Broad()
	p.Name = "hooks"
	p.Mechs = map[string]int{"same": 40, "diff": 5, "nested": 10, "map": 10, "conv": 10, "none": 10, "skip": 5, "slice": 5, "literal": 5}
	p.PHooks = 1.0
	p.PReverse = 0
	p.PExtras = 0.5
	p.MinFields, p.MaxFields = 2, 5
	return p
}

// Slices is the profile for C16.
func Slices() Profile {
	p := Broad()
	p.Name = "slices"
	p.Mechs = map[string]int{"slice": 70, "same": 8, "nested": 10, "getter": 4, "skip": 2, "ptrnested": 3}
	p.Types = []string{"slice", "named-slice", "int", "string"}
	p.PToggle = 0.5
	p.PHooks = 0.05
	p.PClone = 0.25
	p.MinFields, p.MaxFields = 3, 8
	return p
}

// Struct declares a struct type by hand: fields are "Name Type" strings (a single word = embedded).
func (b *Builder) Struct(pkg, name string, fields ...string) *SDecl {
	d := &SDecl{Pkg: pkg, Name: name}
	for _, f := range fields {
		parts := strings.SplitN(f, " ", 2)
		if len(parts) == 1 {
			n := parts[0][strings.LastIndex(parts[0], ".")+1:]
			d.Fields = append(d.Fields, FDecl{Name: strings.TrimPrefix(n, "*"), Type: parts[0], Embedded: true})
		} else {
			d.Fields = append(d.Fields, FDecl{Name: parts[0], Type: parts[1]})
		}
	}
	if pkg == "m" {
		b.usesM = true
	}
	b.decls = append(b.decls, d)
	return d
}

// Func adds a function to the setup file (inSetup) or to types.go.
func (b *Builder) Func(src string, inSetup bool, regName string) {
	if inSetup {
		b.funcsS = append(b.funcsS, src)
	} else {
		b.funcsT = append(b.funcsT, src)
	}
	if regName != "" {
		b.S.RegFuncs = append(b.S.RegFuncs, regName)
	}
}

// N is a shorthand for a notation.
func N(name string, args ...string) Notation { return Notation{Name: name, Args: args} }

// Manual finishes a hand-written scenario with one Convergen interface holding the given methods.
func (b *Builder) Manual(methods ...*Method) *Scenario {
	b.S.Ifaces = append(b.S.Ifaces, &Iface{Name: "Convergen", Converter: true, Methods: methods})
	b.S.Feature("profile", "corpus")
	return b.Finish()
}

// genConvGenerated wires a :conv to a function that is itself generated in the same run.
func (b *Builder) genConvGenerated(ctx pairCtx, src, dst *SDecl, name string) {
	m := ctx.m
	gi := b.newStruct("", "GI")
	gd := b.newStruct("", "GD")
	gi.Fields = []FDecl{{Name: "A", Type: "int"}, {Name: "B", Type: "string"}}
	gd.Fields = []FDecl{{Name: "A", Type: "int"}, {Name: "B", Type: "string"}}
	inner := &Method{Name: fmt.Sprintf("Gen%d", b.next())}
	st, dt := gi.Ref(), gd.Ref()
	if b.chance(0.6) {
		st = "*" + st
	}
	if b.chance(0.6) {
		dt = "*" + dt
	}
	inner.Src.Type, inner.Dst.Type = st, dt
	if b.chance(0.4) {
		// the generated converter itself has an error result: the outer method needs one, too
		inner.HasErr = true
		m.HasErr = true
	}
	inner.Probes = []Probe{{Dst: "A", Mech: "same", DstT: "int", SrcT: "int"}, {Dst: "B", Mech: "same", DstT: "string", SrcT: "string"}}
	b.Pending = append(b.Pending, inner)
	src.Fields = append(src.Fields, FDecl{Name: name, Type: st})
	dst.Fields = append(dst.Fields, FDecl{Name: name, Type: dt})
	m.Notations = append(m.Notations, Notation{Name: "conv", Args: []string{inner.Name, joinPath(ctx.srcPath, name), joinPath(ctx.dstPath, name)}})
	b.S.RegFuncs = append(b.S.RegFuncs, inner.Name)
	b.addProbe(ctx, name, "conv", dt, st, "generated")
}
