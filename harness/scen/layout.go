package scen

import (
	"fmt"
	"math/rand"
	"strings"
)

// LayoutCfg selects the variation families of the layout generator.
type LayoutCfg struct {
	MaxIfaces      int
	MaxMethods     int
	Surround       bool // other declarations around the interfaces
	Comments       bool // comments in every slot, each with a unique id
	Unmarked       bool // unmarked interfaces and near-miss markers (C17)
	Siblings       bool // sibling files with marked interfaces (C17)
	PkgDoc         bool // package doc comments (incl. notation-looking lines)
	OneLine        bool // one-line interface bodies
	BuildVariants  bool // build constraint spellings
	Imports        bool // import block with used/unused/blank/aliased imports
	NoIface        bool // files without any converter interface (C17 negative)
	DoclessIface   float64
	NotationsIface bool
	SameNames      bool // same method name + same :recv identifier under different receiver types (C17)
	EmptyIface     bool // converter interfaces without any method (placeholder, all methods commented out)
	LineDirective  bool // a //line directive in front of the package clause (files rendered by a preprocessor)
	AliasIface     bool // converter interfaces declared in alias form: type X = interface{...}
	MidLine        bool // a //line directive between declarations (another file name, or colliding line numbers)
}

// LayoutGen generates one layout scenario.
type LayoutGen struct {
	R    *rand.Rand
	Cfg  LayoutCfg
	S    *Scenario
	cid  int
	n    int
	vec  []string
	sb   strings.Builder
	used map[string]bool
}

func (g *LayoutGen) c(slot string) string {
	g.cid++
	t := fmt.Sprintf("c%03d %s", g.cid, slot)
	if g.R != nil && g.R.Intn(6) == 0 {
		// text that is special to templating / regexp replacement must survive literally
		t += []string{" costs $12.50", " see $HOME/bin", " ${name} $1", " 100% \\1 \\n", " $$ $& $0"}[g.R.Intn(5)]
	}
	return t
}

func (g *LayoutGen) chance(p float64) bool { return g.R.Float64() < p }

func (g *LayoutGen) blank() {
	n := g.R.Intn(4)
	if !g.Cfg.Comments && n == 0 {
		n = 1
	}
	for i := 0; i < n; i++ {
		g.sb.WriteString("\n")
	}
}

func (g *LayoutGen) name(prefix string) string {
	g.n++
	return fmt.Sprintf("%s%d", prefix, g.n)
}

var methodNameLens = []int{1, 1, 2, 2, 3, 4, 5, 6, 8, 10, 12, 16, 20, 21, 22, 30, 40}

func (g *LayoutGen) methodName() string {
	for {
		l := methodNameLens[g.R.Intn(len(methodNameLens))]
		var sb strings.Builder
		sb.WriteByte(byte('A' + g.R.Intn(26)))
		for sb.Len() < l {
			sb.WriteByte(byte('a' + g.R.Intn(26)))
		}
		n := sb.String()
		if !g.used[n] && n != "Convergen" && n != "X" { // X is the field name of the operand structs
			g.used[n] = true
			return n
		}
	}
}

// surrounding declaration
func (g *LayoutGen) surround() {
	k := g.R.Intn(11)
	id := g.name("")
	doc := ""
	if g.Cfg.Comments && g.chance(0.6) {
		doc = "// " + g.c("doc of decl "+id) + "\n"
	}
	trail := ""
	if g.Cfg.Comments && g.chance(0.3) {
		trail = " // " + g.c("trailing "+id)
	}
	if g.chance(0.08) {
		// a go:generate directive that has nothing to do with the converter interfaces
		if g.chance(0.5) {
			doc += "//go:generate echo " + id + "\n"
		} else {
			g.sb.WriteString("//go:generate echo floating" + id + "\n\n")
		}
		g.vec = append(g.vec, "foreign-generate")
	}
	switch k {
	case 0:
		fmt.Fprintf(&g.sb, "%sconst K%s = %d%s\n", doc, id, g.R.Intn(100), trail)
	case 1:
		fmt.Fprintf(&g.sb, "%svar V%s = \"v%s\"%s\n", doc, id, id, trail)
	case 2:
		fmt.Fprintf(&g.sb, "%stype T%s struct {\n\tA int%s\n\tB string\n}\n", doc, id, trail)
	case 3:
		inner := ""
		if g.Cfg.Comments && g.chance(0.5) {
			inner = "\t// " + g.c("inside func "+id) + "\n"
		}
		fmt.Fprintf(&g.sb, "%sfunc f%s(x int) int {\n%s\treturn x + %d\n}\n", doc, id, inner, g.R.Intn(9))
	case 4:
		fmt.Fprintf(&g.sb, "%stype (\n\tG%sa int\n\tG%sb struct{ Z int }%s\n)\n", doc, id, id, trail)
	case 5:
		fmt.Fprintf(&g.sb, "%sconst (\n\tC%sa = iota%s\n\tC%sb\n)\n", doc, id, trail, id)
	case 6:
		fmt.Fprintf(&g.sb, "%stype M%s int\n\n%sfunc (m M%s) Get() int { return int(m) }%s\n", doc, id, "", id, trail)
	case 7:
		// an ordinary (unmarked) interface
		fmt.Fprintf(&g.sb, "%stype I%s interface {\n\tDo(x int) string%s\n}\n", doc, id, trail)
	case 8:
		if g.Cfg.Comments {
			fmt.Fprintf(&g.sb, "/* %s */\n", g.c("floating block "+id))
		} else {
			fmt.Fprintf(&g.sb, "var W%s int\n", id)
		}
	case 9:
		// a raw string (a scaffold, a code template) whose LINES look like the directives the tool strips
		// from comments: they are content, not comments
		fmt.Fprintf(&g.sb, "%sconst tmpl%s = `package x\n//go:generate stringer -type=T\n//go:build convergen\n// +build convergen\n//go:generate go run github.com/reedom/convergen\nend %s`%s\n", doc, id, id, trail)
	case 10:
		// a parenthesized type declaration that holds an ORDINARY interface next to other types
		fmt.Fprintf(&g.sb, "%stype (\n\tGI%sa interface {\n\t\tDo(x int) string\n\t}\n\tGI%sb struct{ Z int }%s\n\tGI%sc interface{ Len() int }\n)\n", doc, id, id, trail, id)
	}
	g.vec = append(g.vec, fmt.Sprintf("d%d", k))
}

// GenLayout generates a layout scenario.
func GenLayout(r *rand.Rand, cfg LayoutCfg, id, pkgRel string) *Scenario {
	s := &Scenario{ID: id, PkgRel: pkgRel, PkgName: "sc", Files: map[string]string{}, InConv: true}
	s.Setup = pkgRel + "/setup.go"
	g := &LayoutGen{R: r, Cfg: cfg, S: s, used: map[string]bool{}}
	// header
	bv := 0
	if cfg.BuildVariants {
		bv = r.Intn(6)
	}
	switch bv {
	case 0:
		g.sb.WriteString("//go:build convergen\n\n")
	case 1:
		g.sb.WriteString("//go:build convergen\n// +build convergen\n\n")
	case 2:
		g.sb.WriteString("//go:build convergen && !never\n\n")
	case 3:
		g.sb.WriteString("// +build convergen\n\n")
	case 4:
		g.sb.WriteString("//+build convergen\n\n") // legal: the space after the slashes is optional
	case 5:
		g.sb.WriteString("//go:build convergen\n//+build convergen\n\n")
	}
	g.vec = append(g.vec, fmt.Sprintf("bv%d", bv))
	if cfg.LineDirective && g.chance(0.08) {
		g.sb.WriteString([]string{"//line setup.go:1", "//line setup.go:100", "//line setup.y:10", "//line gen/setup.tmpl:7:3"}[r.Intn(4)] + "\n\n")
		g.vec = append(g.vec, "line-directive")
	}
	if cfg.Comments && g.chance(0.3) {
		fmt.Fprintf(&g.sb, "// %s\n\n", g.c("detached header comment"))
	}
	if cfg.PkgDoc && g.chance(0.5) {
		fmt.Fprintf(&g.sb, "// Package sc %s\n", g.c("package doc"))
		if g.chance(0.4) {
			g.sb.WriteString("// :typecast\n")
			g.vec = append(g.vec, "pkgdoc-notation")
		}
		if g.chance(0.25) {
			g.sb.WriteString("// :convergen\n")
			g.vec = append(g.vec, "pkgdoc-marker")
		}
		g.vec = append(g.vec, "pkgdoc")
	}
	g.sb.WriteString("package sc\n")
	g.blank()
	if cfg.Imports && g.chance(0.7) {
		g.sb.WriteString("import (\n")
		if cfg.Comments && g.chance(0.4) {
			fmt.Fprintf(&g.sb, "\t// %s\n", g.c("import comment"))
		}
		g.sb.WriteString("\t\"vb/ext\"\n")
		if g.chance(0.5) {
			g.sb.WriteString("\t_ \"vb/vtr\"\n")
			g.vec = append(g.vec, "blank-import")
		}
		if g.chance(0.1) {
			g.sb.WriteString("\tstr \"strings\"\n")
			g.vec = append(g.vec, "alias-import")
			defer func() {}()
		}
		g.sb.WriteString(")\n\n")
		// use ext and maybe str so that the setup file itself compiles
		g.sb.WriteString("var usesExt ext.MInt\n")
		if strings.Contains(g.sb.String(), "str \"strings\"") {
			if g.chance(0.5) {
				g.sb.WriteString("var usesStr = str.ToUpper(\"x\")\n")
			} else {
				// only used by a notation-free declaration that stays: keep it used so the input compiles
				g.sb.WriteString("func up(s string) string { return str.ToUpper(s) }\n")
			}
		}
		g.blank()
		g.vec = append(g.vec, "imports")
	}
	nIf := 1
	if cfg.MaxIfaces > 1 {
		nIf = 1 + r.Intn(cfg.MaxIfaces)
	}
	if cfg.NoIface && g.chance(0.08) {
		nIf = 0
		s.InConv = false
		g.vec = append(g.vec, "no-iface")
	}
	convergenUsed := false
	sameName := ""
	if cfg.SameNames && nIf >= 2 && g.chance(0.35) {
		sameName = g.methodName()
		g.vec = append(g.vec, "same-name-recv")
	}
	var typeDecls strings.Builder
	for i := 0; i < nIf; i++ {
		if cfg.MidLine && g.chance(0.1) {
			// positions reported after this line carry another file name and/or line numbers that collide with
			// those of earlier lines; the declarations that follow still belong to THIS file
			// (the directive stands directly on a declaration of its own: a FLOATING //line comment is moved around
			// by gofmt's directive handling once neighbouring comments are removed, which is not what is probed here)
			g.sb.WriteString([]string{"//line other.go:10", "//line setup.go:1", "//line setup.go:3", "//line sub/gen.tmpl:5"}[r.Intn(4)] + "\n")
			fmt.Fprintf(&g.sb, "var %s = 0\n\n", g.name("lineAnchor"))
			g.vec = append(g.vec, "mid-line-directive")
		}
		if cfg.Surround {
			for k := r.Intn(3); k > 0; k-- {
				g.surround()
				g.blank()
			}
		}
		it := &Iface{Converter: true}
		marked := convergenUsed || g.chance(0.4)
		if marked {
			it.Name = g.name("Conv")
			if g.chance(0.2) {
				it.Name = g.name("ConvergenStorage") // "Convergen" is a proper prefix of this name
			}
		} else {
			it.Name = "Convergen"
			convergenUsed = true
		}
		// doc comment of the interface
		var doc []string
		docless := g.chance(cfg.DoclessIface) && !marked
		if !docless {
			if cfg.Comments && g.chance(0.5) {
				doc = append(doc, "// "+g.c("iface doc "+it.Name))
			}
			if cfg.NotationsIface && g.chance(0.4) {
				n := []string{"typecast", "getter", "stringer", "case:off", "case", "style arg", "style return", "match name"}[r.Intn(8)]
				doc = append(doc, "// :"+n)
				parts := strings.Fields(n)
				it.Notations = append(it.Notations, Notation{Name: parts[0], Args: parts[1:]})
			}
			if marked {
				mk := "// :convergen"
				if g.chance(0.15) {
					mk = "//:convergen"
				}
				pos := r.Intn(len(doc) + 1)
				doc = append(doc[:pos], append([]string{mk}, doc[pos:]...)...)
			}
			if cfg.Comments && g.chance(0.3) {
				doc = append(doc, "// "+g.c("iface doc tail "+it.Name))
			}
			switch r.Intn(4) {
			case 0:
				doc = append(doc, "//go:generate go run github.com/reedom/convergen")
				g.vec = append(g.vec, "gen")
			case 1:
				if len(doc) > 0 {
					doc = append(doc, "//")
				}
				doc = append(doc, "//go:generate go run github.com/reedom/convergen")
				g.vec = append(g.vec, "gen-blank")
			}
		} else {
			g.vec = append(g.vec, "docless")
		}
		// an ordinary (unmarked) interface of the same file EMBEDDED into the converter interface: its
		// methods are methods of the converter interface and get their functions; it stays where it is
		embedded := ""
		if cfg.Unmarked && sameName == "" && g.chance(0.12) {
			base := &Iface{Name: g.name("Base"), Converter: false}
			bm := &Method{Name: "Via" + g.methodName()}
			a, b := g.name("A"), g.name("B")
			fmt.Fprintf(&typeDecls, "type %s struct{ X int }\n\ntype %s struct{ X int }\n\n", a, b)
			bm.Src.Type, bm.Dst.Type = "*"+a, "*"+b
			base.Methods = append(base.Methods, bm)
			if g.chance(0.5) {
				// the embedded interface's method carries notation lines and prose: the notations govern the
				// generated function and are absent from the carried-over interface, the prose stays
				bm.Notations = append(bm.Notations, [][]Notation{{N("typecast")}, {N("skip", "Nope")}, {N("stringer"), N("skip", "/^Zz$/")}}[r.Intn(3)]...)
				if cfg.Comments {
					// (notation lines first: removing a notation line from the END of a method comment leaves a blank
					// line that detaches the prose from the method - the defect family of KF-C11-doc-detached-by-
					// go-generate, see DESIGN 10.3)
					bm.DocLines = append(bm.DocLines, "// "+g.c("embedded method doc "+bm.Name))
					for k := range bm.Notations {
						bm.DocOrder = append(bm.DocOrder, fmt.Sprintf("n%d", k))
					}
					bm.DocOrder = append(bm.DocOrder, "d0")
				}
				g.vec = append(g.vec, "embeds-plain-notated")
			}
			fmt.Fprintf(&g.sb, "type %s interface {\n%s\t%s\n}\n\n", base.Name, RenderMethodDoc(bm), bm.Sig())
			s.Ifaces = append(s.Ifaces, base)
			it.Methods = append(it.Methods, bm)
			embedded = base.Name
			g.vec = append(g.vec, "embeds-plain")
		}
		for _, d := range doc {
			g.sb.WriteString(d + "\n")
		}
		nm := 1 + r.Intn(3)
		if cfg.MaxMethods > 3 && g.chance(0.15) {
			nm = 1 + r.Intn(cfg.MaxMethods)
		}
		if cfg.EmptyIface && sameName == "" && embedded == "" && g.chance(0.1) {
			nm = 0 // a converter interface with no methods yields no functions and disturbs nothing
		}
		style := "return"
		for _, n := range it.Notations {
			if n.Name == "style" {
				style = n.Args[0]
			}
		}
		var body strings.Builder
		if embedded != "" {
			body.WriteString("\t" + embedded + "\n")
		}
		oneLine := cfg.OneLine && nm == 1 && g.chance(0.35) && sameName == "" && embedded == ""
		for j := 0; j < nm; j++ {
			m := &Method{Name: g.methodName()}
			shared := sameName != "" && j == 0
			if shared {
				m.Name = sameName
			}
			a, b := g.name("A"), g.name("B")
			fmt.Fprintf(&typeDecls, "type %s struct{ X int }\n\ntype %s struct{ X int }\n\n", a, b)
			sp, dp := "*", "*"
			if g.chance(0.25) {
				sp = ""
			}
			if g.chance(0.25) {
				dp = ""
			}
			m.Src.Type, m.Dst.Type = sp+a, dp+b
			if g.chance(0.25) {
				m.Src.Name, m.Dst.Name = "in", "out"
			}
			m.HasErr = g.chance(0.25)
			if shared {
				// same name, same receiver identifier, different receiver type in every interface
				m.Notations = append(m.Notations, Notation{Name: "recv", Args: []string{"r"}})
			}
			if !oneLine && !shared {
				if cfg.Comments && g.chance(0.4) {
					if g.chance(0.12) {
						// a general comment over several lines is a doc comment like any other
						m.DocLines = append(m.DocLines, "/*\n\t\t"+g.c("method doc "+m.Name)+"\n\t\tits second line.\n\t*/")
					} else {
						m.DocLines = append(m.DocLines, "// "+g.c("method doc "+m.Name))
					}
				}
				if g.chance(0.3) {
					nn := [][]string{{"typecast"}, {"getter"}, {"stringer"}, {"case:off"}, {"skip", "X"}, {"skip", "/^X$/"}, {"map", "X", "X"}, {"literal", "X", "7"}, {"match", "none"}, {"style", "arg"}, {"recv", "r"}}[r.Intn(11)]
					if nn[0] == "recv" && (style == "arg" || len(m.Extras) > 0) {
						nn = []string{"typecast"}
					}
					m.Notations = append(m.Notations, Notation{Name: nn[0], Args: nn[1:]})
				}
				if cfg.Comments && g.chance(0.2) {
					m.DocLines = append(m.DocLines, "// "+g.c("method doc2 "+m.Name))
				}
				if cfg.Comments && g.chance(0.08) {
					// a compiler directive in the method comment is a non-notation line like any other
					m.DocLines = append(m.DocLines, []string{"//go:noinline", "//go:nosplit", "//nolint:all"}[r.Intn(3)])
				}
				if len(m.DocLines) > 0 && len(m.Notations) == 1 && g.chance(0.4) {
					// a second notation line, with prose BETWEEN the two (below)
					n2 := [][]string{{"typecast"}, {"getter"}, {"stringer"}, {"case:off"}, {"skip", "/^Zz$/"}, {"skip", "Nope"}}[r.Intn(6)]
					if n2[0] != m.Notations[0].Name {
						m.Notations = append(m.Notations, Notation{Name: n2[0], Args: n2[1:]})
					}
				}
				if len(m.DocLines) > 0 && len(m.Notations) == 2 {
					m.DocOrder = []string{"n0", "d0", "n1"}
					if r.Intn(2) == 0 {
						m.DocOrder = []string{"d0", "n0"}
						if len(m.DocLines) > 1 {
							m.DocOrder = append(m.DocOrder, "d1")
						}
						m.DocOrder = append(m.DocOrder, "n1")
					} else if len(m.DocLines) > 1 {
						m.DocOrder = append(m.DocOrder, "d1")
					}
				} else if len(m.DocLines) > 0 && len(m.Notations) > 0 {
					// interleave
					switch r.Intn(3) {
					case 0:
						m.DocOrder = []string{"n0", "d0"}
					case 1:
						m.DocOrder = []string{"d0", "n0"}
					}
					if len(m.DocOrder) > 0 && len(m.DocLines) > 1 {
						m.DocOrder = append(m.DocOrder, "d1")
					}
				}
				if cfg.Comments && g.chance(0.2) {
					m.Trailing = "// " + g.c("method trailing "+m.Name)
				}
			}
			it.Methods = append(it.Methods, m)
			if oneLine {
				body.WriteString(m.Sig())
			} else {
				body.WriteString(RenderMethodDoc(m))
				body.WriteString("\t" + m.Sig())
				if m.Trailing != "" {
					body.WriteString(" " + m.Trailing)
				}
				body.WriteString("\n")
				if g.chance(0.15) {
					body.WriteString("\n")
				}
			}
		}
		if nm == 0 && g.chance(0.5) {
			fmt.Fprintf(&g.sb, "type %s interface{}\n", it.Name)
		} else if nm == 0 {
			fmt.Fprintf(&g.sb, "type %s interface {\n\t// %s\n\t// Later(*NoSuchA) *NoSuchB\n}\n", it.Name, g.c("all methods commented out "+it.Name))
		} else if oneLine {
			fmt.Fprintf(&g.sb, "type %s interface { %s }\n", it.Name, body.String())
			g.vec = append(g.vec, fmt.Sprintf("oneline%d", len(body.String())))
		} else {
			tail := ""
			if cfg.Comments && g.chance(0.15) {
				tail = "\t// " + g.c("after last method "+it.Name) + "\n"
			}
			close := "}"
			if cfg.Comments && g.chance(0.15) {
				close = "} // " + g.c("closing brace "+it.Name)
			}
			eq := ""
			if cfg.AliasIface && g.chance(0.1) {
				// an alias declaration of an interface type is an interface declared in the file like any other
				eq = "= "
				g.vec = append(g.vec, "alias-form")
			}
			fmt.Fprintf(&g.sb, "type %s %sinterface {\n%s%s%s\n", it.Name, eq, body.String(), tail, close)
		}
		g.vec = append(g.vec, fmt.Sprintf("m%d", nm))
		s.Ifaces = append(s.Ifaces, it)
		// gap to the next declaration
		gap := r.Intn(4)
		for k := 0; k < gap; k++ {
			g.sb.WriteString("\n")
		}
		g.vec = append(g.vec, fmt.Sprintf("gap%d", gap))
		if cfg.Unmarked && g.chance(0.5) {
			g.unmarked()
		}
	}
	if cfg.Surround {
		for k := r.Intn(3); k > 0; k-- {
			g.blank()
			g.surround()
		}
	}
	if cfg.Surround && s.InConv && g.chance(0.12) {
		// a declaration of the setup file that USES a function yet to be generated (a helper calling
		// the element converter): the setup file does not type-check on its own, the output does
		var plain []*Method
		for _, it := range s.Ifaces {
			for _, m := range it.Methods {
				if _, isRecv := m.Get("recv"); it.Converter && !isRecv {
					plain = append(plain, m)
				}
			}
		}
		if len(plain) > 0 {
			fmt.Fprintf(&g.sb, "\nvar %s = %s\n", g.name("useGenerated"), plain[r.Intn(len(plain))].Name)
			g.vec = append(g.vec, "uses-generated")
		}
	}
	// operand types: in the setup file (carried over) or in a sibling file
	g.sb.WriteString("\n")
	if g.chance(0.5) {
		g.sb.WriteString(typeDecls.String())
		g.vec = append(g.vec, "types-in-setup")
	} else {
		s.Files[pkgRel+"/types.go"] = "package sc\n\n" + typeDecls.String()
	}
	if _, ok := s.Files[pkgRel+"/types.go"]; !ok {
		s.Files[pkgRel+"/types.go"] = "package sc\n"
	}
	if cfg.Siblings && g.chance(0.4) {
		// a sibling file (same build tag) with a marked interface: must be ignored
		sib := "//go:build convergen\n\npackage sc\n\ntype SibA struct{ X int }\n\ntype SibB struct{ X int }\n\n// :convergen\ntype SibConv interface {\n\tSibMethod(*SibA) *SibB\n}\n"
		if !convergenUsed && g.chance(0.5) {
			sib = strings.Replace(sib, "// :convergen\ntype SibConv", "type Convergen", 1)
		}
		s.Files[pkgRel+"/sibling.go"] = sib
		g.vec = append(g.vec, "sibling")
	}
	s.Files[s.Setup] = g.sb.String()
	s.Feature("layout.vector", strings.Join(g.vec, ","))
	s.Feature("profile", "layout")
	return s
}

// unmarked emits an interface that must NOT be converted.
func (g *LayoutGen) unmarked() {
	it := &Iface{Converter: false}
	k := g.R.Intn(9)
	it.Name = g.name("Plain")
	a, b := "int", "string"
	var doc string
	switch k {
	case 0: // no doc at all
	case 1:
		doc = "// " + g.c("plain doc") + "\n"
	case 2: // near-miss marker
		doc = "// :convergence\n"
	case 3: // marker detached by a blank line
		doc = "// :convergen\n\n"
	case 4: // notation-looking lines without marker
		doc = "// :typecast\n// :skip X\n"
	case 5: // lower-case name
		it.Name = g.name("convergen")
	case 6: // marker as trailing comment on the brace line (handled below)
	case 7: // the marker text somewhere INSIDE a doc line: commented out, quoted, mentioned
		doc = []string{"// // :convergen", "// formerly // :convergen", "// see \":convergen\" in the README", "// x :convergen", "//// :convergen", "// disabled: /* :convergen */"}[g.R.Intn(6)] + "\n"
	case 8: // marker-like words
		doc = []string{"// :convergen2", "// :convergen_off", "// :Convergen", "// :CONVERGEN", "// : convergen", "// convergen"}[g.R.Intn(6)] + "\n"
	}
	trail := ""
	if k == 6 {
		trail = " // :convergen"
	}
	fmt.Fprintf(&g.sb, "%stype %s interface {\n\t// :map A B\n\tPlainDo(x %s) %s\n}%s\n\n", doc, it.Name, a, b, trail)
	it.Methods = append(it.Methods, &Method{Name: "PlainDo", Src: Param{Type: a}, Dst: Param{Type: b}})
	g.S.Ifaces = append(g.S.Ifaces, it)
	g.vec = append(g.vec, fmt.Sprintf("plain%d", k))
}
