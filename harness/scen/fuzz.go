package scen

// Fault-injecting generators for C14 ("bad input yields a diagnostic and a non-zero exit,
// never a crash or hang"). A small valid base setup (fzTypes + fzCase.render) receives ONE
// fault (sometimes two) at one of three levels: (a) notation text, (b) referenced
// callbacks, (c) method signatures / operand types / file structure. The generator records
// the 1-based lines of the injected items (Scenario.InjectLine = first one, all of them as
// ranges in Features["inject_lines"]) and a stable class name (Scenario.InjectClass).
// Features["positioned"]=="1" marks classes for which the property's "for notation and
// method errors [the message] starts with the file:line:column of the offending item"
// clearly applies (see fuzz_a.go / fuzz_b.go / fuzz_c.go for the per-class decisions).

import (
	"fmt"
	"math/rand"
	"sort"
	"strings"
)

// fzMark marks an injected line; it is stripped when the file is rendered.
const fzMark = "\x01"

func inj(s string) string {
	// mark every line of a multi-line item
	parts := strings.Split(s, "\n")
	for i := range parts {
		parts[i] = fzMark + parts[i]
	}
	return strings.Join(parts, "\n")
}

// fzTypes is the ordinary-build sibling file of every fuzz case.
const fzTypes = `package sc

import "vb/ext"

type LInt int
type LStr string

func (s LStr) String() string { return string(s) }

type LErrish interface{ Error() string }

type InA struct {
	X int
	Y string
}
type InB struct {
	X int
	Y string
}

type SA struct {
	ID   int
	Name string
	Tags []string
	Ptr  *int
	In   InA
	Num  LInt
	Lbl  LStr
	Ext  ext.Pub
	hid  int
}

func (s SA) GetName() string        { return s.Name }
func (s *SA) Title() string         { return s.Name }
func (s SA) Risky() (string, error) { return s.Name, nil }
func (s SA) Inner() InA             { return s.In }
func (s *SA) Reset()                {}
func (s SA) Pair() (int, string)    { return s.ID, s.Name }
func (s SA) Triple() (int, int, error) { return 0, 0, nil }
func (s SA) ErrOnly() error         { return nil }
func (s SA) WithArg(n int) int      { return n }
func (s SA) Variadic(n ...int) int  { return len(n) }
func (s SA) FuncResult() func() int { return nil }

type DA struct {
	ID    int
	Name  string
	Tags  []string
	Ptr   *int
	In    InB
	Num   int64
	Lbl   string
	Ext   ext.Pub
	Title string
	Extra string
	hid   int
}

type SB struct {
	K string
	V int
	W float64
}
type DB struct {
	K string
	V int
	W float64
	Z string
}

var _ = ext.Pub{}
`

// fzCallbacks are the valid callbacks every base file declares.
const fzCallbacks = `func convIS(v int) string             { return "" }
func convSE(v string) (string, error) { return v, nil }
func preAD(dst *DA, src *SA)          {}
func preADE(dst *DA, src *SA) error   { return nil }
func preADX(dst *DA, src *SA, n int)  {}
func postBD(dst *DB, src *SB) error   { return nil }
`

// fzCase is one case before rendering.
type fzCase struct {
	class      string
	group      string // coarse class (level/notation or level/kind)
	positioned bool
	control    bool
	imports    []string          // import specs, e.g. `"vb/ext"`, `e2 "vb/ext"`
	decls      []string          // top-level declarations placed before the interface (setup.go)
	idoc       []string          // interface doc lines (complete comment lines)
	tdoc       []string          // doc lines of the target method (complete comment lines, unindented)
	tname      string            // target method name (default AtoD)
	tsig       string            // "(params) results" of the target method (default "(*SA) *DA"); may be marked with inj()
	extraMeth  []string          // additional complete method lines (with doc lines) inside the interface
	ifaceText  string            // if set: replaces the whole interface declaration (doc included)
	post       []string          // declarations after the callbacks
	typesExtra []string          // appended to types.go
	raw        *string           // if set: the whole setup.go
	files      map[string]string // extra files relative to the package dir
	noTypes    bool              // do not write types.go
	crlf       bool
	feats      map[string]string
	note       string
}

func (c *fzCase) feat(k, v string) {
	if c.feats == nil {
		c.feats = map[string]string{}
	}
	c.feats[k] = v
}

// setupText renders setup.go with marks.
func (c *fzCase) setupText() string {
	if c.raw != nil {
		return *c.raw
	}
	var sb strings.Builder
	sb.WriteString("//go:build convergen\n\npackage sc\n\n")
	if len(c.imports) > 0 {
		sb.WriteString("import (\n")
		for _, i := range c.imports {
			sb.WriteString("\t" + i + "\n")
		}
		sb.WriteString(")\n\n")
	}
	for _, d := range c.decls {
		sb.WriteString(d + "\n")
	}
	if len(c.decls) > 0 {
		sb.WriteString("\n")
	}
	if c.ifaceText != "" {
		sb.WriteString(c.ifaceText)
		if !strings.HasSuffix(c.ifaceText, "\n") {
			sb.WriteString("\n")
		}
	} else {
		sb.WriteString("// Convergen is the converter interface of this case.\n")
		for _, d := range c.idoc {
			sb.WriteString(d + "\n")
		}
		sb.WriteString("type Convergen interface {\n")
		sb.WriteString(c.targetText())
		for _, m := range c.extraMeth {
			for _, l := range strings.Split(m, "\n") {
				sb.WriteString("\t" + l + "\n")
			}
		}
		sb.WriteString(fzOtherMethods)
		sb.WriteString("}\n")
	}
	sb.WriteString("\n")
	sb.WriteString(fzCallbacks)
	for _, d := range c.post {
		sb.WriteString(d + "\n")
	}
	return sb.String()
}

// fzOtherMethods are the valid neighbours of the target method.
const fzOtherMethods = `	// BtoD copies in arg style.
	// :style arg
	// :skip Z
	// :postprocess postBD
	BtoD(src *SB) (dst *DB, err error)
	// :recv b
	// :map $2 Z
	CtoD(*SB, string) *DB
`

func (c *fzCase) targetText() string {
	var sb strings.Builder
	for _, d := range c.tdoc {
		for _, l := range strings.Split(d, "\n") {
			sb.WriteString("\t" + l + "\n")
		}
	}
	name := c.tname
	if name == "" {
		name = "AtoD"
	}
	sig := c.tsig
	if sig == "" {
		sig = "(*SA) *DA"
	}
	marked := strings.Contains(sig, fzMark)
	sig = strings.ReplaceAll(sig, fzMark, "")
	lines := strings.Split(name+sig, "\n")
	for _, l := range lines {
		if marked {
			sb.WriteString("\t" + fzMark + l + "\n")
		} else {
			sb.WriteString("\t" + l + "\n")
		}
	}
	return sb.String()
}

// render produces the scenario.
func (c *fzCase) render(id, pkgRel string) *Scenario {
	s := &Scenario{ID: id, PkgRel: pkgRel, PkgName: "sc", Files: map[string]string{}, InConv: false}
	s.Setup = pkgRel + "/setup.go"
	text := c.setupText()
	var lines []int
	parts := strings.Split(text, "\n")
	for i, l := range parts {
		if strings.Contains(l, fzMark) {
			lines = append(lines, i+1)
			parts[i] = strings.ReplaceAll(l, fzMark, "")
		}
	}
	text = strings.Join(parts, "\n")
	if c.crlf {
		text = strings.ReplaceAll(text, "\n", "\r\n")
	}
	s.Files[s.Setup] = text
	if !c.noTypes {
		ty := fzTypes
		if len(c.typesExtra) > 0 {
			ty += "\n" + strings.Join(c.typesExtra, "\n") + "\n"
		}
		s.Files[pkgRel+"/types.go"] = ty
	}
	for rel, content := range c.files {
		s.Files[pkgRel+"/"+rel] = content
	}
	s.InjectClass = c.class
	if len(lines) > 0 {
		s.InjectLine = lines[0]
		s.Feature("inject_lines", fzRanges(lines))
	}
	if c.positioned {
		s.Feature("positioned", "1")
	}
	if c.control {
		s.Feature("control", "1")
	}
	g := c.group
	if g == "" {
		g = c.class
		if i := strings.Index(g, "/"); i >= 0 {
			if j := strings.Index(g[i+1:], "/"); j >= 0 {
				g = g[:i+1+j]
			}
		}
	}
	s.Feature("group", g)
	for k, v := range c.feats {
		s.Feature(k, v)
	}
	s.Note = c.note
	return s
}

// fzRanges renders sorted line numbers as "a-b,c-d".
func fzRanges(lines []int) string {
	sort.Ints(lines)
	var parts []string
	for i := 0; i < len(lines); {
		j := i
		for j+1 < len(lines) && lines[j+1] <= lines[j]+1 {
			j++
		}
		parts = append(parts, fmt.Sprintf("%d-%d", lines[i], lines[j]))
		i = j + 1
	}
	return strings.Join(parts, ",")
}

func pickS(r *rand.Rand, xs []string) string { return xs[r.Intn(len(xs))] }

// GenFuzz generates the fixed list of n C14 cases from r: about 50 % notation-text faults,
// 23 % callback faults, 22 % signature/operand/file faults and 5 % valid controls.
func GenFuzz(r *rand.Rand, n int) []*Scenario {
	nCtl := n / 20
	nB := n * 23 / 100
	nC := n * 22 / 100
	var cs []*fzCase
	cs = append(cs, fzCorpus()...)
	// the systematic one-bad-argument part: its fixed core plus a seeded sample (a sixth of the budget)
	cs = append(cs, fzSystematicSample(rand.New(rand.NewSource(r.Int63())), n/6)...)
	nA := n - nCtl - nB - nC - len(cs)
	if nA < n/5 {
		nA = n / 5
	}
	cs = append(cs, fzLevelA(rand.New(rand.NewSource(r.Int63())), nA)...)
	cs = append(cs, fzLevelB(rand.New(rand.NewSource(r.Int63())), nB)...)
	cs = append(cs, fzLevelC(rand.New(rand.NewSource(r.Int63())), nC)...)
	cs = append(cs, fzControls(rand.New(rand.NewSource(r.Int63())), nCtl)...)
	out := make([]*Scenario, len(cs))
	for i, c := range cs {
		id := fmt.Sprintf("z%05d", i)
		out[i] = c.render(id, id)
	}
	return out
}

// fzCorpus is the fixed list of hand-written witnesses that every run contains (whatever the
// seed and tier): minimal inputs of the defects found so far, kept as regression cases.
func fzCorpus() []*fzCase {
	var out []*fzCase
	// ":literal" whose two arguments are separated by a Unicode space that strings.Fields
	// honours but the regexp class \s does not
	for name, sep := range map[string]string{"nbsp": "\u00a0", "vt": "\v", "ideographic": "\u3000", "nel": "\u0085"} {
		c := &fzCase{class: "corpus/literal-unicode-space-" + name, group: "corpus/literal", positioned: false}
		c.tdoc = []string{inj("// :literal Extra" + sep + "\"x\"")}
		c.feat("notation", "literal")
		out = append(out, c)
	}
	// ":typecast" onto a field whose type is a pointer to the universe type error
	for _, sk := range []string{"ptr-iface-local", "ptr-named-error"} {
		var s fzFieldKind
		for _, k := range fzFieldKinds {
			if k.name == sk {
				s = k
			}
		}
		c := fzFieldCase(s, fzFieldKind{"ptr-error", "*error"}, "pair", 1)
		c.class = "corpus/typecast-ptr-error-from-" + sk
		c.group = "corpus/typecast"
		out = append(out, c)
	}
	// a package doc comment made only of lines the tool strips (//go:generate, //go:build convergen)
	for name, sub := range map[string][2]string{
		"generate-line": {"package sc\n", "//go:generate go run github.com/reedom/convergen\npackage sc\n"},
		"build-tag":     {"//go:build convergen\n\n", "//go:build convergen\n"},
	} {
		raw := strings.Replace(fzValidFile, sub[0], sub[1], 1)
		out = append(out, &fzCase{class: "corpus/package-doc-only-" + name, group: "corpus/package-doc", raw: &raw})
	}
	// a setup file that uses cgo: the loader never hands it over (dc1e742)
	for name, imp := range map[string]string{"plain": "import \"C\"\n", "preamble": "/*\n#include <stdio.h>\n*/\nimport \"C\"\n"} {
		raw := strings.Replace(fzValidFile, "package sc\n", "package sc\n\n"+imp, 1)
		out = append(out, &fzCase{class: "corpus/import-c-" + name, group: "corpus/cgo", raw: &raw})
	}
	// ":recv" with a Go keyword
	for _, kw := range []string{"func", "type"} {
		c := &fzCase{class: "corpus/recv-keyword-" + kw, group: "corpus/recv", positioned: true}
		c.tdoc = []string{inj("// :recv " + kw)}
		c.feat("notation", "recv")
		out = append(out, c)
	}
	return out
}

// fzTargetSigs are valid signatures of the target method (SA -> DA).
var fzTargetSigs = []string{
	"(*SA) *DA",
	"(src *SA) (dst *DA, err error)",
	"(SA) DA",
	"(*SA, int) *DA",
	"(s *SA) (*DA, error)",
}

// fzValidDocs are valid notation sets for the target method.
var fzValidDocs = [][]string{
	{},
	{"// :typecast"},
	{"// :typecast", "// :stringer", "// :getter"},
	{"// :conv convIS ID Extra"},
	{"// :preprocess preAD"},
	{"// :map Name Extra", "// :skip Title"},
	{"// :literal Extra \"x\"", "// :case:off"},
	{"// AtoD has a doc text.", "// :match name", "// :skip /^T/"},
	{"// :style arg"},
	{"// :recv s", "// :getter"},
}

// fzControls are fully valid files (must be accepted with every function present).
func fzControls(r *rand.Rand, n int) []*fzCase {
	var out []*fzCase
	for i := 0; i < n; i++ {
		c := &fzCase{class: "control/valid", control: true}
		c.tsig = fzTargetSigs[i%len(fzTargetSigs)]
		c.tdoc = append([]string{}, fzValidDocs[(i/len(fzTargetSigs))%len(fzValidDocs)]...)
		if c.tsig == "(*SA, int) *DA" {
			// :recv with additional args and :preprocess preAD stay valid; nothing to adapt
		}
		if strings.Contains(c.tsig, "(SA) DA") && len(c.tdoc) > 0 && c.tdoc[0] == "// :recv s" {
			c.tdoc = []string{"// :getter"}
		}
		c.tname = pickS(r, []string{"AtoD", "MtoD", "ZtoD"})
		if r.Intn(3) == 0 {
			c.idoc = []string{pickS(r, []string{"// :typecast", "// :match name", "// :case", "// :getter:off", "// :convergen"})}
		}
		if r.Intn(6) == 0 {
			c.crlf = true
		}
		out = append(out, c)
	}
	return out
}
