package scen

import (
	"fmt"
	"strings"
)

// Pair is one (dst type, src type) cell of the type-pair matrix.
type Pair struct{ D, S TypeEntry }

// GenMatrix builds a scenario with one method whose destination fields are the given cells.
func GenMatrix(pairs []Pair, viaGetter bool, toggles []string, id, pkgRel string) *Scenario {
	b := NewBuilder(nil, Profile{}, id, pkgRel)
	m := &Method{Name: "Mx"}
	for _, t := range toggles {
		m.Notations = append(m.Notations, Notation{Name: t})
	}
	src := &SDecl{Name: "S"}
	dst := &SDecl{Name: "D"}
	b.decls = append(b.decls, src, dst)
	for i, p := range pairs {
		name := fmt.Sprintf("F%d", i)
		dst.Fields = append(dst.Fields, FDecl{Name: name, Type: p.D.Expr})
		mech := "diff"
		if p.D.Expr == p.S.Expr {
			mech = "same"
		}
		if viaGetter {
			hidden := "g" + name
			src.Fields = append(src.Fields, FDecl{Name: hidden, Type: p.S.Expr})
			ptr := i%3 == 0
			src.Methods = append(src.Methods, getterSrc("", "S", name, p.S.Expr, "r."+hidden, ptr))
			mech = "getter"
		} else {
			src.Fields = append(src.Fields, FDecl{Name: name, Type: p.S.Expr})
		}
		m.Probes = append(m.Probes, Probe{Dst: name, Mech: mech, DstT: p.D.Expr, SrcT: p.S.Expr, Extra: "matrix"})
	}
	m.Src.Type, m.Dst.Type = "*S", "*D"
	it := &Iface{Name: "Convergen", Converter: true, Methods: []*Method{m}}
	b.S.Ifaces = append(b.S.Ifaces, it)
	b.S.Feature("profile", "matrix")
	b.S.Feature("toggles", strings.Join(toggles, ","))
	b.S.Feature("via_getter", fmt.Sprint(viaGetter))
	return b.Finish()
}

// Match is the profile for C04: default matching.
func Match() Profile {
	p := Broad()
	p.Name = "match"
	p.Mechs = map[string]int{"same": 25, "diff": 30, "case": 14, "getter": 14, "nested": 10, "none": 5, "slice": 6, "unexported": 5, "embedded": 4, "ptrnested": 4, "skip": 1, "map": 1, "twin": 3, "embgetter": 4}
	p.PToggle = 0.5
	p.PHooks = 0.05
	p.PErr = 0.2
	return p
}

// Notate is the profile for C06: explicit notations in interaction with other mechanisms.
func Notate() Profile {
	p := Broad()
	p.Name = "notate"
	p.Mechs = map[string]int{"same": 10, "skip": 22, "map": 25, "conv": 20, "literal": 10, "nested": 14, "diff": 4, "case": 3, "getter": 4, "none": 3, "twin": 8}
	p.PToggle = 0.4
	p.PHooks = 0.05
	p.MaxDepth = 3
	p.ConvErrInNoErr = 0.03
	return p
}

// Shapes is the profile for C05: destination shapes.
func Shapes() Profile {
	p := Broad()
	p.Name = "shapes"
	p.Mechs = map[string]int{"same": 12, "diff": 12, "nested": 25, "embedded": 10, "ptrnested": 8, "none": 10, "unexported": 8, "skip": 8, "map": 6, "literal": 5, "conv": 4, "case": 3}
	p.Types = nil
	p.MaxDepth = 4
	p.PImportedS = 0.45
	p.PHooks = 0.05
	return p
}
