package scen

import (
	"fmt"
	"math/rand"
	"strings"
)

// ---- level (b): referenced callbacks --------------------------------------------------------
//
// Every case names a callback F in ONE notation of the target method (:conv F ID Extra,
// :preprocess F or :postprocess F); the notation line is the injected item, because that is
// what a diagnostic about a wrongly shaped callback has to blame. All classes are positioned.

var fzResShapes = []struct{ name, conv, hook string }{
	{"none", "", ""},
	{"T", "string", "int"},
	{"T-error", "(string, error)", "(int, error)"},
	{"T-U", "(string, int)", "(int, string)"},
	{"error", "error", "error"},
	{"T-error-error", "(string, error, error)", "(error, error)"},
	{"named-T-error", "(s string, err error)", "(err error)"},
}

func fzBody(res string) string {
	res = strings.TrimSpace(res)
	if res == "" {
		return "{}"
	}
	return "{ panic(0) }"
}

// fzConvDecl renders a converter candidate of the given arity.
func fzConvDecl(name string, arity int, variadic bool, right bool, res string) string {
	pt := "int"
	if !right {
		pt = "*SB"
	}
	var ps []string
	for i := 0; i < arity; i++ {
		t := pt
		if i > 0 {
			t = []string{"string", "int", "*SA"}[i%3]
		}
		if variadic && i == arity-1 {
			t = "..." + t
		}
		ps = append(ps, fmt.Sprintf("p%d %s", i, t))
	}
	return fmt.Sprintf("func %s(%s) %s %s", name, strings.Join(ps, ", "), res, fzBody(res))
}

var fzHookTypeSets = map[string][2]string{
	"right":    {"*DA", "*SA"},
	"swapped":  {"*SA", "*DA"},
	"byvalue":  {"DA", "SA"},
	"mixed":    {"*DA", "SA"},
	"wrong":    {"*DB", "*SB"},
	"wrong-1":  {"*DB", "*SA"},
	"wrong-2":  {"*DA", "*SB"},
	"iface":    {"interface{}", "interface{}"},
	"basic":    {"int", "string"},
	"ptrptr":   {"**DA", "**SA"},
	"slice":    {"[]DA", "[]SA"},
	"func":     {"func()", "func()"},
	"same-dst": {"*DA", "*DA"},
}

var fzHookMethods = []struct{ name, sig string }{
	{"x0", "(*SA) *DA"},
	{"x0e", "(*SA) (*DA, error)"},
	{"x1", "(*SA, int) *DA"},
	{"x2e", "(*SA, int, string) (*DA, error)"},
	{"val", "(SA) DA"},
	{"named", "(src *SA) (dst *DA, err error)"},
}

// fzHookDecl renders a hook candidate with nParams parameters.
func fzHookDecl(name string, nParams int, variadic bool, types string, res string) string {
	ts := fzHookTypeSets[types]
	extra := []string{"int", "string", "*int"}
	var ps []string
	for i := 0; i < nParams; i++ {
		var t string
		switch {
		case i < 2:
			t = ts[i]
		default:
			t = extra[(i-2)%len(extra)]
		}
		if variadic && i == nParams-1 {
			t = "..." + t
		}
		ps = append(ps, fmt.Sprintf("p%d %s", i, t))
	}
	return fmt.Sprintf("func %s(%s) %s %s", name, strings.Join(ps, ", "), res, fzBody(res))
}

type fzEntity struct {
	kind    string
	ref     string
	decls   []string
	types   []string
	imports []string
}

func fzEntities() []fzEntity {
	return []fzEntity{
		{kind: "method-expr", ref: "SA.GetName"},
		{kind: "method-expr-ptr", ref: "(*SA).Title"},
		{kind: "method-value", ref: "sv.GetName", decls: []string{"var sv SA"}},
		{kind: "method-bare", ref: "GetName"},
		{kind: "type-named", ref: "LInt"},
		{kind: "type-struct", ref: "DA"},
		{kind: "type-basic", ref: "string"},
		{kind: "type-error", ref: "error"},
		{kind: "type-func", ref: "FnT", decls: []string{"type FnT func(int) string"}},
		{kind: "type-generic", ref: "Box", decls: []string{"type Box[T any] struct{ V T }"}},
		{kind: "var-func-conv", ref: "convVar", decls: []string{`var convVar = func(v int) string { return "" }`}},
		{kind: "var-func-hook", ref: "hookVar", decls: []string{"var hookVar = func(dst *DA, src *SA) {}"}},
		{kind: "var-nil-func", ref: "nilFn", decls: []string{"var nilFn func(int) string"}},
		{kind: "var-int", ref: "notFunc", decls: []string{"var notFunc = 3"}},
		{kind: "const", ref: "convConst", decls: []string{"const convConst = 1"}},
		{kind: "generic-conv", ref: "convG", decls: []string{`func convG[T any](v T) string { return "" }`}},
		{kind: "generic-conv-ret", ref: "convGR", decls: []string{"func convGR[T any](v int) T { var z T; return z }"}},
		{kind: "generic-hook", ref: "hookG", decls: []string{"func hookG[T any](dst *T, src *SA) {}"}},
		{kind: "generic-hook-both", ref: "hookG2", decls: []string{"func hookG2[D, S any](dst *D, src *S) error { return nil }"}},
		{kind: "generic-instantiated", ref: "convG[int]", decls: []string{`func convG[T any](v T) string { return "" }`}},
		{kind: "imported-unexported", ref: "ext.convHidden", imports: []string{`"vb/ext"`}},
		{kind: "imported-exported", ref: "ext.ConvIntStr", imports: []string{`"vb/ext"`}},
		{kind: "imported-not-imported", ref: "ext.ConvIntStr"},
		{kind: "imported-blank", ref: "ext.ConvIntStr", imports: []string{`_ "vb/ext"`}},
		{kind: "imported-renamed", ref: "e2.ConvIntStr", imports: []string{`e2 "vb/ext"`}},
		{kind: "imported-renamed-oldname", ref: "ext.ConvIntStr", imports: []string{`e2 "vb/ext"`}},
		{kind: "imported-dot", ref: "ConvIntStr", imports: []string{`. "vb/ext"`}},
		{kind: "imported-dot-qualified", ref: ".ConvIntStr", imports: []string{`. "vb/ext"`}},
		{kind: "imported-type", ref: "ext.Pub", imports: []string{`"vb/ext"`}},
		{kind: "imported-missing-member", ref: "ext.Nope", imports: []string{`"vb/ext"`}},
		{kind: "imported-nonexistent-pkg", ref: "gone.F", imports: []string{`"vb/gone"`}},
		{kind: "imported-twice", ref: "ext.ConvIntStr", imports: []string{`"vb/ext"`, `ext "vb/vtr"`}},
		{kind: "unknown-pkg", ref: "nope.F"},
		{kind: "three-part", ref: "a.b.c"},
		{kind: "three-part-known", ref: "ext.ConvIntStr.x", imports: []string{`"vb/ext"`}},
		{kind: "pkg-trailing-dot", ref: "ext.", imports: []string{`"vb/ext"`}},
		{kind: "leading-dot", ref: ".convIS"},
		{kind: "double-dot", ref: "ext..ConvIntStr", imports: []string{`"vb/ext"`}},
		{kind: "pkg-name", ref: "ext", imports: []string{`"vb/ext"`}},
		{kind: "builtin-len", ref: "len"},
		{kind: "builtin-panic", ref: "panic"},
		{kind: "builtin-new", ref: "new"},
		{kind: "builtin-print", ref: "print"},
		{kind: "nil", ref: "nil"},
		{kind: "true", ref: "true"},
		{kind: "iota", ref: "iota"},
		{kind: "blank", ref: "_"},
		{kind: "init", ref: "init", decls: []string{"func init() {}"}},
		{kind: "sibling-file-func", ref: "convT", types: []string{`func convT(v int) string { return "" }`}},
		{kind: "sibling-file-hook", ref: "hookT", types: []string{"func hookT(dst *DA, src *SA) {}"}},
		{kind: "declared-twice", ref: "dupF", decls: []string{`func dupF(v int) string { return "" }`, "func dupF(dst *DA, src *SA) {}"}},
		{kind: "body-type-error", ref: "badBody", decls: []string{"func badBody(v int) string { return v }"}},
		{kind: "undefined-param-type", ref: "undefP", decls: []string{`func undefP(v Undefined) string { return "" }`}},
		{kind: "undefined-result-type", ref: "undefR", decls: []string{"func undefR(v int) Undefined { panic(0) }"}},
		{kind: "hook-undefined-types", ref: "undefH", decls: []string{"func undefH(dst *Undefined, src *Undefined2) {}"}},
		{kind: "func-returning-func", ref: "retFn", decls: []string{"func retFn(v int) func() string { return nil }"}},
		{kind: "func-taking-func", ref: "takeFn", decls: []string{`func takeFn(f func() int) string { return "" }`}},
		{kind: "iface-params", ref: "anyFn", decls: []string{`func anyFn(v interface{}) interface{} { return v }`}},
		{kind: "ptr-params", ref: "ptrFn", decls: []string{`func ptrFn(v *int) *string { return nil }`}},
		{kind: "ptrptr-params", ref: "pptrFn", decls: []string{`func pptrFn(v **int) **string { return nil }`}},
		{kind: "error-param", ref: "errFn", decls: []string{`func errFn(v error) error { return v }`}},
		{kind: "call-syntax", ref: "convIS()"},
		{kind: "call-syntax-arg", ref: "convIS(1)"},
		{kind: "unicode-name", ref: "変換", decls: []string{`func 変換(v int) string { return "" }`}},
		{kind: "generated-method", ref: "BtoD"},
		{kind: "self", ref: "AtoD"},
		{kind: "interface-name", ref: "Convergen"},
		{kind: "interface-method", ref: "Convergen.AtoD"},
	}
}

// fzLevelB builds n callback cases.
func fzLevelB(r *rand.Rand, n int) []*fzCase {
	var all []*fzCase
	// B1: converters, complete: arity 0..4 x result shapes x variadic x right/wrong types
	for arity := 0; arity <= 4; arity++ {
		for _, rs := range fzResShapes {
			for _, variadic := range []bool{false, true} {
				if variadic && arity == 0 {
					continue
				}
				for _, right := range []bool{true, false} {
					c := &fzCase{positioned: true, group: "b/conv"}
					v, ty := "", "right"
					if variadic {
						v = "v"
					}
					if !right {
						ty = "wrong"
					}
					c.class = fmt.Sprintf("b/conv/arity=%d%s/res=%s/types=%s", arity, v, rs.name, ty)
					c.post = []string{fzConvDecl("cbF", arity, variadic, right, rs.conv)}
					c.tdoc = []string{inj("// :conv cbF ID Extra")}
					c.feat("notation", "conv")
					all = append(all, c)
					// the same converter in a method that can return an error
					c2 := *c
					c2.class += "/meth=err"
					c2.tsig = "(*SA) (*DA, error)"
					all = append(all, &c2)
				}
			}
		}
	}
	// B3: entities of every kind named by each of the three notations
	for _, en := range fzEntities() {
		for _, nt := range []string{"conv", "preprocess", "postprocess"} {
			c := &fzCase{positioned: true, group: "b/" + nt}
			c.class = fmt.Sprintf("b/%s/entity=%s", nt, en.kind)
			c.decls = en.decls
			c.typesExtra = en.types
			c.imports = en.imports
			if nt == "conv" {
				c.tdoc = []string{inj("// :conv " + en.ref + " ID Extra")}
			} else {
				c.tdoc = []string{inj("// :" + nt + " " + en.ref)}
			}
			c.feat("notation", nt)
			all = append(all, c)
		}
	}
	r.Shuffle(len(all), func(i, j int) { all[i], all[j] = all[j], all[i] })
	nEnum := n * 45 / 100
	if nEnum > len(all) {
		nEnum = len(all)
	}
	out := append([]*fzCase{}, all[:nEnum]...)
	// B2: hooks, sampled: params 0..4 x type sets x results x variadic x method variants x pre/post
	var tsets []string
	for k := range fzHookTypeSets {
		tsets = append(tsets, k)
	}
	sortStrings(tsets)
	for i := 0; len(out) < n; i++ {
		np := i % 5
		ts := tsets[(i/5)%len(tsets)]
		rs := fzResShapes[r.Intn(len(fzResShapes))]
		variadic := np > 0 && r.Intn(6) == 0
		mv := fzHookMethods[r.Intn(len(fzHookMethods))]
		nt := pickS(r, []string{"preprocess", "postprocess"})
		v := ""
		if variadic {
			v = "v"
		}
		c := &fzCase{positioned: true, group: "b/" + nt}
		c.class = fmt.Sprintf("b/%s/params=%d%s/types=%s/res=%s/meth=%s", nt, np, v, ts, rs.name, mv.name)
		c.post = []string{fzHookDecl("cbH", np, variadic, ts, rs.hook)}
		c.tsig = mv.sig
		c.tdoc = []string{inj("// :" + nt + " cbH")}
		if r.Intn(5) == 0 {
			c.tdoc = append([]string{"// :style arg"}, c.tdoc...)
			c.class += "/arg"
		}
		if r.Intn(8) == 0 {
			// both hooks, the second one valid or the same
			other := "postprocess"
			if nt == "postprocess" {
				other = "preprocess"
			}
			c.tdoc = append(c.tdoc, inj("// :"+other+" cbH"))
			c.class += "/both"
		}
		c.feat("notation", nt)
		out = append(out, c)
	}
	return out
}

func sortStrings(xs []string) {
	for i := 1; i < len(xs); i++ {
		for j := i; j > 0 && xs[j] < xs[j-1]; j-- {
			xs[j], xs[j-1] = xs[j-1], xs[j]
		}
	}
}
