package scen

import (
	"fmt"
	"strings"
)

// Shape is one point of the signature space (C08).
type Shape struct {
	Arg, Recv, Reverse, SrcPtr, DstPtr, Err, Named, SrcImp, DstImp bool
	NExtras                                                        int
}

// Legal says whether the combination is documented as legal.
func (s Shape) Legal() bool {
	if s.Reverse && (!s.Arg || s.NExtras > 0) {
		return false
	}
	if s.Recv && s.SrcImp {
		return false
	}
	return true
}

// String renders a compact label.
func (s Shape) String() string {
	b := func(v bool, t string) string {
		if v {
			return t
		}
		return "-"
	}
	return fmt.Sprintf("%s%s%s%s%s%s%s%s%sx%d", b(s.Arg, "A"), b(s.Recv, "R"), b(s.Reverse, "V"), b(s.SrcPtr, "s"), b(s.DstPtr, "d"), b(s.Err, "E"), b(s.Named, "N"), b(s.SrcImp, "i"), b(s.DstImp, "j"), s.NExtras)
}

// AllShapes enumerates the complete space.
func AllShapes() []Shape {
	var out []Shape
	for mask := 0; mask < 1<<9; mask++ {
		for x := 0; x <= 3; x++ {
			out = append(out, Shape{Arg: mask&1 != 0, Recv: mask&2 != 0, Reverse: mask&4 != 0, SrcPtr: mask&8 != 0, DstPtr: mask&16 != 0,
				Err: mask&32 != 0, Named: mask&64 != 0, SrcImp: mask&128 != 0, DstImp: mask&256 != 0, NExtras: x})
		}
	}
	return out
}

// composite kinds included: every additional argument keeps its declared type whatever that is
// (channel direction, element types of other packages, function types)
var extraTypes = []string{"int", "string", "ext.Shape", "*LShape", "<-chan int", "[]ext.Shape", "chan<- *ext.Shape", "map[string]*LShape", "func(ext.Shape) error", "[2]<-chan string", "interface{ M() }"}

// GenShapes builds a scenario with one method per shape.
func GenShapes(shapes []Shape, id, pkgRel string) *Scenario {
	b := NewBuilder(nil, Profile{}, id, pkgRel)
	// vary how the imported operand package is named (by file)
	h := 0
	for _, c := range id {
		h = h*31 + int(c)
	}
	b.PkgNameMode = []string{"", "differs", "alias-collide", "dot", ""}[h%5]
	var methods []*Method
	needFailure := false
	var argIface []*Method // arg-style shapes whose style comes from an interface-level notation
	for i, sh := range shapes {
		sp, dp := "", ""
		if sh.SrcImp {
			sp = "m"
		}
		if sh.DstImp {
			dp = "m"
		}
		src := b.Struct(sp, fmt.Sprintf("S%d", i), "X int", "Y string")
		dst := b.Struct(dp, fmt.Sprintf("D%d", i), "X int", "Y string")
		if i%7 == 3 {
			// a destination type that itself implements error is a destination like any other: whether the function
			// has an `err error` result is decided by the method's declared results alone
			recv := "*"
			if i%2 == 1 {
				recv = ""
			}
			dst.Methods = append(dst.Methods, fmt.Sprintf("func (d %sD%d) Error() string { return \"d\" }\n", recv, i))
		}
		m := &Method{Name: fmt.Sprintf("M%d", i), HasErr: sh.Err}
		if sh.Recv && i%3 == 0 {
			// a generated method may be named like a package-level declaration (its own result type)
			m.Name = fmt.Sprintf("D%d", i)
		}
		styleAtIface := sh.Arg && i%2 == 1
		if sh.Arg && !styleAtIface {
			m.Notations = append(m.Notations, N("style", "arg"))
		}
		if sh.Recv {
			m.Notations = append(m.Notations, N("recv", "rc"))
		}
		if sh.Reverse {
			m.Notations = append(m.Notations, N("reverse"))
		}
		m.Src.Type, m.Dst.Type = src.Ref(), dst.Ref()
		if sh.SrcPtr {
			m.Src.Type = "*" + m.Src.Type
		}
		if sh.DstPtr {
			m.Dst.Type = "*" + m.Dst.Type
		}
		// operand, receiver and error types spelled through a type alias (type X = Y) mean the aliased type
		if i%5 == 2 {
			b.Func(fmt.Sprintf("type AD%d = %s\n", i, dst.Ref()), false, "")
			m.Dst.Type = strings.Replace(m.Dst.Type, dst.Ref(), fmt.Sprintf("AD%d", i), 1)
		}
		if i%5 == 4 && (!sh.Recv || sh.SrcImp) {
			b.Func(fmt.Sprintf("type AS%d = %s\n", i, src.Ref()), false, "")
			m.Src.Type = strings.Replace(m.Src.Type, src.Ref(), fmt.Sprintf("AS%d", i), 1)
		}
		if sh.Err && i%3 == 1 {
			m.ErrType = "Failure"
			needFailure = true
		}
		if sh.Named {
			m.Src.Name, m.Dst.Name = "in", "out"
			// whatever the interface calls its error result, the generated function has `err error`
			m.ErrName = []string{"", "err", "failure", "e", "_"}[i%5]
		}
		for x := 0; x < sh.NExtras; x++ {
			p := Param{Type: extraTypes[(i+x)%len(extraTypes)]}
			if sh.Named {
				p.Name = fmt.Sprintf("p%d", x)
			}
			m.Extras = append(m.Extras, p)
		}
		m.Probes = []Probe{{Dst: "X", Mech: "same", DstT: "int", SrcT: "int"}, {Dst: "Y", Mech: "same", DstT: "string", SrcT: "string"}}
		m.Trailing = "// shape " + sh.String()
		if styleAtIface {
			argIface = append(argIface, m)
		} else {
			methods = append(methods, m)
		}
	}
	if needFailure {
		b.Func("type Failure = error\n", false, "")
	}
	if len(argIface) > 0 {
		// an interface that sorts BEFORE "Convergen" and sets :style arg for all its methods
		b.S.Ifaces = append(b.S.Ifaces, &Iface{Name: "AArgStyle", Converter: true, Notations: []Notation{N("convergen"), N("style", "arg")}, Methods: argIface})
	}
	if len(methods) == 0 {
		s := b.Finish()
		s.Feature("profile", "shapes8")
		return s
	}
	if h%3 == 1 && len(methods) >= 2 {
		// the first method is declared in an ordinary interface of the file that Convergen embeds: a method of the
		// converter interface like any other, with its notations
		base := &Iface{Name: "ShapeBase", Converter: false, Methods: []*Method{methods[0]}}
		b.S.Ifaces = append(b.S.Ifaces, base)
		b.S.Ifaces = append(b.S.Ifaces, &Iface{Name: "Convergen", Converter: true, Methods: methods, Embeds: []*Iface{base}})
		b.S.Feature("profile", "corpus")
		b.S.Feature("embeds", "1")
		s := b.Finish()
		s.Feature("profile", "shapes8")
		return s
	}
	s := b.Manual(methods...)
	s.Feature("profile", "shapes8")
	return s
}
