// Package scen describes scenarios (generated module sub-trees fed to convergen) and
// contains the seeded generators for them.
package scen

import (
	"fmt"
	"sort"
	"strings"
)

// ModName is the module name of every batch / standalone scenario module.
const ModName = "vb"

// Notation is one ":name args" line.
type Notation struct {
	Name string   `json:"name"`
	Args []string `json:"args,omitempty"`
	// Raw, if non-empty, is emitted verbatim after "// " instead of ":name args".
	Raw string `json:"raw,omitempty"`
}

// Line renders the comment line.
func (n Notation) Line() string {
	if n.Raw != "" {
		return "// " + n.Raw
	}
	s := "// :" + n.Name
	if len(n.Args) > 0 {
		s += " " + strings.Join(n.Args, " ")
	}
	return s
}

// Param is a method parameter.
type Param struct {
	Name string `json:"name,omitempty"`
	Type string `json:"type"`
}

// Method is one method of a converter interface.
type Method struct {
	Name      string     `json:"name"`
	Notations []Notation `json:"notations,omitempty"`
	// DocLines are emitted in the method's doc comment; DocOrder interleaves them:
	// entries "n<i>" (notation i) and "d<i>" (doc line i); empty = notations then doc.
	DocLines []string `json:"doc_lines,omitempty"`
	DocOrder []string `json:"doc_order,omitempty"`
	Src      Param    `json:"src"`
	Dst      Param    `json:"dst"`
	Extras   []Param  `json:"extras,omitempty"`
	HasErr   bool     `json:"has_err,omitempty"`
	ErrName  string   `json:"err_name,omitempty"`
	// ErrType spells the error result ("" = "error"); e.g. the name of an alias `type Failure = error`.
	ErrType string `json:"err_type,omitempty"`
	// Trailing is a trailing comment on the method line.
	Trailing string `json:"trailing,omitempty"`
	// ErrSites lists the trace sites of error-capable callbacks reachable from this method;
	// PreSite/PostSite are the sites of its hooks.
	ErrSites []string `json:"err_sites,omitempty"`
	PreSite  string   `json:"pre_site,omitempty"`
	PostSite string   `json:"post_site,omitempty"`
	// Probes records the generator's intention per destination path (features only).
	Probes []Probe `json:"probes,omitempty"`
}

// Probe is the generator's record of why a destination field exists.
type Probe struct {
	Dst   string `json:"dst"`   // destination path below the root
	Mech  string `json:"mech"`  // intended mechanism
	DstT  string `json:"dst_t"` // destination type expression
	SrcT  string `json:"src_t,omitempty"`
	Extra string `json:"extra,omitempty"`
}

// Sig renders the interface method line.
func (m *Method) Sig() string {
	var sb strings.Builder
	sb.WriteString(m.Name + "(")
	ps := append([]Param{m.Src}, m.Extras...)
	for i, p := range ps {
		if i > 0 {
			sb.WriteString(", ")
		}
		if p.Name != "" {
			sb.WriteString(p.Name + " ")
		}
		sb.WriteString(p.Type)
	}
	sb.WriteString(") ")
	if !m.HasErr && m.Dst.Name == "" {
		sb.WriteString(m.Dst.Type)
		return sb.String()
	}
	sb.WriteString("(")
	if m.Dst.Name != "" {
		sb.WriteString(m.Dst.Name + " ")
	}
	sb.WriteString(m.Dst.Type)
	if m.HasErr {
		sb.WriteString(", ")
		if m.Dst.Name != "" {
			en := m.ErrName
			if en == "" {
				en = "err"
			}
			sb.WriteString(en + " ")
		}
		if m.ErrType != "" {
			sb.WriteString(m.ErrType)
		} else {
			sb.WriteString("error")
		}
	}
	sb.WriteString(")")
	return sb.String()
}

// Get returns the last notation with the given name.
func (m *Method) Get(name string) (Notation, bool) {
	for i := len(m.Notations) - 1; i >= 0; i-- {
		if m.Notations[i].Name == name {
			return m.Notations[i], true
		}
	}
	return Notation{}, false
}

// Iface is one interface declaration of the setup file.
type Iface struct {
	Name      string     `json:"name"`
	Converter bool       `json:"converter"` // named Convergen or carries :convergen
	Notations []Notation `json:"notations,omitempty"`
	DocLines  []string   `json:"doc_lines,omitempty"`
	Generate  bool       `json:"generate,omitempty"` // emit a //go:generate line as doc
	Methods   []*Method  `json:"methods"`
	// Embeds lists interfaces of the same file that this one embeds; their methods are listed in Methods as well
	// (they are methods of this interface) but are rendered only where they are declared.
	Embeds []*Iface `json:"-"`
}

// Scenario is one generated package plus the record of intent.
type Scenario struct {
	ID       string            `json:"id"`
	PkgRel   string            `json:"pkg_rel"`  // directory of the package below the module root
	PkgName  string            `json:"pkg_name"` // package clause
	Files    map[string]string `json:"-"`        // module-root-relative path -> content
	Setup    string            `json:"setup"`    // module-root-relative path of the setup file
	Ifaces   []*Iface          `json:"ifaces"`
	InConv   bool              `json:"in_convention"`
	Features map[string]string `json:"features,omitempty"`
	// Registry lines for the exec driver: Go expressions of callbacks to register.
	RegMethods []string `json:"reg_methods,omitempty"` // e.g. "S0.Name", "(*m.S1).Val"
	RegFuncs   []string `json:"reg_funcs,omitempty"`   // e.g. "conv1", "m.Conv2"
	DrvImports []string `json:"drv_imports,omitempty"` // import specs needed by the driver stub
	// Injected is set by fault-injecting generators (C14): line of the injected item and class.
	InjectLine  int    `json:"inject_line,omitempty"`
	InjectClass string `json:"inject_class,omitempty"`
	Note        string `json:"note,omitempty"`
}

// PkgPath returns the import path of the scenario package.
func (s *Scenario) PkgPath() string { return ModName + "/" + s.PkgRel }

// OutRel returns the default output path (module-root relative).
func (s *Scenario) OutRel() string {
	return strings.TrimSuffix(s.Setup, ".go") + ".gen.go"
}

// Converters lists converter interfaces.
func (s *Scenario) Converters() []*Iface {
	var r []*Iface
	for _, i := range s.Ifaces {
		if i.Converter {
			r = append(r, i)
		}
	}
	return r
}

// AllMethods lists methods of all converter interfaces.
func (s *Scenario) AllMethods() []*Method {
	var r []*Method
	for _, i := range s.Converters() {
		r = append(r, i.Methods...)
	}
	return r
}

// Feature sets a feature key.
func (s *Scenario) Feature(k, v string) {
	if s.Features == nil {
		s.Features = map[string]string{}
	}
	s.Features[k] = v
}

// FeatureString renders features deterministically.
func (s *Scenario) FeatureString() string {
	keys := make([]string, 0, len(s.Features))
	for k := range s.Features {
		keys = append(keys, k)
	}
	sort.Strings(keys)
	var parts []string
	for _, k := range keys {
		parts = append(parts, k+"="+s.Features[k])
	}
	return strings.Join(parts, " ")
}

// RenderIface renders an interface declaration with its doc comment.
func RenderIface(it *Iface) string {
	var sb strings.Builder
	for _, d := range it.DocLines {
		sb.WriteString(d + "\n")
	}
	for _, n := range it.Notations {
		sb.WriteString(n.Line() + "\n")
	}
	if it.Generate {
		sb.WriteString("//go:generate go run github.com/reedom/convergen\n")
	}
	fmt.Fprintf(&sb, "type %s interface {\n", it.Name)
	inherited := map[*Method]bool{}
	for _, e := range it.Embeds {
		sb.WriteString("\t" + e.Name + "\n")
		for _, m := range e.Methods {
			inherited[m] = true
		}
	}
	for _, m := range it.Methods {
		if inherited[m] {
			continue
		}
		sb.WriteString(RenderMethodDoc(m))
		sb.WriteString("\t" + m.Sig())
		if m.Trailing != "" {
			sb.WriteString(" " + m.Trailing)
		}
		sb.WriteString("\n")
	}
	sb.WriteString("}\n")
	return sb.String()
}

// RenderMethodDoc renders the doc comment of a method.
func RenderMethodDoc(m *Method) string {
	var sb strings.Builder
	if len(m.DocOrder) > 0 {
		for _, o := range m.DocOrder {
			var idx int
			fmt.Sscanf(o[1:], "%d", &idx)
			if o[0] == 'n' && idx < len(m.Notations) {
				sb.WriteString("\t" + m.Notations[idx].Line() + "\n")
			} else if o[0] == 'd' && idx < len(m.DocLines) {
				sb.WriteString("\t" + m.DocLines[idx] + "\n")
			}
		}
		return sb.String()
	}
	for _, d := range m.DocLines {
		sb.WriteString("\t" + d + "\n")
	}
	for _, n := range m.Notations {
		sb.WriteString("\t" + n.Line() + "\n")
	}
	return sb.String()
}
