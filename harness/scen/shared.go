package scen

import "strings"

// VtrSrc is the import-free trace package shared by all instrumented callbacks.
const VtrSrc = `// Package vtr is the import-free trace/fault package used by instrumented callbacks.
package vtr

// Event is one callback invocation.
type Event struct {
	Site string
	Args []interface{}
}

var (
	Trace      []Event
	Muted      bool
	FailSite   string // site that fails ("" = none)
	FailNth    int    // 1-based occurrence that fails (0 = every occurrence)
	failSeen   int
	Failed     []string // sites that actually returned an injected error, in order
	PanicSite  string   // site that panics when reached ("" = none)
	PanickedAt string
	// Snap is plugged by the driver runtime: snapshots an argument at event time.
	Snap func(interface{}) interface{}
	// Hook is plugged by the driver runtime: lets hooks mutate operands (site, args).
	Hook func(site string, args []interface{})
)

// Err is the injected error type; identity matters.
type Err struct{ Site string }

func (e *Err) Error() string { return "vtr:" + e.Site }

var errs = map[string]*Err{}

// ErrOf returns the unique error object of a site.
func ErrOf(site string) error {
	e := errs[site]
	if e == nil {
		e = &Err{Site: site}
		errs[site] = e
	}
	return e
}

// Enter records an event.
func Enter(site string, args ...interface{}) {
	if Muted {
		return
	}
	ev := Event{Site: site}
	for _, a := range args {
		if Snap != nil {
			ev.Args = append(ev.Args, Snap(a))
		} else {
			ev.Args = append(ev.Args, a)
		}
	}
	Trace = append(Trace, ev)
	if PanicSite == site {
		PanickedAt = site
		panic("vtr: injected panic at " + site)
	}
	if Hook != nil {
		Hook(site, args)
	}
}

// Fail reports whether the fault plan makes this site fail now.
func Fail(site string) bool {
	if Muted || site != FailSite {
		return false
	}
	failSeen++
	if FailNth == 0 || failSeen == FailNth {
		Failed = append(Failed, site)
		return true
	}
	return false
}

// Reset clears the trace and the per-call fault counters.
func Reset() {
	Trace = nil
	failSeen = 0
	Failed = nil
	PanickedAt = ""
}

// Itoa is strconv.Itoa without imports.
func Itoa(n int64) string {
	if n == 0 {
		return "0"
	}
	neg := n < 0
	var b [24]byte
	i := len(b)
	u := uint64(n)
	if neg {
		u = uint64(-n)
	}
	for u > 0 {
		i--
		b[i] = byte('0' + u%10)
		u /= 10
	}
	if neg {
		i--
		b[i] = '-'
	}
	return string(b[i:])
}
`

// ExtSrc is the fixed "imported" package shared by all scenarios of a module.
const ExtSrc = `// Package ext is the shared imported package of scenario modules.
package ext

import "vb/vtr"

type MInt int
type MInt64 int64
type MFloat float64
type MBool bool

// MStr has a value-receiver String method.
type MStr string

func (s MStr) String() string { vtr.Enter("ext.MStr.String", string(s)); return "MStr(" + string(s) + ")" }

// MPS has a pointer-receiver String method.
type MPS string

func (s *MPS) String() string {
	if s == nil {
		vtr.Enter("ext.MPS.String", "<nil>")
		return "MPS(<nil>)"
	}
	vtr.Enter("ext.MPS.String", string(*s))
	return "MPS(" + string(*s) + ")"
}

// MNum is an int with a String method.
type MNum int

func (n MNum) String() string { vtr.Enter("ext.MNum.String", int(n)); return "MNum(" + vtr.Itoa(int64(n)) + ")" }

// Inner has an unexported member.
type Inner struct {
	A   int
	B   string
	hid int
	été int // unexported although its first BYTE is not a lower-case ASCII letter
}

// SetHid lets the driver make hid non-zero through the API as well.
func (i Inner) secret() int    { return i.hid } // unexported getter-shaped method: never reachable from other packages
func (i *Inner) SetHid(v int) { i.hid = v }
func (i Inner) Hid() int      { vtr.Enter("ext.Inner.Hid"); return i.hid }

// Shape has the same shape as the local LShape.
type Shape struct {
	X int
	Y string
}

type Pub struct {
	A int
	B string
}

type AllHidden struct {
	a int
	b string
}

// Emb embeds Pub.
type Emb struct {
	Pub
	Z int
}

// WithAnon has an anonymous struct member with an unexported field.
type WithAnon struct {
	An struct {
		P int
		q int
	}
	W int
}

// SS is a struct with a String method.
type SS struct{ ID int }

func (s SS) String() string { vtr.Enter("ext.SS.String", s.ID); return "SS(" + vtr.Itoa(int64(s.ID)) + ")" }

type Tags []string
type Ints []int

type Errish interface{ Error() string }

// Conv* are package-qualified converters.
func ConvIntStr(v int) string { vtr.Enter("ext.ConvIntStr", v); return "ext.ConvIntStr(" + vtr.Itoa(int64(v)) + ")" }
func ConvStrStrE(v string) (string, error) {
	vtr.Enter("ext.ConvStrStrE", v)
	if vtr.Fail("ext.ConvStrStrE") {
		return "", vtr.ErrOf("ext.ConvStrStrE")
	}
	return "ext.ConvStrStrE(" + v + ")", nil
}
func convHidden(v int) int { return v }
`

// PreludeSrc is the ordinary-build file put into every scenario package.
func PreludeSrc(pkgName string) string {
	return strings.Replace(`package PKG

import "vb/vtr"

type LInt int
type LInt64 int64
type LBool bool

// LStr has a value-receiver String method.
type LStr string

func (s LStr) String() string { vtr.Enter("LStr.String", string(s)); return "LStr(" + string(s) + ")" }

// LPS has a pointer-receiver String method.
type LPS string

func (s *LPS) String() string {
	if s == nil {
		vtr.Enter("LPS.String", "<nil>")
		return "LPS(<nil>)"
	}
	vtr.Enter("LPS.String", string(*s))
	return "LPS(" + string(*s) + ")"
}

type LNum int

func (n LNum) String() string { vtr.Enter("LNum.String", int(n)); return "LNum(" + vtr.Itoa(int64(n)) + ")" }

type LInner struct {
	A   int
	B   string
	hid int
	été int
}

type LShape struct {
	X int
	Y string
}

type LEmpty struct{}

// LSS is a struct with a String method.
type LSS struct{ ID int }

func (s LSS) String() string { vtr.Enter("LSS.String", s.ID); return "LSS(" + vtr.Itoa(int64(s.ID)) + ")" }

type LTags []string

type LErrish interface{ Error() string }
`, "PKG", pkgName, 1)
}

// PreludeRegMethods lists the method expressions of the prelude and ext that the driver registers.
var PreludeRegMethods = []string{
	"LStr.String", "(*LPS).String", "LNum.String", "LSS.String",
	"ext.MStr.String", "(*ext.MPS).String", "ext.MNum.String", "ext.SS.String", "ext.Inner.Hid",
}

// PreludeRegFuncs lists the ext functions registered as converters.
var PreludeRegFuncs = []string{"ext.ConvIntStr", "ext.ConvStrStrE"}

// TypeEntry is one entry of the type alphabet.
type TypeEntry struct {
	Expr  string // Go expression as seen from the scenario package
	Kind  string // coarse kind label for coverage/fingerprints
	Local bool   // mentions a type local to the scenario package (not usable inside package m)
}

// Alphabet is the field-type alphabet.
var Alphabet = []TypeEntry{
	{"bool", "bool", false}, {"int", "int", false}, {"int8", "int", false}, {"int32", "int", false}, {"int64", "int", false},
	{"uint", "uint", false}, {"uint8", "uint", false}, {"float32", "float", false}, {"float64", "float", false},
	{"string", "string", false}, {"[]byte", "bytes", false},
	{"LInt", "named-int", true}, {"ext.MInt", "named-int-ext", false}, {"LInt64", "named-int", true}, {"ext.MInt64", "named-int-ext", false},
	{"ext.MFloat", "named-float-ext", false}, {"LBool", "named-bool", true}, {"ext.MBool", "named-bool-ext", false},
	{"LStr", "stringer-val", true}, {"ext.MStr", "stringer-val-ext", false},
	{"LPS", "stringer-ptr", true}, {"ext.MPS", "stringer-ptr-ext", false},
	{"LNum", "stringer-int", true}, {"ext.MNum", "stringer-int-ext", false},
	{"LSS", "stringer-struct", true}, {"ext.SS", "stringer-struct-ext", false},
	{"*int", "ptr-basic", false}, {"*string", "ptr-basic", false}, {"*LInt", "ptr-named", true}, {"*ext.MInt", "ptr-named-ext", false},
	{"*LStr", "ptr-stringer-val", true}, {"*LPS", "ptr-stringer-ptr", true}, {"*ext.MStr", "ptr-stringer-val-ext", false},
	{"*LInner", "ptr-struct", true}, {"*ext.Inner", "ptr-struct-ext", false}, {"*LShape", "ptr-struct", true}, {"*ext.Shape", "ptr-struct-ext", false},
	{"LInner", "struct", true}, {"ext.Inner", "struct-ext-hidden", false}, {"LShape", "struct", true}, {"ext.Shape", "struct-ext", false},
	{"ext.Pub", "struct-ext", false}, {"LEmpty", "struct-empty", true}, {"ext.AllHidden", "struct-ext-allhidden", false},
	{"ext.Emb", "struct-ext-embedded", false}, {"ext.WithAnon", "struct-ext-anon", false},
	{"struct{ P int }", "struct-anon", false}, {"struct{ P int64 }", "struct-anon", false},
	{"[]int", "slice-basic", false}, {"[]string", "slice-basic", false}, {"[]int64", "slice-basic", false},
	{"[]LInt", "slice-named", true}, {"[]ext.MInt", "slice-named-ext", false},
	{"[]LInner", "slice-struct", true}, {"[]ext.Shape", "slice-struct-ext", false}, {"[]LShape", "slice-struct", true},
	{"[]*LInner", "slice-ptr", true}, {"[]*int", "slice-ptr", false},
	{"[]interface{}", "slice-iface", false}, {"[]any", "slice-iface", false}, {"[]error", "slice-iface", false},
	{"LTags", "named-slice", true}, {"ext.Tags", "named-slice-ext", false}, {"[][]int", "slice-slice", false},
	{"[2]int", "array", false}, {"[2]string", "array", false},
	{"map[string]int", "map", false}, {"map[string]string", "map", false},
	{"interface{}", "iface", false}, {"error", "error", false}, {"LErrish", "iface-named", true}, {"ext.Errish", "iface-named-ext", false},
	{"func()", "func", false}, {"chan int", "chan", false},
}

// KindOf returns the kind label of a type expression (or "other").
func KindOf(expr string) string {
	for _, t := range Alphabet {
		if t.Expr == expr {
			return t.Kind
		}
	}
	switch {
	case strings.HasPrefix(expr, "*"):
		return "ptr-genstruct"
	case strings.HasPrefix(expr, "[]"):
		return "slice-genstruct"
	}
	return "genstruct"
}
