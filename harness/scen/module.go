package scen

import (
	"os"
	"path/filepath"
)

// WriteModuleBase writes go.mod, vtr and ext into root.
func WriteModuleBase(root string) error {
	files := map[string]string{
		"go.mod":     "module " + ModName + "\n\ngo 1.19\n",
		"vtr/vtr.go": VtrSrc,
		"ext/ext.go": ExtSrc,
	}
	for rel, c := range files {
		p := filepath.Join(root, rel)
		if err := os.MkdirAll(filepath.Dir(p), 0o755); err != nil {
			return err
		}
		if err := os.WriteFile(p, []byte(c), 0o644); err != nil {
			return err
		}
	}
	return nil
}

// Write writes the scenario files below root.
func (s *Scenario) Write(root string) error {
	for rel, c := range s.Files {
		p := filepath.Join(root, rel)
		if err := os.MkdirAll(filepath.Dir(p), 0o755); err != nil {
			return err
		}
		if err := os.WriteFile(p, []byte(c), 0o644); err != nil {
			return err
		}
	}
	return nil
}
