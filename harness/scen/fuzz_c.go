package scen

import (
	"fmt"
	"math/rand"
	"regexp"
	"strings"
)

// ---- level (c): method signatures, operand types, interface and file structure ---------------
//
// Positioned (the method line is the offending item): signature-shape faults and operand
// faults (0 params/results, non-struct operands, undefined types). Not positioned: struct
// FIELD kinds, recursive types, interface shapes outside the documented conventions and
// file-level faults - there the property only demands termination, a sane exit status, a
// non-empty message on failure and no dropped method on success.

var fzSigShapes = []struct{ name, sig string }{
	{"0-params", "() *DA"},
	{"0-results", "(*SA)"},
	{"0-params-0-results", "()"},
	{"3-results-err-err", "(*SA) (*DA, error, error)"},
	{"2-results-dst-dst", "(*SA) (*DA, *DA)"},
	{"2-results-dst-int", "(*SA) (*DA, int)"},
	{"result-error-only", "(*SA) error"},
	{"result-error-paren", "(*SA) (error)"},
	{"error-first", "(*SA) (error, *DA)"},
	{"variadic-src", "(...*SA) *DA"},
	{"variadic-extra", "(*SA, ...int) *DA"},
	{"grouped-params", "(a, b *SA) *DA"},
	{"named-blank", "(_ *SA) (_ *DA)"},
	{"named-same", "(x *SA) (x *DA)"},
	{"named-keywordish", "(dst *SA) (src *DA, err error)"},
	{"named-err-clash", "(err *SA) (dst *DA, e error)"},
	{"arg-named-arg0", "(arg0 *SA, x int) *DA"},
	{"multi-line", "(\n\tsrc *SA,\n) *DA"},
	{"multi-line-bad", "(\n\tsrc int,\n) (\n\tdst string,\n)"},
	{"five-extras", "(*SA, int, string, *int, []int, map[string]int) *DA"},
	{"extra-func", "(*SA, func()) *DA"},
	{"extra-undefined", "(*SA, Undefined) *DA"},
	{"extra-chan", "(*SA, chan int) *DA"},
	{"err-named-type", "(*SA) (*DA, LErrish)"},
	{"err-ptr", "(*SA) (*DA, *error)"},
}

var fzOperandKinds = []struct{ name, typ string }{
	{"struct-ptr", "*SA"}, {"struct-val", "SA"}, {"dst-ptr", "*DA"}, {"dst-val", "DA"},
	{"int", "int"}, {"string", "string"}, {"slice", "[]SA"}, {"slice-ptr", "[]*SA"}, {"map", "map[string]SA"},
	{"ptrptr", "**SA"}, {"ptr-int", "*int"}, {"ptr-slice", "*[]SA"}, {"iface-empty", "interface{}"}, {"any", "any"},
	{"error", "error"}, {"iface-local", "LErrish"}, {"func", "func()"}, {"chan", "chan int"}, {"array", "[3]SA"},
	{"anon-struct", "struct{ ID int }"}, {"anon-struct-ptr", "*struct{ ID int }"}, {"empty-struct", "struct{}"},
	{"named-int", "LInt"}, {"named-ptr", "*LInt"}, {"imported-struct", "*ext.Pub"}, {"imported-int", "ext.MInt"},
	{"imported-hidden", "*ext.AllHidden"}, {"undefined", "Undefined"}, {"undefined-ptr", "*Undefined"},
	{"undefined-pkg", "nope.T"}, {"undefined-member", "ext.Nope"}, {"unexported-member", "ext.hidden"},
	{"generic-inst", "*GBox[int]"}, {"generic-uninst", "*GBox"}, {"named-struct-ptr-type", "PSA"}, {"alias", "ASA"},
	{"named-of-named", "SA2"}, {"unsafe-ptr", "unsafe.Pointer"}, {"complex", "complex128"}, {"nil", "nil"},
}

const fzOperandDecls = `type GBox[T any] struct{ V T }
type PSA *SA
type ASA = SA
type SA2 SA`

type fzFieldKind struct{ name, typ string }

var fzFieldKinds = []fzFieldKind{
	{"int", "int"}, {"string", "string"}, {"error", "error"}, {"ptr-error", "*error"}, {"slice-error", "[]error"},
	{"iface-empty", "interface{}"}, {"any", "any"}, {"iface-local", "LErrish"}, {"ptr-iface-local", "*LErrish"}, {"iface-imported", "ext.Errish"},
	{"func", "func()"}, {"func-sig", "func(int) string"}, {"named-func", "NFn"}, {"chan", "chan int"}, {"chan-recv", "<-chan int"}, {"named-chan", "NCh"},
	{"map", "map[string]int"}, {"map-struct", "map[string]SA"}, {"named-map", "NMap"}, {"array", "[3]int"}, {"array0", "[0]int"},
	{"ptrptr", "**int"}, {"named-ptr", "NPtr"}, {"struct-empty", "struct{}"}, {"struct-anon", "struct{ A int }"}, {"ptr-struct-anon", "*struct{ A int }"},
	{"struct-named", "InA"}, {"struct-named-other", "InB"}, {"ptr-struct", "*InA"}, {"ptr-struct-other", "*InB"},
	{"complex", "complex128"}, {"uintptr", "uintptr"}, {"rune", "rune"}, {"byte-slice", "[]byte"}, {"slice-slice", "[][]int"},
	{"slice-iface", "[]interface{}"}, {"slice-struct", "[]InA"}, {"slice-struct-other", "[]InB"}, {"slice-ptr-struct", "[]*InA"},
	{"generic", "GBox[int]"}, {"ptr-generic", "*GBox[string]"}, {"slice-generic", "[]GBox[int]"}, {"stringer", "LStr"}, {"ptr-stringer", "*LStr"},
	{"named-error", "NErr"}, {"ptr-named-error", "*NErr"}, {"undefined", "Undefined"}, {"unsafe-ptr", "unsafe.Pointer"},
}

const fzFieldDecls = `type NFn func()
type NCh chan int
type NMap map[string]int
type NPtr *int
type NErr error
type GBox[T any] struct{ V T }`

var fzToggles = []struct {
	name string
	doc  []string
}{
	{"none", nil},
	{"typecast", []string{"// :typecast"}},
	{"stringer", []string{"// :stringer"}},
	{"getter", []string{"// :getter"}},
	{"all", []string{"// :typecast", "// :stringer", "// :getter", "// :case:off"}},
}

func fzNeedsUnsafe(ts ...string) []string {
	for _, t := range ts {
		if strings.Contains(t, "unsafe.") {
			return []string{`"unsafe"`}
		}
	}
	return nil
}

func fzImportsFor(ts ...string) []string {
	var im []string
	for _, t := range ts {
		if strings.Contains(t, "ext.") {
			im = append(im, `"vb/ext"`)
			break
		}
	}
	return append(im, fzNeedsUnsafe(ts...)...)
}

// fzFieldCase declares FS/FD in the setup file with one special field pair.
func fzFieldCase(sk, dk fzFieldKind, mode string, tg int) *fzCase {
	c := &fzCase{group: "c/field", positioned: false}
	c.class = fmt.Sprintf("c/field/src=%s,dst=%s/%s/%s", sk.name, dk.name, mode, fzToggles[tg].name)
	var fs, fd string
	switch mode {
	case "pair": // same field name on both sides
		fs = "\tF " + sk.typ + "\n"
		fd = "\tF " + dk.typ + "\n"
	case "dst-only": // no source counterpart
		fd = "\tF " + dk.typ + "\n"
	case "getter": // the source offers a getter of that type
		fd = "\tF " + dk.typ + "\n"
	case "mapped":
		fs = "\tQ " + sk.typ + "\n"
		fd = "\tF " + dk.typ + "\n"
	case "embedded": // embedded on both sides (kinds that are not embeddable fall back to a pair)
		fs = "\tF " + sk.typ + "\n"
		fd = "\tF " + dk.typ + "\n"
		if reEmbeddable.MatchString(sk.typ) {
			fs = "\t" + sk.typ + "\n"
		}
		if reEmbeddable.MatchString(dk.typ) {
			fd = "\t" + dk.typ + "\n"
		}
	}
	c.decls = []string{fzFieldDecls,
		"type FS struct {\n\tG int\n" + fs + "}",
		inj("type FD struct {\n\tG int\n" + fd + "}")}
	if mode == "getter" {
		c.decls = append(c.decls, "func (s FS) F() "+sk.typ+" { panic(0) }")
	}
	c.tsig = "(*FS) *FD"
	c.tdoc = append([]string{}, fzToggles[tg].doc...)
	if mode == "mapped" {
		c.tdoc = append(c.tdoc, "// :map Q F")
	}
	c.imports = fzImportsFor(sk.typ, dk.typ)
	return c
}

var reEmbeddable = regexp.MustCompile(`^\*?[A-Za-z_][\w.]*(\[\w+\])?$`)

var fzRecursive = []struct{ name, decls, sig string }{
	{"ptr-slice", "type RS struct {\n\tV int\n\tNext *RS\n\tKids []RS\n}\ntype RD struct {\n\tV int\n\tNext *RD\n\tKids []RD\n}", "(*RS) *RD"},
	{"same-type", "type RS struct {\n\tV int\n\tNext *RS\n\tKids []RS\n}", "(*RS) *RS"},
	{"mutual", "type RS struct {\n\tV int\n\tT *RT\n}\ntype RT struct {\n\tS *RS\n\tL []RS\n}\ntype RD struct {\n\tV int\n\tT *RU\n}\ntype RU struct {\n\tS *RD\n\tL []RD\n}", "(*RS) *RD"},
	{"map", "type RS struct {\n\tM map[string]RS\n\tP map[string]*RS\n}\ntype RD struct {\n\tM map[string]RD\n\tP map[string]*RD\n}", "(*RS) *RD"},
	{"slice-ptr", "type RS struct {\n\tK []*RS\n\tA [2]*RS\n}\ntype RD struct {\n\tK []*RD\n\tA [2]*RD\n}", "(*RS) *RD"},
	{"func-iface", "type RS struct {\n\tF func() RS\n\tI interface{ Get() RS }\n\tC chan RS\n}\ntype RD struct {\n\tF func() RD\n\tI interface{ Get() RD }\n\tC chan RD\n}", "(*RS) *RD"},
	{"embedded-ptr", "type RS struct {\n\t*RS\n\tV int\n}\ntype RD struct {\n\t*RD\n\tV int\n}", "(*RS) *RD"},
	{"embedded-ptr-cross", "type RS struct {\n\t*RD\n\tV int\n}\ntype RD struct {\n\t*RS\n\tV int\n}", "(*RS) *RD"},
	{"getter-self", "type RS struct{ V int }\n\nfunc (s RS) Self() RS   { return s }\nfunc (s RS) PSelf() *RS { return &s }\n\ntype RD struct {\n\tV     int\n\tSelf  RD1\n\tPSelf *RD\n}\ntype RD1 struct {\n\tV    int\n\tSelf RD2\n}\ntype RD2 struct {\n\tV    int\n\tSelf struct{ V int }\n}", "(*RS) *RD"},
	{"getter-self-deep", "type RS struct{ V int }\n\nfunc (s RS) Self() RS { return s }\n\ntype RD struct {\n\tSelf struct {\n\t\tSelf struct {\n\t\t\tSelf struct {\n\t\t\t\tSelf struct{ Self struct{ Self struct{ V int } } }\n\t\t\t}\n\t\t}\n\t}\n}", "(RS) RD"},
	{"invalid-by-value", "type RS struct {\n\tV    int\n\tNext RS\n}\ntype RD struct {\n\tV    int\n\tNext RD\n}", "(*RS) *RD"},
	{"invalid-array", "type RS struct {\n\tA [1]RS\n}\ntype RD struct {\n\tA [1]RD\n}", "(*RS) *RD"},
	{"named-slice-self", "type RL []RL\ntype RS struct{ L RL }\ntype RD struct{ L RL }", "(*RS) *RD"},
	{"named-ptr-self", "type RP *RP\ntype RS struct{ P RP }\ntype RD struct{ P RP }", "(*RS) *RD"},
	// cyclic pointer types as OPERANDS and additional arguments (legal Go; the copy cannot be done, the tool must say so and stop)
	{"operand-ptr-self-src", "type RP *RP\ntype RD struct{ V int }", "(RP) *RD"},
	{"operand-ptr-self-dst", "type RP *RP\ntype RS struct{ V int }", "(*RS) RP"},
	{"extra-arg-ptr-self", "type RP *RP\ntype RS struct{ V int }\ntype RD struct{ V int }", "(*RS, RP) *RD"},
	{"extra-arg-ptr-mutual", "type Ping *Pong\ntype Pong *Ping\ntype RS struct{ V int }\ntype RD struct{ V int }", "(*RS, Ping) *RD"},
	{"operand-ptr-mutual", "type Ping *Pong\ntype Pong *Ping\ntype RD struct{ V int }", "(Ping) *RD"},
	{"generic-self", "type RG[T any] struct {\n\tV    T\n\tNext *RG[T]\n}\ntype RS struct{ G RG[int] }\ntype RD struct{ G RG[int64] }", "(*RS) *RD"},
	{"blank-fields", "type RS struct {\n\t_ int\n\t_ string\n\tV int\n}\ntype RD struct {\n\t_ int\n\t_ string\n\tV int\n}", "(*RS) *RD"},
	{"duplicate-fields", "type RS struct {\n\tV int\n\tV string\n}\ntype RD struct {\n\tV int\n\tV string\n\tv int\n}", "(*RS) *RD"},
	{"field-named-like-method", "type RS struct{ String string }\n\nfunc (s RS) V() int { return 0 }\n\ntype RD struct {\n\tString string\n\tV      int\n}\n\nfunc (d RD) String() string { return \"\" }", "(*RS) *RD"},
	{"embedded-promoted", "type RE struct{ V int }\ntype RS struct {\n\tRE\n\tW int\n}\ntype RD struct {\n\tV int\n\tW int\n\tRE RE\n}", "(*RS) *RD"},
	{"embedded-error-iface", "type RS struct {\n\terror\n\tV int\n}\ntype RD struct {\n\terror\n\tV int\n}", "(*RS) *RD"},
	{"embedded-imported", "type RS struct {\n\text.Pub\n\t*ext.Inner\n}\ntype RD struct {\n\text.Pub\n\t*ext.Inner\n}", "(*RS) *RD"},
	{"no-fields", "type RS struct{}\ntype RD struct{}", "(*RS) *RD"},
	{"only-unexported-imported", "type RS struct{ H ext.AllHidden }\ntype RD struct{ H ext.AllHidden }", "(*ext.AllHidden) *ext.AllHidden"},
	{"nested-by-value-deep", "type RS struct{ A struct{ B struct{ C struct{ D struct{ E struct{ V int } } } } } }\ntype RD struct{ A struct{ B struct{ C struct{ D struct{ E struct{ V int64 } } } } } }", "(*RS) *RD"},
}

type fzIfaceShape struct {
	name    string
	text    string // the interface declaration block (doc included)
	decls   []string
	types   []string
	imports []string
}

func fzIfaceShapes() []fzIfaceShape {
	var manyM strings.Builder
	manyM.WriteString("type Convergen interface {\n")
	for i := 0; i < 300; i++ {
		fmt.Fprintf(&manyM, "\t// :typecast\n\tM%03d(*SA) *DA\n", i)
	}
	manyM.WriteString("}\n")
	return []fzIfaceShape{
		{name: "embedded-local", decls: []string{"type Base interface {\n\tBaseM(*SB) *DB\n}"}, text: "type Convergen interface {\n\tBase\n\tAtoD(*SA) *DA\n}"},
		{name: "embedded-local-bad-method", decls: []string{"type Base interface {\n\tBaseM()\n}"}, text: "type Convergen interface {\n\tBase\n\tAtoD(*SA) *DA\n}"},
		{name: "embedded-sibling-file", types: []string{"type TBase interface {\n\t// :skip V\n\tTBaseM(*SB) *DB\n}"}, text: "type Convergen interface {\n\tTBase\n\tAtoD(*SA) *DA\n}"},
		{name: "embedded-imported", imports: []string{`"vb/ext"`}, text: "type Convergen interface {\n\text.Errish\n\tAtoD(*SA) *DA\n}"},
		{name: "embedded-error", text: "type Convergen interface {\n\terror\n\tAtoD(*SA) *DA\n}"},
		{name: "embedded-only", decls: []string{"type Base interface {\n\tBaseM(*SB) *DB\n}"}, text: "type Convergen interface {\n\tBase\n}"},
		{name: "embedded-undefined", text: "type Convergen interface {\n\tUndefined\n\tAtoD(*SA) *DA\n}"},
		{name: "embedded-self", text: "type Convergen interface {\n\tConvergen\n\tAtoD(*SA) *DA\n}"},
		{name: "embedded-duplicate-method", decls: []string{"type Base interface {\n\tAtoD(*SA) *DA\n}"}, text: "type Convergen interface {\n\tBase\n\tAtoD(*SA) *DA\n}"},
		{name: "embedded-converter", text: "// :convergen\ntype Base interface {\n\tBaseM(*SB) *DB\n}\n\ntype Convergen interface {\n\tBase\n\tAtoD(*SA) *DA\n}"},
		{name: "grouped", text: "type (\n\t// Convergen is grouped.\n\tConvergen interface {\n\t\t// :typecast\n\t\tAtoD(*SA) *DA\n\t}\n\tOther struct{ X int }\n)"},
		{name: "grouped-alone", text: "type (\n\tConvergen interface {\n\t\tAtoD(*SA) *DA\n\t}\n)"},
		{name: "grouped-last", text: "type (\n\tOther struct{ X int }\n\tConvergen interface {\n\t\tAtoD(*SA) *DA\n\t}\n)"},
		{name: "grouped-marked", text: "type (\n\t// :convergen\n\tFirst interface {\n\t\tAtoD(*SA) *DA\n\t}\n\t// :convergen\n\t// :style arg\n\tSecond interface {\n\t\tBtoD(*SB) *DB\n\t}\n)"},
		{name: "grouped-doc-on-group", text: "// :convergen\ntype (\n\tFirst interface {\n\t\tAtoD(*SA) *DA\n\t}\n\tSecond interface {\n\t\tBtoD(*SB) *DB\n\t}\n)"},
		// doc comments consisting only of stripped directive lines, on every kind of declaration (0a2043e)
		{name: "grouped-generate-doc-marked", text: "//go:generate go run github.com/reedom/convergen\ntype (\n\t// :convergen\n\tFirst interface {\n\t\tAtoD(*SA) *DA\n\t}\n)"},
		{name: "grouped-generate-doc", text: "//go:generate go run github.com/reedom/convergen\ntype (\n\tConvergen interface {\n\t\tAtoD(*SA) *DA\n\t}\n)"},
		{name: "spec-generate-doc", text: "type (\n\t//go:generate go run github.com/reedom/convergen\n\tConvergen interface {\n\t\tAtoD(*SA) *DA\n\t}\n)"},
		{name: "method-generate-doc", text: "type Convergen interface {\n\t//go:generate go run github.com/reedom/convergen\n\tAtoD(*SA) *DA\n}"},
		{name: "other-decls-generate-doc", decls: []string{"//go:generate go run github.com/reedom/convergen\nvar (\n\t//go:generate go run github.com/reedom/convergen\n\tV1 = 1\n)", "//go:generate go run github.com/reedom/convergen\nfunc F1() {}", "type T1 struct {\n\t//go:generate go run github.com/reedom/convergen\n\tX int //go:generate go run github.com/reedom/convergen\n}"}, text: "//go:generate go run github.com/reedom/convergen\ntype Convergen interface {\n\tAtoD(*SA) *DA\n}"},
		{name: "grouped-empty", text: "type ()\n\ntype Convergen interface {\n\tAtoD(*SA) *DA\n}"},
		{name: "zero-methods", text: "type Convergen interface {\n}"},
		{name: "zero-methods-oneline", text: "type Convergen interface{}"},
		{name: "comments-only", text: "type Convergen interface {\n\t// :skip X\n\t// AtoD(*SA) *DA\n}"},
		{name: "one-line", text: "type Convergen interface{ AtoD(*SA) *DA }"},
		{name: "one-line-two", text: "type Convergen interface{ AtoD(*SA) *DA; BtoD(*SB) *DB }"},
		{name: "generic", text: "type Convergen[T any] interface {\n\tAtoD(*SA) *DA\n}"},
		{name: "generic-used", text: "type Convergen[T any] interface {\n\tAtoD(*T) *DA\n}"},
		{name: "generic-method-operands", decls: []string{"type GBox[T any] struct{ V T }"}, text: "type Convergen interface {\n\tAtoD(*GBox[int]) *GBox[int64]\n\tBtoD(GBox[string]) GBox[string]\n}"},
		{name: "alias", text: "type Convergen = interface {\n\tAtoD(*SA) *DA\n}"},
		{name: "alias-of-named", decls: []string{"type Base interface {\n\tAtoD(*SA) *DA\n}"}, text: "type Convergen = Base"},
		{name: "named-of-named", decls: []string{"type Base interface {\n\tAtoD(*SA) *DA\n}"}, text: "type Convergen Base"},
		{name: "named-of-imported", imports: []string{`"vb/ext"`}, text: "type Convergen ext.Errish"},
		{name: "is-struct", text: "type Convergen struct {\n\tX int\n}"},
		{name: "is-func", text: "func Convergen(*SA) *DA { return nil }"},
		{name: "is-var", text: "var Convergen interface {\n\tAtoD(*SA) *DA\n}"},
		{name: "is-const", text: "const Convergen = 1"},
		{name: "marked-struct", text: "// :convergen\ntype Marked struct {\n\tX int\n}"},
		{name: "marked-only", text: "// :convergen\ntype Marked interface {\n\tAtoD(*SA) *DA\n}"},
		{name: "marked-wide-spacing", text: "//   :convergen   \ntype Marked interface {\n\tAtoD(*SA) *DA\n}"},
		{name: "marked-suffix", text: "// :convergenX\ntype Marked interface {\n\tAtoD(*SA) *DA\n}"},
		{name: "two-converters-same-methods", text: "type Convergen interface {\n\tAtoD(*SA) *DA\n}\n\n// :convergen\ntype Second interface {\n\tAtoD(*SA) *DA\n}"},
		{name: "two-converters-adjacent", text: "type Convergen interface {\n\tAtoD(*SA) *DA\n}\n// :convergen\ntype Second interface {\n\tBtoD(*SB) *DB\n}"},
		{name: "method-named-like-callback", text: "type Convergen interface {\n\tconvIS(*SA) *DA\n\tpreAD(*SB) *DB\n}"},
		{name: "method-blank-name", text: "type Convergen interface {\n\t_(*SA) *DA\n\tAtoD(*SA) *DA\n}"},
		{name: "method-init-main", text: "type Convergen interface {\n\tinit(*SA) *DA\n\tmain(*SB) *DB\n}"},
		{name: "method-unicode-name", text: "type Convergen interface {\n\t変換(*SA) *DA\n\tÉtoD(*SB) *DB\n}"},
		{name: "method-duplicate", text: "type Convergen interface {\n\tAtoD(*SA) *DA\n\tAtoD(*SB) *DB\n}"},
		{name: "type-set", text: "type Convergen interface {\n\t~int | ~string\n\tAtoD(*SA) *DA\n}"},
		{name: "comparable", text: "type Convergen interface {\n\tcomparable\n\tAtoD(*SA) *DA\n}"},
		{name: "in-function", text: "func holder() {\n\ttype Convergen interface {\n\t\tAtoD(*SA) *DA\n\t}\n}"},
		{name: "in-function-and-top", text: "func holder() {\n\ttype Convergen interface {\n\t\tXtoD(*SA) *DA\n\t}\n}\n\ntype Convergen interface {\n\tAtoD(*SA) *DA\n}"},
		{name: "sibling-file-only", types: []string{"type Convergen interface {\n\tAtoD(*SA) *DA\n}"}, text: "type Unmarked interface {\n\tAtoD(*SA) *DA\n}"},
		{name: "sibling-file-too", types: []string{"// :convergen\ntype Sib interface {\n\tXtoD(*SA) *DA\n}"}, text: "type Convergen interface {\n\tAtoD(*SA) *DA\n}"},
		{name: "300-methods", text: manyM.String()},
		{name: "trailing-comments", text: "type Convergen interface { // :skip X\n\tAtoD(*SA) *DA // :recv 1x\n\t// :style bogus\n} // :reverse"},
		{name: "doc-block-comment", text: "/* Convergen\n:convergen */\ntype Convergen interface {\n\t/* :skip */\n\tAtoD(*SA) *DA\n}"},
		{name: "marker-in-block-comment", text: "/* :convergen */\ntype Marked interface {\n\tAtoD(*SA) *DA\n}"},
		{name: "method-is-func-field", text: "type Convergen interface {\n\tAtoD(*SA) *DA\n}\n\ntype holder struct {\n\tAtoD func(*SA) *DA\n}"},
		{name: "func-with-method-name-exists", text: "type Convergen interface {\n\tAtoD(*SA) *DA\n}\n\nfunc AtoD(*SA) *DA { return nil }"},
		{name: "semicolons", text: "type Convergen interface { AtoD(*SA) *DA; }; type X int"},
		{name: "paren-type", text: "type Convergen (interface {\n\tAtoD(*SA) *DA\n})"},
	}
}

const fzValidFile = `//go:build convergen

package sc

// Convergen is the converter interface of this case.
type Convergen interface {
	// :typecast
	// :conv convIS ID Extra
	AtoD(*SA) *DA
	// :style arg
	BtoD(src *SB) (dst *DB, err error)
}

func convIS(v int) string { return "" }
`

type fzFileShape struct {
	name     string
	raw      string
	files    map[string]string
	noTypes  bool
	argv     string
	nomodule bool
}

func fzFileShapes() []fzFileShape {
	noTag := strings.TrimPrefix(fzValidFile, "//go:build convergen\n\n")
	return []fzFileShape{
		{name: "no-interface", raw: "//go:build convergen\n\npackage sc\n\nfunc convIS(v int) string { return \"\" }\n"},
		{name: "no-interface-no-decls", raw: "//go:build convergen\n\npackage sc\n"},
		{name: "package-clause-only", raw: "package sc\n"},
		{name: "package-clause-no-newline", raw: "package sc"},
		{name: "empty", raw: ""},
		{name: "whitespace-only", raw: "\n\n  \n"},
		{name: "comment-only", raw: "// :convergen\n"},
		{name: "build-tag-only", raw: "//go:build convergen\n"},
		{name: "binary-garbage", raw: "\x7fELF\x02\x01\x01\x00\x00\x00"},
		{name: "nul-bytes", raw: strings.Replace(fzValidFile, "package sc", "package sc\x00", 1)},
		{name: "bom-start", raw: "\ufeff" + fzValidFile},
		{name: "bom-middle", raw: strings.Replace(fzValidFile, "type Convergen", "\ufefftype Convergen", 1)},
		{name: "invalid-utf8", raw: strings.Replace(fzValidFile, "is the converter", "is \xff\xfe the converter", 1)},
		{name: "crlf", raw: strings.ReplaceAll(fzValidFile, "\n", "\r\n")},
		{name: "cr-only", raw: strings.ReplaceAll(fzValidFile, "\n", "\r")},
		{name: "no-final-newline", raw: strings.TrimSuffix(fzValidFile, "\n")},
		{name: "wrong-package-clause", raw: strings.Replace(fzValidFile, "package sc", "package other", 1)},
		{name: "package-main", raw: strings.Replace(fzValidFile, "package sc", "package main", 1)},
		{name: "package-test-suffix", raw: strings.Replace(fzValidFile, "package sc", "package sc_test", 1)},
		{name: "package-blank", raw: strings.Replace(fzValidFile, "package sc", "package _", 1)},
		{name: "sibling-package-mismatch", raw: fzValidFile, files: map[string]string{"other.go": "package zz\n\nvar Z = 1\n"}},
		{name: "sibling-syntax-error", raw: fzValidFile, files: map[string]string{"broken.go": "package sc\n\nfunc (\n"}},
		{name: "sibling-type-error", raw: fzValidFile, files: map[string]string{"broken.go": "package sc\n\nvar X int = \"s\"\n"}},
		{name: "sibling-redeclares-converter", raw: fzValidFile, files: map[string]string{"gen.go": "package sc\n\nfunc AtoD(src *SA) (dst *DA) { return }\n"}},
		{name: "stale-output-present", raw: fzValidFile, files: map[string]string{"setup.gen.go": "package sc\n\nfunc AtoD(src *SA) (dst *DA) { return }\nfunc Stale() {}\n"}},
		{name: "stale-output-broken", raw: fzValidFile, files: map[string]string{"setup.gen.go": "package zz\n\nfunc (\n"}},
		{name: "no-sibling-types", raw: fzValidFile, noTypes: true},
		{name: "no-build-tag", raw: noTag},
		{name: "other-build-tag", raw: strings.Replace(fzValidFile, "//go:build convergen", "//go:build othertag", 1)},
		{name: "negated-build-tag", raw: strings.Replace(fzValidFile, "//go:build convergen", "//go:build !convergen", 1)},
		{name: "build-ignore", raw: strings.Replace(fzValidFile, "//go:build convergen", "//go:build ignore", 1)},
		{name: "old-build-tag", raw: strings.Replace(fzValidFile, "//go:build convergen", "// +build convergen", 1)},
		{name: "malformed-build-tag", raw: strings.Replace(fzValidFile, "//go:build convergen", "//go:build convergen &&", 1)},
		{name: "import-missing-pkg", raw: strings.Replace(fzValidFile, "package sc\n", "package sc\n\nimport \"vb/gone\"\n\nvar _ = gone.X\n", 1)},
		{name: "import-cycle", raw: strings.Replace(fzValidFile, "package sc\n", "package sc\n\nimport _ \"vb/zcycle\"\n", 1), files: map[string]string{"../zcycle/z.go": "package zcycle\n\nimport _ \"vb/zcycle\"\n"}},
		{name: "import-C", raw: strings.Replace(fzValidFile, "package sc\n", "package sc\n\nimport \"C\"\n", 1)},
		{name: "import-unused", raw: strings.Replace(fzValidFile, "package sc\n", "package sc\n\nimport \"vb/ext\"\n", 1)},
		{name: "import-dot", raw: strings.Replace(fzValidFile, "package sc\n", "package sc\n\nimport . \"vb/ext\"\n\nvar _ = Pub{}\n", 1)},
		{name: "import-bad-path", raw: strings.Replace(fzValidFile, "package sc\n", "package sc\n\nimport \"\"\n", 1)},
		{name: "import-relative", raw: strings.Replace(fzValidFile, "package sc\n", "package sc\n\nimport \"../ext\"\n", 1)},
		{name: "generate-line-as-package-doc", raw: strings.Replace(fzValidFile, "package sc\n", "//go:generate go run github.com/reedom/convergen\npackage sc\n", 1)},
		{name: "build-tag-adjacent-to-package", raw: strings.Replace(fzValidFile, "//go:build convergen\n\n", "//go:build convergen\n", 1)},
		{name: "old-build-tag-adjacent-to-package", raw: strings.Replace(fzValidFile, "//go:build convergen\n\n", "// +build convergen\n", 1)},
		{name: "generate-line-with-text-as-package-doc", raw: strings.Replace(fzValidFile, "package sc\n", "// Package sc.\n//go:generate go run github.com/reedom/convergen\npackage sc\n", 1)},
		{name: "generate-line-as-method-doc", raw: strings.Replace(fzValidFile, "\t// :typecast\n\t// :conv convIS ID Extra\n", "\t//go:generate x\n", 1)},
		{name: "generate-line-in-method-doc", raw: strings.Replace(fzValidFile, "\t// :typecast\n", "\t// :typecast\n\t//go:generate x\n", 1)},
		{name: "generate-line-as-iface-doc", raw: strings.Replace(fzValidFile, "// Convergen is the converter interface of this case.\n", "//go:generate go run github.com/reedom/convergen\n", 1)},
		{name: "generate-line-as-func-doc", raw: strings.Replace(fzValidFile, "func convIS", "//go:generate x\nfunc convIS", 1)},
		{name: "generate-line-as-first-func-doc", raw: strings.Replace(fzValidFile, "// Convergen is the", "//go:generate x\nfunc first() {}\n\n// Convergen is the", 1)},
		{name: "generate-line-as-trailing-comment", raw: strings.Replace(fzValidFile, "AtoD(*SA) *DA\n", "AtoD(*SA) *DA //go:generate x\n", 1)},
		{name: "generate-line-as-field-doc", raw: fzValidFile + "\ntype holder struct {\n\t//go:generate x\n\tF int //go:generate y\n}\n"},
		{name: "generate-line-as-import-doc", raw: strings.Replace(fzValidFile, "package sc\n", "package sc\n\nimport (\n\t//go:generate x\n\t_ \"vb/ext\" //go:generate y\n)\n", 1)},
		{name: "generate-line-on-grouped-iface", raw: strings.Replace(strings.Replace(fzValidFile, "type Convergen interface {", "//go:generate x\ntype (\n// Convergen doc.\nConvergen interface {", 1), "\n}\n\nfunc convIS", "\n}\n)\n\nfunc convIS", 1)},
		{name: "generate-line-last-in-file", raw: fzValidFile + "\n//go:generate x\n"},
		{name: "go-generate-line", raw: strings.Replace(fzValidFile, "package sc\n", "package sc\n\n//go:generate go run github.com/reedom/convergen\n", 1)},
		{name: "import-c", raw: strings.Replace(fzValidFile, "package sc\n", "package sc\n\nimport \"C\"\n", 1)},
		{name: "import-c-with-preamble", raw: strings.Replace(fzValidFile, "package sc\n", "package sc\n\n/*\n#include <stdio.h>\n*/\nimport \"C\"\n", 1)},
		{name: "cgo-like-comment", raw: strings.Replace(fzValidFile, "package sc\n", "package sc\n\n/*\n#include <stdio.h>\n*/\n", 1)},
		{name: "type-errors-elsewhere", raw: fzValidFile + "\nfunc broken() int { return \"s\" + 1 }\nvar u Undefined\n"},
		{name: "redeclared-operand-type", raw: fzValidFile + "\ntype SA struct{ Q int }\n"},
		{name: "init-cycle", raw: fzValidFile + "\nvar a = b\nvar b = a\n"},
		{name: "line-directive-before-iface", raw: strings.Replace(fzValidFile, "// Convergen is", "//line other.go:100\n// Convergen is", 1)},
		{name: "line-directive-in-iface", raw: strings.Replace(fzValidFile, "\t// :typecast", "//line /nonexistent/x.go:1\n\t// :typecast\n\t// :skip", 1)},
		{name: "line-directive-first", raw: "//line gen.go:1\n" + fzValidFile},
		{name: "nonexistent-path", raw: fzValidFile, argv: "nope.go"},
		{name: "nonexistent-dir", raw: fzValidFile, argv: "nodir/setup.go"},
		{name: "dir-as-input", raw: fzValidFile, argv: "."},
		{name: "parent-dir-as-input", raw: fzValidFile, argv: ".."},
		{name: "sibling-as-input", raw: fzValidFile, argv: "types.go"},
		{name: "gomod-as-input", raw: fzValidFile, argv: "../go.mod"},
		{name: "non-go-file-as-input", raw: fzValidFile, argv: "notes.txt", files: map[string]string{"notes.txt": "type Convergen interface{}\n"}},
		{name: "go-content-odd-extension", raw: fzValidFile, argv: "setup.txt", files: map[string]string{"setup.txt": fzValidFile}},
		{name: "test-file-as-input", raw: fzValidFile, argv: "x_test.go", files: map[string]string{"x_test.go": strings.Replace(fzValidFile, "Convergen interface", "Convergen2 interface", 1)}},
		{name: "empty-arg", raw: fzValidFile, argv: ""},
		{name: "dot-slash-path", raw: fzValidFile, argv: "./setup.go"},
		{name: "double-slash-path", raw: fzValidFile, argv: ".//setup.go"},
		{name: "absolute-path", raw: fzValidFile, argv: "ABS/setup.go"},
		{name: "via-parent-path", raw: fzValidFile, argv: "../PKG/setup.go"},
		{name: "trailing-slash-path", raw: fzValidFile, argv: "setup.go/"},
		{name: "absolute-dev-null", raw: fzValidFile, argv: "/dev/null"},
		{name: "outside-module", raw: fzValidFile, nomodule: true},
		{name: "outside-module-no-types", raw: fzValidFile, nomodule: true, noTypes: true},
		{name: "nested-module", raw: fzValidFile, files: map[string]string{"go.mod": "module nested\n\ngo 1.19\n"}},
		{name: "broken-gomod-nested", raw: fzValidFile, files: map[string]string{"go.mod": "this is not a go.mod\n"}},
		{name: "vendor-dir", raw: fzValidFile, files: map[string]string{"vendor/x/x.go": "package x\n"}},
		{name: "underscore-dir-sibling", raw: fzValidFile, files: map[string]string{"_skip/s.go": "package broken (\n"}},
	}
}

func init() {
	// 60 levels of by-value nesting with different leaf types
	nest := func(leaf string) string {
		t := "struct{ V " + leaf + " }"
		for i := 0; i < 60; i++ {
			t = "struct{ N " + t + " }"
		}
		return t
	}
	fzRecursive = append(fzRecursive, struct{ name, decls, sig string }{"nested-by-value-60",
		"type RS " + nest("int") + "\ntype RD " + nest("int64"), "(*RS) *RD"})
}

// fzLevelC builds n signature / operand / structure cases.
func fzLevelC(r *rand.Rand, n int) []*fzCase {
	var core []*fzCase
	// C1 signature shapes (complete)
	for _, sh := range fzSigShapes {
		for _, doc := range [][]string{nil, {"// :style arg"}, {"// :recv r"}} {
			c := &fzCase{group: "c/sig", positioned: true, tsig: inj(sh.sig)}
			c.class = "c/sig/" + sh.name
			if doc != nil {
				c.tdoc = doc
				c.class += "/" + strings.TrimPrefix(strings.Fields(doc[0])[1], ":")
			}
			core = append(core, c)
		}
	}
	// C5 interface shapes (complete)
	for _, sh := range fzIfaceShapes() {
		c := &fzCase{group: "c/iface", class: "c/iface/" + sh.name, ifaceText: inj(sh.text), decls: sh.decls, typesExtra: sh.types, imports: sh.imports}
		core = append(core, c)
	}
	// C6 file shapes (complete)
	for _, sh := range fzFileShapes() {
		raw := sh.raw
		c := &fzCase{group: "c/file", class: "c/file/" + sh.name, raw: &raw, files: sh.files, noTypes: sh.noTypes}
		if sh.argv != "" || sh.name == "empty-arg" {
			c.feat("argv", sh.argv)
			c.feat("argv_set", "1")
		}
		if sh.nomodule {
			c.feat("nomodule", "1")
		}
		core = append(core, c)
	}
	// C4 recursive types x toggles (complete)
	for _, rc := range fzRecursive {
		for tg := range fzToggles {
			c := &fzCase{group: "c/recursive", class: "c/recursive/" + rc.name + "/" + fzToggles[tg].name}
			c.decls = []string{inj(rc.decls)}
			c.imports = fzImportsFor(rc.decls, rc.sig)
			c.tsig = rc.sig
			c.tdoc = fzToggles[tg].doc
			core = append(core, c)
		}
	}
	r.Shuffle(len(core), func(i, j int) { core[i], core[j] = core[j], core[i] })
	nCore := n * 45 / 100
	if nCore > len(core) {
		nCore = len(core)
	}
	out := append([]*fzCase{}, core[:nCore]...)
	rest := n - len(out)
	nOper := rest * 30 / 100
	nTrunc := rest * 15 / 100
	// C2 operand kinds: src x dst (sampled, stratified on the source kind)
	off := r.Intn(1 << 16)
	for i := 0; i < nOper; i++ {
		sk := fzOperandKinds[(off+i)%len(fzOperandKinds)]
		dk := fzOperandKinds[r.Intn(len(fzOperandKinds))]
		if i%3 == 0 {
			dk = fzOperandKinds[2+r.Intn(2)] // a valid destination
		} else if i%3 == 1 {
			sk, dk = fzOperandKinds[r.Intn(2)], sk // a valid source, every destination kind
		}
		c := &fzCase{group: "c/operand", positioned: true}
		c.class = fmt.Sprintf("c/operand/src=%s,dst=%s", sk.name, dk.name)
		c.decls = []string{fzOperandDecls}
		c.imports = fzImportsFor(sk.typ, dk.typ)
		sig := "(" + sk.typ + ") " + dk.typ
		switch r.Intn(6) {
		case 0:
			sig = "(" + sk.typ + ") (" + dk.typ + ", error)"
			c.class += "/err"
		case 1:
			c.tdoc = []string{"// :style arg"}
			c.class += "/arg"
		case 2:
			c.tdoc = []string{"// :typecast", "// :stringer", "// :getter"}
			c.class += "/toggles"
		}
		c.tsig = inj(sig)
		// a valid pair is not a fault
		if (sk.name == "struct-ptr" || sk.name == "struct-val") && (dk.name == "dst-ptr" || dk.name == "dst-val") {
			c.control = true
		}
		out = append(out, c)
	}
	// C6b random truncations and garbage insertions of a valid file
	for i := 0; i < nTrunc; i++ {
		c := &fzCase{group: "c/file"}
		var raw string
		switch i % 3 {
		case 0:
			at := r.Intn(len(fzValidFile))
			raw = fzValidFile[:at]
			c.class = "c/file/truncated-" + fzRegion(at)
		case 1:
			at := r.Intn(len(fzValidFile))
			g := pickS(r, []string{"(", ")", "{", "}", "\"", "`", "/*", "*/", "'", "@", "\x00", ";", "func", "type", "interface {", "// :convergen\n", "\n}\n", "[", "...", "package x\n"})
			raw = fzValidFile[:at] + g + fzValidFile[at:]
			c.class = "c/file/garbage-" + fzRegion(at)
		default:
			a := r.Intn(len(fzValidFile))
			b := a + r.Intn(40)
			if b > len(fzValidFile) {
				b = len(fzValidFile)
			}
			raw = fzValidFile[:a] + fzValidFile[b:]
			c.class = "c/file/deleted-" + fzRegion(a)
		}
		c.raw = &raw
		out = append(out, c)
	}
	// C3 field kinds: src kind x dst kind x mode x toggles (sampled, stratified on the destination kind)
	modes := []string{"pair", "pair", "pair", "dst-only", "getter", "mapped", "embedded"}
	off = r.Intn(1 << 16)
	for i := 0; len(out) < n; i++ {
		dk := fzFieldKinds[(off+i)%len(fzFieldKinds)]
		sk := fzFieldKinds[r.Intn(len(fzFieldKinds))]
		switch r.Intn(4) {
		case 0:
			sk = dk
		case 1:
			// a source kind of the same family (error-like, struct-like, ...) as the destination
			if fam := fzFamily(dk.name); len(fam) > 0 {
				sk = fam[r.Intn(len(fam))]
			}
		}
		out = append(out, fzFieldCase(sk, dk, modes[r.Intn(len(modes))], r.Intn(len(fzToggles))))
	}
	return out
}

// fzFamily returns the field kinds related to the given one (sharing a family keyword).
func fzFamily(name string) []fzFieldKind {
	var key string
	for _, k := range []string{"error", "iface", "struct", "func", "chan", "map", "generic", "stringer", "slice", "ptr"} {
		if strings.Contains(name, k) {
			key = k
			break
		}
	}
	if key == "" {
		return nil
	}
	if key == "error" || key == "iface" {
		var out []fzFieldKind
		for _, k := range fzFieldKinds {
			if strings.Contains(k.name, "error") || strings.Contains(k.name, "iface") {
				out = append(out, k)
			}
		}
		return out
	}
	var out []fzFieldKind
	for _, k := range fzFieldKinds {
		if strings.Contains(k.name, key) {
			out = append(out, k)
		}
	}
	return out
}

// fzRegion names the part of fzValidFile an offset falls into.
func fzRegion(at int) string {
	switch {
	case at < strings.Index(fzValidFile, "package"):
		return "build-tag"
	case at < strings.Index(fzValidFile, "// Convergen"):
		return "package-clause"
	case at < strings.Index(fzValidFile, "type Convergen"):
		return "iface-doc"
	case at < strings.Index(fzValidFile, "\n}\n"):
		return "iface-body"
	default:
		return "tail"
	}
}
