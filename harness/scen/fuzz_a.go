package scen

import (
	"fmt"
	"math/rand"
	"strings"
	"unicode/utf8"
)

// ---- level (a): notation text ------------------------------------------------------------

// fzTok is one argument token with its category (the category, not the text, goes into the class).
type fzTok struct{ cat, s string }

func fzTokens() []fzTok {
	var t []fzTok
	add := func(cat string, ss ...string) {
		for _, s := range ss {
			t = append(t, fzTok{cat, s})
		}
	}
	add("ident", "Name", "ID", "Extra", "Title", "Tags", "In", "Ptr")
	add("ident-odd", "Nope", "name", "hid", "iD", "_", "x1")
	add("path", "In.X", "In.Y", "Ext.A", "In.Q", "In.X.Y.Z", "Ext.A.B", "Name.X", "Tags.Len")
	add("dollar", "$", "$0", "$1", "$2", "$3", "$x", "$99", "$1..a", "$-1", "$1.", "$1.ID", "$2.X", "$1.In.X",
		"$9223372036854775808", "$+1", "$1e3", "$$", "$1$2", "$1()", "$2()", "$ 1", "$1.GetName()", "$1.Inner().X", "$2.", "$2..X", "$.X", "$0.ID")
	add("dotted-empty", "A..B", ".A", "A.", ".", "..", "In..X", ".In.X", "In.X.", "...", "In.", ".In")
	add("paren", "A()", "A().", "().A", "A()()", "()", "(", ")", "GetName()", "GetName()()", "Inner().X", "Inner()..X", "Inner().",
		"Risky()", "Title()", "GetName(", "GetName)", "Get()Name", "In().X", "ID()", "GetName().Len()", "Inner().X()", "Inner()()", "().", "(.)", "In.X()", "Inner().Q", "Risky().X",
		// methods whose result list is not that of a getter
		"Reset()", "Reset().X", "Pair()", "Pair().X", "Triple()", "ErrOnly()", "ErrOnly().X", "WithArg()", "Variadic()", "FuncResult()", "FuncResult()()", "$1.Reset()", "$1.Pair()", "$1.ErrOnly()")
	add("slash", "/", "//", "/a", "a/", "/a/b/", `/\/`, "///")
	add("regexp-bad", "/(/", "/[/", "/)/", "/a{2,1}/", `/\C/`, `/\8/`, "/a**/", "/(?i/", `/\pX/`, `/[a-\d]/`, `/\x{110000}/`, "/a{1001}/",
		"/((a{100}){100}){100}/", "/(?P<n>a/", "/[[:foo:]]/", `/\`+`/`, "/?/", "/*/", "/+/", "/(?z)/", "/x{/"+"}/", `/\p{Foo}/`)
	add("regexp-exotic", `/\pL/`, `/\Q/`, "/(?U)a/", "/(?P<n>a)/", "/^.*$/", "/[[:alpha:]]+/", "/(?s).*/", `/\bName\b/`, "/(?i)NAME/", "/Name|ID/", `/\z/`, `/\A/`,
		"/.{0,1000}/", "/(a*)*b/", `/\S+/`, `/[^\x00-\x7F]/`, `/\p{Greek}/`, `/\PL/`, `/\Q.\E/`, `/\x4Eame/`, "/(?i)É/", "//", "/(?-i)name/", "/$^/", "/()/", "/|/", "/(?:)/", "/[É-ſ]/")
	add("unicode", "名前", "É", "ſ", "İd", "ß", "\u200b", "Na\u0301me", "\U0001d4b3", "\uff2eame", "Name\u200d", "\ufeffName", "\u0646\u0627\u0645")
	add("huge", strings.Repeat("A", 10240), strings.Repeat("A.", 5120)+"A", "$1"+strings.Repeat(".In", 3000),
		"/"+strings.Repeat("(", 2000)+"a"+strings.Repeat(")", 2000)+"/", strings.Repeat("()", 5000), "/"+strings.Repeat("a", 10240)+"/",
		"/("+strings.Repeat("a|", 5000)+"b)/", strings.Repeat(".", 10000), "$"+strings.Repeat("9", 10000), strings.Repeat("In.", 3000)+"X",
		"Inner()"+strings.Repeat(".Inner()", 1000), "/"+strings.Repeat("[", 3000)+"/", "/"+strings.Repeat("a?", 1500)+strings.Repeat("a", 1500)+"/")
	add("syntax", `"a b"`, "`x`", "'c'", "}{", "*", "&x", "x;y", "a,b", "-1", "0", `\`, "%s", "%!v(PANIC)", "{{.}}", "*/", "/*", "<-", "...", "[]int", "map[", "x\\ny", "#", "@", "a=b")
	add("keyword", "func", "type", "nil", "true", "int", "error", "return", "interface", "dst", "src", "err", "AtoD", "SA", "string", "len")
	add("func", "convIS", "convSE", "preAD", "preADE", "preADX", "postBD", "ext.ConvIntStr", "ext.convHidden", "nope.F", "a.b.c", "SA.GetName", "LInt", "BtoD", "CtoD", "AtoD")
	add("enum", "arg", "return", "name", "none", "Arg", "RETURN", "args", "tag", "")
	return t
}

type fzNote struct {
	name string
	good []string // a valid argument list for the target SA -> DA
	lvl  string   // "m" method only, "i" interface only, "b" both, "u" unimplemented, "x" unknown
}

var fzNotes = []fzNote{
	{"match", []string{"name"}, "b"}, {"style", []string{"arg"}, "b"}, {"recv", []string{"s"}, "m"}, {"reverse", nil, "m"},
	{"case", nil, "b"}, {"case:off", nil, "b"}, {"getter", nil, "b"}, {"getter:off", nil, "b"}, {"stringer", nil, "b"}, {"stringer:off", nil, "b"},
	{"typecast", nil, "b"}, {"typecast:off", nil, "b"}, {"skip", []string{"Extra"}, "m"}, {"map", []string{"Name", "Extra"}, "m"},
	{"conv", []string{"convIS", "ID", "Extra"}, "m"}, {"literal", []string{"Extra", `"x"`}, "m"}, {"preprocess", []string{"preAD"}, "m"},
	{"postprocess", []string{"preAD"}, "m"}, {"convergen", nil, "i"},
	{"tag", []string{"json"}, "u"}, {"conv:type", []string{"convIS", "int"}, "u"}, {"conv:with", []string{"convIS", "ID"}, "u"},
}

var fzUnknownNames = []string{"foo", "Skip", "SKIP", "skip:off", "conv:", ":", "", "convergen:x", "スキップ", "skip,", "map:map", "case:on", "getter:OFF",
	"style=arg", "recv:", "skip/", "literal:", "match:none", "pre", "post-process", "reverse:off", " skip", "skip X"}

var fzSeps = []fzTok{{"sp", " "}, {"sp2", "   "}, {"tab", "\t"}, {"mixed", " \t "}, {"nbsp", "\u00a0"}, {"vt", "\v"}, {"ff", "\f"},
	{"ideo", "\u3000"}, {"ls", "\u2028"}, {"nel", "\u0085"}, {"cr", "\r"}, {"zwsp", "\u200b"}}

var fzPrefixes = []fzTok{{"std", "// :"}, {"tight", "//:"}, {"wide", "//   :"}, {"tabbed", "//\t:"}, {"indent", "  // :"}}

// fzWeighted lists indices into fzNotes, arg-taking notations four times.
var fzWeighted = func() []int {
	var w []int
	for i, n := range fzNotes {
		k := 1
		if len(n.good) > 0 || n.name == "reverse" {
			k = 4
		}
		for j := 0; j < k; j++ {
			w = append(w, i)
		}
	}
	return w
}()

// fzNoteLine renders a notation line; sep1 separates the name from the first argument.
func fzNoteLine(prefix, name string, args []string, sep1, sep string) string {
	s := prefix + name
	for i, a := range args {
		if i == 0 {
			s += sep1 + a
		} else {
			s += sep + a
		}
	}
	return s
}

// fzPositionedNote decides whether a rejection of this notation must be positioned on its line.
// Not positioned: text that is not valid Go source (illegal bytes), and ":literal" values, which
// are documented as copied verbatim into the output (a broken value fails later, in gofmt).
func fzPositionedNote(name string, args []string) bool {
	if name == "literal" && len(args) >= 2 {
		return false
	}
	for _, a := range args {
		if strings.Contains(a, "\x00") || strings.Contains(a, "\ufeff") || !utf8.ValidString(a) {
			return false
		}
	}
	return true
}

func fzCatsByName(toks []fzTok) (map[string][]fzTok, []string) {
	m := map[string][]fzTok{}
	var order []string
	for _, t := range toks {
		if _, ok := m[t.cat]; !ok {
			order = append(order, t.cat)
		}
		m[t.cat] = append(m[t.cat], t)
	}
	return m, order
}

// fzRandomNote draws one fuzzed notation: returns line, class suffix, name, positioned.
func fzRandomNote(r *rand.Rand, i int, toks map[string][]fzTok, cats []string) (line, cls, name string, positioned bool) {
	// arg-taking notations are drawn four times as often as the argument-less toggles
	nSlots := len(fzWeighted) + 4
	var note fzNote
	k := i % nSlots
	if k < len(fzWeighted) {
		note = fzNotes[fzWeighted[k]]
	} else {
		note = fzNote{name: pickS(r, fzUnknownNames), lvl: "x"}
	}
	focus := cats[(i/nSlots)%len(cats)]
	// arity around the notation's own arity
	n := r.Intn(5)
	if r.Intn(2) == 0 {
		n = len(note.good) + r.Intn(3) - 1
		if n < 0 {
			n = 0
		}
	}
	fpos := -1
	if n > 0 {
		fpos = r.Intn(n)
	}
	var args, acats []string
	for p := 0; p < n; p++ {
		switch {
		case p == fpos:
			t := toks[focus][r.Intn(len(toks[focus]))]
			args, acats = append(args, t.s), append(acats, t.cat)
		case p < len(note.good) && r.Intn(10) < 7:
			args, acats = append(args, note.good[p]), append(acats, "ok")
		default:
			c := cats[r.Intn(len(cats))]
			t := toks[c][r.Intn(len(toks[c]))]
			args, acats = append(args, t.s), append(acats, t.cat)
		}
	}
	sep := fzSeps[0]
	if r.Intn(5) == 0 {
		sep = fzSeps[r.Intn(len(fzSeps))]
	}
	pre := fzPrefixes[0]
	if r.Intn(10) == 0 {
		pre = fzPrefixes[r.Intn(len(fzPrefixes))]
	}
	sep1 := sep.s
	if r.Intn(4) != 0 {
		sep1 = pickS(r, []string{" ", " ", "\t", "  "})
	}
	line = fzNoteLine(pre.s, note.name, args, sep1, sep.s)
	if r.Intn(12) == 0 {
		line += pickS(r, []string{" ", "\t", "   // trailing", "  "})
	}
	nm := note.name
	if note.lvl == "x" {
		nm = "unknown"
	}
	cls = fmt.Sprintf("%s/%d:%s", nm, n, strings.Join(acats, "+"))
	if sep.cat != "sp" && n > 0 {
		cls += "/sep=" + sep.cat
	}
	if pre.cat != "std" {
		cls += "/pre=" + pre.cat
	}
	pos := fzPositionedNote(note.name, args)
	if note.name == "literal" && strings.Contains(line, "// trailing") {
		// the trailing text becomes (part of) the literal value, which is copied verbatim: a broken value
		// fails only when the generated code is formatted
		pos = false
	}
	return line, cls, nm, pos
}

// fzLevelA builds n notation-text cases.
func fzLevelA(r *rand.Rand, n int) []*fzCase {
	toks, cats := fzCatsByName(fzTokens())
	fixed := fzContradictions()
	fixed = append(fixed, fzWrongLevel()...)
	fixed = append(fixed, fzBlockComments()...)
	fixed = append(fixed, fzSpacing()...)
	// the fixed lists take at most 30 % of the budget (shuffled, so that every seed sees another part)
	r.Shuffle(len(fixed), func(i, j int) { fixed[i], fixed[j] = fixed[j], fixed[i] })
	nFixed := n * 30 / 100
	if nFixed > len(fixed) {
		nFixed = len(fixed)
	}
	out := append([]*fzCase{}, fixed[:nFixed]...)
	// more rounds of the fixed lists in other contexts when the budget is large
	for len(out) < n*30/100 {
		c := *fixed[r.Intn(len(fixed))]
		if c.tsig == "" && c.ifaceText == "" {
			c.tsig = pickS(r, fzTargetSigs[:3])
			c.class += "/ctx"
		}
		out = append(out, &c)
	}
	off := r.Intn(1 << 20)
	for i := 0; len(out) < n; i++ {
		c := &fzCase{}
		line, cls, name, pos := fzRandomNote(r, off+i, toks, cats)
		place := r.Intn(10)
		two := r.Intn(8) == 0
		c.tsig = fzTargetSigs[r.Intn(len(fzTargetSigs))]
		c.tname = pickS(r, []string{"AtoD", "AtoD", "MtoD", "ZtoD"})
		ctx := fzValidDocs[r.Intn(4)]
		switch {
		case two:
			line2, _, name2, pos2 := fzRandomNote(r, r.Intn(1<<20), toks, cats)
			c.tdoc = append(append([]string{}, ctx...), inj(line))
			if r.Intn(2) == 0 {
				c.tdoc = append(c.tdoc, inj(line2))
			} else {
				c.idoc = []string{inj(line2)}
			}
			c.class = "a2/" + name + "&" + name2
			c.group = "a2/" + name
			c.positioned = pos && pos2
			c.feat("notation", name)
		case place == 0:
			c.idoc = []string{inj(line)}
			c.class = "a/" + cls + "/iface"
			c.group = "a/" + name
			c.positioned = pos
			c.feat("notation", name)
		default:
			doc := append([]string{}, ctx...)
			at := r.Intn(len(doc) + 1)
			doc = append(doc[:at], append([]string{inj(line)}, doc[at:]...)...)
			c.tdoc = doc
			c.class = "a/" + cls
			c.group = "a/" + name
			c.positioned = pos
			c.feat("notation", name)
		}
		// ":reverse" conflicts with additional arguments; the tool may then blame the method itself
		if strings.Contains(c.class, "reverse") && strings.Contains(c.tsig, ", int") {
			c.tsig = inj(c.tsig)
		}
		out = append(out, c)
	}
	return out
}

// fzContradictions is the explicit list of duplicated / contradictory / self-referential notations.
func fzContradictions() []*fzCase {
	var out []*fzCase
	add := func(cls string, positioned bool, tsig string, doc ...string) *fzCase {
		c := &fzCase{class: "a/combo/" + cls, group: "a/combo", positioned: positioned, tsig: tsig}
		for _, d := range doc {
			c.tdoc = append(c.tdoc, inj(d))
		}
		if tsig != "" {
			c.tsig = inj(tsig)
		}
		out = append(out, c)
		return c
	}
	add("style-arg+style-return", true, "", "// :style arg", "// :style return")
	add("style-return+style-arg", true, "", "// :style return", "// :style arg")
	add("reverse-alone", true, "", "// :reverse")
	add("style-arg+reverse+style-return", true, "", "// :style arg", "// :reverse", "// :style return")
	add("style-return+reverse+style-arg", true, "", "// :style return", "// :reverse", "// :style arg")
	add("reverse+style-arg", true, "", "// :reverse", "// :style arg")
	add("reverse-twice", true, "", "// :style arg", "// :reverse", "// :reverse")
	add("recv-twice", true, "", "// :recv a", "// :recv b")
	add("recv-same-twice", true, "", "// :recv a", "// :recv a")
	for _, id := range []string{"1x", "a-b", "a.b", "*s", "_", "func", "type", "名", "s,t", "s)", "(s", "nil", "int", "dst", "src", "err", "AtoD", "SA", "s t", "ｓ", "x́", "range", "_x", "s1", "É"} {
		cls := "recv-nonident"
		switch id {
		case "func", "type", "range":
			cls = "recv-keyword"
		case "名", "nil", "int", "dst", "src", "err", "AtoD", "SA", "s1", "É", "ｓ":
			cls = "recv-odd-ident"
		}
		add(cls, true, "", "// :recv "+id)
		add(cls+"-named-results", true, "(src *SA) (dst *DA, err error)", "// :recv "+id)
	}
	add("recv-two-args", true, "", "// :recv s t")
	add("reverse+extras", true, "(*SA, int) *DA", "// :style arg", "// :reverse")
	add("reverse+extras+err", true, "(*SA, int, string) (*DA, error)", "// :style arg", "// :reverse")
	add("recv-imported-src", true, "(*ext.Pub) *DA", "// :recv p").imports = []string{`"vb/ext"`}
	add("recv-imported-src-byvalue", true, "(ext.Pub) DA", "// :recv p").imports = []string{`"vb/ext"`}
	add("recv-basic-src", true, "(int) *DA", "// :recv p")
	add("recv-slice-src", true, "([]SA) *DA", "// :recv p")
	add("recv-ptrptr-src", true, "(**SA) *DA", "// :recv p")
	add("reverse+recv", true, "", "// :style arg", "// :recv s", "// :reverse")
	add("reverse+recv-byvalue", true, "(SA) DA", "// :style arg", "// :recv s", "// :reverse")
	add("reverse-byvalue", true, "(SA) DA", "// :style arg", "// :reverse")
	add("reverse+err", true, "(*SA) (*DA, error)", "// :style arg", "// :reverse")
	add("reverse+hooks", true, "", "// :style arg", "// :reverse", "// :preprocess preAD", "// :postprocess preADE")
	add("reverse+hooks+err", true, "(*SA) (*DA, error)", "// :style arg", "// :reverse", "// :preprocess preADE")
	add("reverse+conv", true, "", "// :style arg", "// :reverse", "// :conv convIS ID Extra")
	add("reverse+map-dollar", true, "", "// :style arg", "// :reverse", "// :map $1 Extra", "// :map $2 Name")
	add("style-arg-byvalue-dst", true, "(SA) DA", "// :style arg")
	add("style-arg+hooks-byvalue", true, "(SA) DA", "// :style arg", "// :preprocess preAD")
	add("preprocess-twice", true, "", "// :preprocess preAD", "// :preprocess preADE")
	add("postprocess-twice", true, "(*SA) (*DA, error)", "// :postprocess preAD", "// :postprocess preADE")
	add("pre+post-same", true, "", "// :preprocess preAD", "// :postprocess preAD")
	add("hook-err-in-method-without-err", true, "", "// :preprocess preADE")
	add("hook-extras-mismatch", true, "", "// :preprocess preADX")
	add("hook-extras-match", true, "(*SA, int) *DA", "// :preprocess preADX")
	add("hook-extras-wrong-type", true, "(*SA, string) *DA", "// :preprocess preADX")
	add("hook-extras-too-many", true, "(*SA, int, int) *DA", "// :preprocess preADX")
	add("hook-of-other-pair", true, "", "// :postprocess postBD")
	add("conv-same-dst-twice", true, "", "// :conv convIS ID Extra", "// :conv convIS ID Extra")
	add("conv-two-funcs-same-dst", true, "(*SA) (*DA, error)", "// :conv convIS ID Extra", "// :conv convSE Name Extra")
	add("skip+map-same-dst", true, "", "// :skip Extra", "// :map Name Extra")
	add("map+literal-same-dst", false, "", "// :map Name Extra", `// :literal Extra "x"`)
	add("conv+skip-same-dst", true, "", "// :conv convIS ID Extra", "// :skip Extra")
	add("map-twice-same-dst", true, "", "// :map Name Extra", "// :map Title() Extra")
	add("match-none+getter", true, "", "// :match none", "// :getter")
	add("match-none+map", true, "", "// :match none", "// :map Name Extra")
	add("match-twice", true, "", "// :match none", "// :match name")
	add("caseoff+skip-regexp", true, "", "// :case:off", `// :skip /\pL/`)
	add("skip-regexp+caseoff", true, "", `// :skip /\pL/`, "// :case:off")
	add("skip-regexp+caseoff+case", true, "", `// :skip /\PL+/`, "// :case:off", "// :skip /^[A-Z]/", "// :case")
	add("skip-everything", true, "", "// :skip /.*/")
	add("skip-nested", true, "", "// :skip In.X", "// :skip /^In\\./")
	add("typecast+stringer+getter", true, "", "// :typecast", "// :stringer", "// :getter", "// :case:off")
	add("toggle-on-off-on", true, "", "// :typecast", "// :typecast:off", "// :typecast", "// :getter:off", "// :getter")
	add("convergen-on-method", true, "", "// :convergen")
	add("conv-self", true, "", "// :conv AtoD In In")
	add("conv-self-fitting", true, "(*InA) *InB", "// :conv AtoD X X")
	add("conv-recv-method", true, "", "// :conv CtoD In In")
	add("conv-arg-style-method", true, "", "// :conv BtoD In In")
	add("conv-unknown", true, "", "// :conv NoSuchFunc In In")
	add("map-getter-error-no-err", true, "", "// :map Risky() Extra")
	add("map-getter-error-with-err", true, "(*SA) (*DA, error)", "// :map Risky() Extra")
	add("map-getter-chain", true, "", "// :map Inner().X ID", "// :map Inner().Y Extra")
	add("map-ptr-recv-getter-byvalue", true, "(SA) DA", "// :map Title() Extra")
	add("map-dollar-no-extras", true, "", "// :map $2 Extra")
	add("map-dollar-src", true, "", "// :map $1 Extra", "// :map $1.Name Title")
	add("map-dollar-extras", true, "(*SA, string, InA) *DA", "// :map $2 Extra", "// :map $3.Y Title", "// :map $3 In", "// :map $4 Name")
	add("map-dollar-ptr-extra", true, "(*SA, *InA, *string) *DA", "// :map $2.Y Title", "// :map $3 Extra", "// :map $2..Y Name")
	add("conv-dollar", true, "(*SA, int) *DA", "// :conv convIS $2 Extra")
	add("literal-dollar", false, "(*SA, int) *DA", "// :literal Extra $2", "// :literal $2 1")
	add("literal-nested", false, "", "// :literal In.X 1", "// :literal In InB{}", "// :literal Ptr nil")
	add("literal-unknown-dst", true, "", "// :literal Nope 1")
	// a generated method as converter
	c := add("conv-generated-method", true, "", "// :conv InToIn In In")
	c.extraMeth = []string{inj("InToIn(InA) InB")}
	c = add("conv-generated-method-err-no-err", true, "", "// :conv InToIn In In")
	c.extraMeth = []string{inj("InToIn(InA) (InB, error)")}
	c = add("conv-generated-method-err", true, "(*SA) (*DA, error)", "// :conv InToIn In In")
	c.extraMeth = []string{inj("InToIn(InA) (InB, error)")}
	c = add("conv-generated-method-extras", true, "", "// :conv InToIn In In")
	c.extraMeth = []string{inj("InToIn(InA, int) InB")}
	c = add("conv-generated-method-recv", true, "", "// :conv InToIn In In")
	c.extraMeth = []string{inj("// :recv r\nInToIn(InA) InB")}
	c = add("conv-generated-method-arg-style", true, "", "// :conv InToIn In In")
	c.extraMeth = []string{inj("// :style arg\nInToIn(InA) InB")}
	c = add("conv-generated-method-ptr", true, "", "// :conv InToIn In In")
	c.extraMeth = []string{inj("InToIn(*InA) *InB")}
	c = add("conv-generated-method-nonstruct", true, "", "// :conv IntToStr ID Extra")
	c.extraMeth = []string{inj("IntToStr(int) string")}
	c = add("conv-generated-method-mutual", true, "", "// :conv InToIn In In")
	c.extraMeth = []string{inj("// :conv AtoD X X\nInToIn(InA) InB")}
	c = add("conv-generated-method-zero-params", true, "", "// :conv Zero In In")
	c.extraMeth = []string{inj("Zero() InB")}
	// many notations
	var many []string
	for i := 0; i < 300; i++ {
		many = append(many, fmt.Sprintf("// :skip F%d", i))
	}
	add("300-skips", true, "", strings.Join(many, "\n"))
	many = nil
	for i := 0; i < 300; i++ {
		many = append(many, fmt.Sprintf("// :map Name.F%d Extra", i))
	}
	add("300-maps", true, "", strings.Join(many, "\n"))
	// interface-level + method-level combinations
	c = add("iface-style-arg+reverse", true, "", "// :reverse")
	c.idoc = []string{inj("// :style arg")}
	c = add("iface-style-arg+style-return+reverse", true, "", "// :style return", "// :reverse")
	c.idoc = []string{inj("// :style arg")}
	c = add("iface-match-none+getter", true, "", "// :getter")
	c.idoc = []string{inj("// :match none")}
	c = add("iface-all-toggles", true, "", "// :typecast:off")
	c.idoc = []string{inj("// :typecast"), inj("// :stringer"), inj("// :getter"), inj("// :case:off"), inj("// :match name"), inj("// :style return")}
	// doc interleaving
	c = &fzCase{class: "a/combo/interleaved-doc", group: "a/combo", positioned: true}
	c.tdoc = []string{"// AtoD copies.", inj("// :typecast"), "//", "// more text", inj("// :skip"), "// :getter"}
	out = append(out, c)
	c = &fzCase{class: "a/combo/detached-doc", group: "a/combo", positioned: true}
	c.tdoc = []string{inj("// :skip"), "", "// AtoD copies."}
	out = append(out, c)
	return out
}

// fzWrongLevel: method-only notations on the interface, interface-only ones on methods.
func fzWrongLevel() []*fzCase {
	var out []*fzCase
	for _, nt := range fzNotes {
		if nt.lvl != "m" && nt.lvl != "u" {
			continue
		}
		for _, v := range [][]string{nt.good, nil, {"Nope", "Nope", "Nope"}} {
			c := &fzCase{class: fmt.Sprintf("a/wrong-level/iface-%s-%dargs", nt.name, len(v)), group: "a/wrong-level", positioned: true}
			c.idoc = []string{inj(fzNoteLine("// :", nt.name, v, " ", " "))}
			c.feat("notation", nt.name)
			out = append(out, c)
		}
	}
	for _, l := range []string{"// :convergen", "// :convergen x", "// :convergen:off"} {
		c := &fzCase{class: "a/wrong-level/method-convergen", group: "a/wrong-level", positioned: true}
		c.tdoc = []string{inj(l)}
		out = append(out, c)
	}
	return out
}

// fzBlockComments: notation text inside /* */ comments (not notations by the README; must do no harm).
func fzBlockComments() []*fzCase {
	var out []*fzCase
	forms := map[string]string{
		"inline":        "/* :skip */",
		"inline-args":   "/* :skip Extra */",
		"multi":         "/*\n:literal Extra x\n*/",
		"multi-slashes": "/*\n// :literal Extra x\n// :skip\n*/",
		"after-line":    "// text\n/* // :recv 1x */",
		"star-prefixed": "/*\n * :map\n * // :conv\n */",
		"slash-inside":  "/* // :reverse */",
		"line-then-blk": "// :typecast\n/* :style bogus */",
		"unterminated":  "/* :skip Extra",
		"nested-close":  "/* :skip */ */",
	}
	for name, f := range forms {
		c := &fzCase{class: "a/block/" + name, group: "a/block", positioned: false}
		c.tdoc = []string{inj(f)}
		out = append(out, c)
		c2 := &fzCase{class: "a/block/iface-" + name, group: "a/block", positioned: false}
		c2.idoc = []string{inj(f)}
		out = append(out, c2)
	}
	return out
}

// fzSpacing: odd spacing around valid and invalid notations.
func fzSpacing() []*fzCase {
	var out []*fzCase
	lines := map[string]string{
		"tight":           "//:skip Extra",
		"tight-noarg":     "//:skip",
		"wide":            "//  :skip   Extra",
		"tabs":            "//\t:skip\tExtra",
		"trailing-sp":     "// :skip Extra   ",
		"trailing-tab":    "// :skip\t",
		"space-after-col": "// : skip Extra",
		"colon-only":      "// :",
		"double-colon":    "// ::skip Extra",
		"quad-slash":      "//// :skip Extra",
		"text-before":     "// text :skip",
		"second-notation": "// :skip Extra // :map",
		"no-space-args":   "// :mapName Extra",
		"nbsp-before":     "// :skip",
		"nbsp-after-name": "// :skip Extra",
		"cr-inside":       "// :skip\rExtra",
		"vt-literal":      "// :literal Extra\vx",
		"ff-map":          "// :map Name\fExtra",
		"ideo-conv":       "// :conv convIS\u3000ID\u3000Extra",
		"only-spaces":     "// :skip     ",
		"nul":             "// :skip \x00",
		"bom":             "// :skip \ufeffExtra",
		"bad-utf8":        "// :skip \xff\xfe",
		"very-long-line":  "// :skip " + strings.Repeat("Extra ", 4000),
		"tab-indent-more": "\t\t// :skip",
	}
	for name, l := range lines {
		c := &fzCase{class: "a/spacing/" + name, group: "a/spacing", positioned: fzPositionedNote("skip", []string{l})}
		c.tdoc = []string{inj(l)}
		out = append(out, c)
	}
	return out
}
