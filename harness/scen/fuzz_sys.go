package scen

import (
	"fmt"
	"math/rand"
)

// fzSystematic is the "one bad argument, everything else valid" part of the C14 workload: for the
// argument-taking notations every argument position is replaced in turn by every token of the
// structured categories while the other arguments stay valid (so that the bad token reaches the code
// that interprets it). `always` cases are part of every run; the rest is sampled by the seed.
func fzSystematic() (always, rest []*fzCase) {
	toks, _ := fzCatsByName(fzTokens())
	type tgt struct {
		name string
		good []string
		sigs []string
	}
	targets := []tgt{
		{"map", []string{"Name", "Extra"}, []string{"(*SA) *DA", "(*SA, int, string) *DA", "(s *SA, n int) (d *DA, err error)"}},
		{"conv", []string{"convIS", "ID", "Extra"}, []string{"(*SA) *DA", "(*SA, int) (*DA, error)"}},
		{"skip", []string{"Extra"}, []string{"(*SA) *DA"}},
		{"literal", []string{"Extra", `"x"`}, []string{"(*SA) *DA"}},
		{"recv", []string{"s"}, []string{"(*SA) *DA"}},
		{"preprocess", []string{"preAD"}, []string{"(*SA) *DA", "(*SA, int) *DA"}},
		{"postprocess", []string{"preAD"}, []string{"(*SA) (*DA, error)"}},
		{"style", []string{"arg"}, []string{"(*SA) *DA"}},
		{"match", []string{"name"}, []string{"(*SA) *DA"}},
	}
	cats := []string{"dollar", "dotted-empty", "paren", "slash", "regexp-bad", "regexp-exotic", "unicode", "syntax", "keyword", "ident-odd", "path", "func", "enum"}
	for _, t := range targets {
		for pos := range t.good {
			for _, cat := range cats {
				for _, tok := range toks[cat] {
					for si, sig := range t.sigs {
						args := append([]string{}, t.good...)
						args[pos] = tok.s
						c := &fzCase{tsig: sig}
						c.tdoc = []string{inj(fzNoteLine("// :", t.name, args, " ", " "))}
						c.class = fmt.Sprintf("sys/%s/arg%d:%s/sig%d", t.name, pos, cat, si)
						c.group = "sys/" + t.name
						c.positioned = fzPositionedNote(t.name, args) && t.name != "recv"
						c.feat("notation", t.name)
						// the $-forms and path forms in source position are the most structured inputs: always run
						// so are the shortest slash forms ("/", "//", "/a") wherever a pattern or path is read
						shortSlash := cat == "slash" && si == 0 && (t.name == "skip" || t.name == "map" || (t.name == "conv" && pos > 0) || (t.name == "literal" && pos == 0))
						if shortSlash || (cat == "dollar" && ((t.name == "map" && pos == 0) || (t.name == "conv" && pos == 1))) {
							always = append(always, c)
						} else {
							rest = append(rest, c)
						}
					}
				}
			}
		}
	}
	// additional parameters of every type kind, used by ":map $2 X" (valid or not, never a crash)
	for i, pt := range []string{"error", "*error", "interface{}", "func()", "chan int", "map[string]int", "[]error", "struct{ X int }", "...int", "[2]int", "LErrish", "*SA", "**SA", "ext.Errish", "unsafe.Pointer", "*int"} {
		for j, note := range []string{"// :map $2 Extra", "// :map $2 Name", "// :map $2.X Extra", "// :preprocess preADX", ""} {
			c := &fzCase{tsig: inj("(s *SA, p " + pt + ") *DA")}
			if note != "" {
				c.tdoc = []string{note}
			}
			if pt == "unsafe.Pointer" {
				c.imports = []string{`"unsafe"`}
			}
			c.class = fmt.Sprintf("sys/extra-param-%d/note%d", i, j)
			c.group = "sys/extra-param"
			c.positioned = false
			always = append(always, c)
		}
	}
	// a converter interface that EMBEDS a valid interface while one of its own methods is faulty: the
	// faulty method must not be dropped silently
	base := "type Base interface {\n\tBaseM(*SB) *DB\n}"
	for i, bad := range []string{
		inj("\t// :map ID") + "\n\tAtoD(*SA) *DA",
		inj("\t// :recv func") + "\n\tAtoD(*SA) *DA",
		inj("\tAtoD()"),
		inj("\tAtoD(*SA)"),
		inj("\t// :conv nosuchfunc ID Extra") + "\n\tAtoD(*SA) *DA",
		inj("\t// :style bogus") + "\n\tAtoD(*SA) *DA",
		inj("\t// :skip /(/") + "\n\tAtoD(*SA) *DA",
	} {
		for j, order := range []string{"type Convergen interface {\n\tBase\n%s\n}", "type Convergen interface {\n%s\n\tBase\n}", "type Convergen interface {\n\tBase\n%s\n\tZtoD(*SA) *DA\n}"} {
			c := &fzCase{decls: []string{base}, ifaceText: fmt.Sprintf(order, bad)}
			c.class = fmt.Sprintf("sys/embedded-valid+bad-method-%d/order%d", i, j)
			c.group = "sys/embedded"
			c.positioned = false
			always = append(always, c)
		}
	}
	return always, rest
}

// fzSystematicSample returns the always-part plus a seeded sample of k of the rest.
func fzSystematicSample(r *rand.Rand, k int) []*fzCase {
	always, rest := fzSystematic()
	r.Shuffle(len(rest), func(i, j int) { rest[i], rest[j] = rest[j], rest[i] })
	if k > len(rest) {
		k = len(rest)
	}
	return append(always, rest[:k]...)
}
