package scen

import (
	"fmt"
	"math/rand"
)

// ScopeProbeTypes is the fixed probe struct pair of C09: the body of a generated function reveals
// each effective setting.
const scopeTypes = `
type PS struct {
	name string
	gval int
	St   LStr
	Tc   int
	Same int
	Aux  int
}

func (p *PS) Val() int { vtr.Enter("PS.Val"); return p.gval }

type PD struct {
	Name string
	Val  int
	St   string
	Tc   int64
	Same int
	Lit  int
}

func scopePost(d *PD, s *PS) { vtr.Enter("scopePost", d, s) }

func cvScopeE(v int) (int, error) {
	vtr.Enter("cvScopeE", v)
	if vtr.Fail("cvScopeE") {
		return 0, vtr.ErrOf("cvScopeE")
	}
	return v + 1, nil
}
`

var toggleChoices = map[string][2]string{
	"case":     {"case", "case:off"},
	"getter":   {"getter", "getter:off"},
	"stringer": {"stringer", "stringer:off"},
	"typecast": {"typecast", "typecast:off"},
}

var toggleOrder = []string{"style", "match", "case", "getter", "stringer", "typecast"}

func randSetting(r *rand.Rand, key string) *Notation {
	switch r.Intn(3) {
	case 0:
		return nil
	}
	on := r.Intn(2) == 0
	switch key {
	case "style":
		if on {
			return &Notation{Name: "style", Args: []string{"arg"}}
		}
		return &Notation{Name: "style", Args: []string{"return"}}
	case "match":
		if on && r.Intn(3) == 0 {
			return &Notation{Name: "match", Args: []string{"none"}}
		}
		return &Notation{Name: "match", Args: []string{"name"}}
	}
	c := toggleChoices[key]
	if on {
		return &Notation{Name: c[0]}
	}
	return &Notation{Name: c[1]}
}

// GenScoping generates the structured content of a C09 file: interfaces with interface-level and
// method-level settings and per-method notation lists with overlapping paths.
func GenScoping(r *rand.Rand, oneToggle string) []*Iface {
	nIf := 1 + r.Intn(3)
	var out []*Iface
	mc := 0
	convergenUsed := false
	for i := 0; i < nIf; i++ {
		it := &Iface{Converter: true}
		if !convergenUsed && r.Intn(2) == 0 {
			it.Name = "Convergen"
			convergenUsed = true
		} else {
			it.Name = fmt.Sprintf("Conv%d", i)
			it.Notations = append(it.Notations, Notation{Name: "convergen"})
		}
		for _, k := range toggleOrder {
			if oneToggle != "" && k != oneToggle {
				continue
			}
			if n := randSetting(r, k); n != nil {
				it.Notations = append(it.Notations, *n)
			}
		}
		// the marker may stand anywhere among the interface-level notations
		r.Shuffle(len(it.Notations), func(a, b int) { it.Notations[a], it.Notations[b] = it.Notations[b], it.Notations[a] })
		nm := 1 + r.Intn(6)
		for j := 0; j < nm; j++ {
			m := &Method{Name: fmt.Sprintf("F%c%d", 'A'+byte(r.Intn(26)), mc), Src: Param{Type: "*PS"}, Dst: Param{Type: "*PD"}}
			mc++
			for _, k := range toggleOrder {
				if oneToggle != "" && k != oneToggle {
					continue
				}
				if n := randSetting(r, k); n != nil {
					m.Notations = append(m.Notations, *n)
				}
			}
			// per-method lists with overlapping paths across methods
			for _, cand := range [][]string{{"skip", "Same"}, {"skip", "/^S/"}, {"map", "Aux", "Same"}, {"map", "Aux", "Lit"}, {"literal", "Lit", "7"}, {"literal", "Same", "9"}, {"skip", "Lit"}, {"map", "Tc", "Val"},
				// patterns that match only when the case rule in effect for THIS method is off
				{"skip", "same"}, {"skip", "/^s/"}, {"skip", "LIT"}} {
				if r.Intn(5) == 0 {
					m.Notations = append(m.Notations, Notation{Name: cand[0], Args: cand[1:]})
				}
			}
			// :reverse on some of the methods whose effective style is arg (it needs that style, and its
			// presence on one method is nobody else's business)
			style := "return"
			for _, n := range append(append([]Notation{}, it.Notations...), m.Notations...) {
				if n.Name == "style" && len(n.Args) > 0 {
					style = n.Args[0]
				}
			}
			if style == "arg" && r.Intn(3) == 0 {
				m.Notations = append(m.Notations, Notation{Name: "reverse"})
			}
			if _, rev := m.Get("reverse"); !rev {
				// one hook shared by many methods (of different effective styles, with the destination declared by
				// pointer or by value): how a method calls it is that method's own business
				if r.Intn(3) == 0 {
					m.Notations = append(m.Notations, Notation{Name: "postprocess", Args: []string{"scopePost"}})
					m.PostSite = "scopePost"
				}
				if r.Intn(4) == 0 {
					m.Dst.Type = "PD"
				}
			}
			m.HasErr = r.Intn(4) == 0
			if m.HasErr && r.Intn(2) == 0 {
				// an assignment that can fail: its error-return statement depends on this method's own style
				m.Notations = append(m.Notations, Notation{Name: "conv", Args: []string{"cvScopeE", "Aux", []string{"Same", "Lit", "Tc"}[r.Intn(3)]}})
				m.ErrSites = append(m.ErrSites, "cvScopeE")
			}
			// shuffle notation order
			r.Shuffle(len(m.Notations), func(a, b int) { m.Notations[a], m.Notations[b] = m.Notations[b], m.Notations[a] })
			it.Methods = append(it.Methods, m)
		}
		out = append(out, it)
	}
	return out
}

// ScopingScenario renders interfaces over the probe types.
func ScopingScenario(ifaces []*Iface, id, pkgRel string) *Scenario {
	b := NewBuilder(nil, Profile{}, id, pkgRel)
	b.funcsT = append(b.funcsT, scopeTypes)
	b.S.Ifaces = ifaces
	b.S.RegMethods = append(b.S.RegMethods, "(*PS).Val")
	b.S.Feature("profile", "scoping")
	return b.Finish()
}

// EffectiveOnly returns a single-interface, single-method copy of m in which the effective settings
// are written at method level only.
func EffectiveOnly(it *Iface, m *Method) []*Iface {
	o := Effective(it, m)
	nm := *m
	nm.Notations = nil
	nm.Notations = append(nm.Notations, Notation{Name: "style", Args: []string{o.Style}}, Notation{Name: "match", Args: []string{o.Match}})
	tog := func(v bool, on, off string) {
		if v {
			nm.Notations = append(nm.Notations, Notation{Name: on})
		} else {
			nm.Notations = append(nm.Notations, Notation{Name: off})
		}
	}
	tog(o.Case, "case", "case:off")
	tog(o.Getter, "getter", "getter:off")
	tog(o.Stringer, "stringer", "stringer:off")
	tog(o.Typecast, "typecast", "typecast:off")
	for _, n := range m.Notations {
		switch n.Name {
		case "style", "match", "case", "case:off", "getter", "getter:off", "stringer", "stringer:off", "typecast", "typecast:off":
		default:
			nm.Notations = append(nm.Notations, n)
		}
	}
	return []*Iface{{Name: "Convergen", Converter: true, Methods: []*Method{&nm}}}
}

// OnlyMethod returns a copy of the file with every other method and interface deleted.
func OnlyMethod(it *Iface, m *Method) []*Iface {
	ni := *it
	ni.Methods = []*Method{m}
	return []*Iface{&ni}
}
