package scen

import "strconv"

// Opts are the effective settings of a method: interface notations are the defaults, method
// notations override them (C09); within one level the last occurrence wins.
type Opts struct {
	Style    string // return | arg
	Match    string // name | none
	Case     bool   // true = case-sensitive
	Getter   bool
	Stringer bool
	Typecast bool
	Recv     string
	Reverse  bool
}

func applyNotations(o *Opts, ns []Notation, methodLevel bool) {
	for _, n := range ns {
		switch n.Name {
		case "style":
			if len(n.Args) > 0 && (n.Args[0] == "arg" || n.Args[0] == "return") {
				o.Style = n.Args[0]
			}
		case "match":
			if len(n.Args) > 0 && (n.Args[0] == "name" || n.Args[0] == "none") {
				o.Match = n.Args[0]
			}
		case "case":
			o.Case = true
		case "case:off":
			o.Case = false
		case "getter":
			o.Getter = true
		case "getter:off":
			o.Getter = false
		case "stringer":
			o.Stringer = true
		case "stringer:off":
			o.Stringer = false
		case "typecast":
			o.Typecast = true
		case "typecast:off":
			o.Typecast = false
		case "recv":
			if methodLevel && len(n.Args) > 0 {
				o.Recv = n.Args[0]
			}
		case "reverse":
			if methodLevel {
				o.Reverse = true
			}
		}
	}
}

// Effective computes the effective options of method m of interface it.
func Effective(it *Iface, m *Method) Opts {
	o := Opts{Style: "return", Match: "name", Case: true}
	if it != nil {
		applyNotations(&o, it.Notations, false)
	}
	applyNotations(&o, m.Notations, true)
	return o
}

// IfaceOf returns the interface declaring m.
func (s *Scenario) IfaceOf(m *Method) *Iface {
	for _, it := range s.Ifaces {
		for _, mm := range it.Methods {
			if mm == m {
				return it
			}
		}
	}
	return nil
}

// Roles returns the role of every input of the generated function as documented (C08):
// "src", "dst", "x0".. and whether the destination is an input (arg style / reverse).
func Roles(o Opts, nExtras int) []string {
	var r []string
	if o.Reverse {
		// copy destination = the method's first parameter (receiver if :recv), copy source = its result type
		if o.Recv != "" {
			return []string{"dst", "src"}
		}
		return []string{"src", "dst"}
	}
	if o.Style == "arg" {
		if o.Recv != "" {
			r = []string{"src", "dst"}
		} else {
			r = []string{"dst", "src"}
		}
	} else {
		r = []string{"src"}
	}
	for i := 0; i < nExtras; i++ {
		r = append(r, "x"+strconv.Itoa(i))
	}
	return r
}
