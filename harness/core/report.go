package core

import (
	"encoding/json"
	"fmt"
	"math/rand"
	"os"
	"path/filepath"
	"sort"
	"strings"
	"sync"
	"time"
)

// Rand returns a PRNG determined by (seed, labels...).
func Rand(seed int64, labels ...any) *rand.Rand {
	h := Hash(fmt.Sprint(seed), fmt.Sprint(labels...))
	var s int64
	for i := 0; i < 15; i++ {
		s = s*16 + int64(strings.IndexByte("0123456789abcdef", h[i]))
	}
	return rand.New(rand.NewSource(s))
}

// Violation is one observed breach of a property.
type Violation struct {
	Property string            `json:"property"`
	Monitor  string            `json:"monitor"`
	Symptom  string            `json:"symptom"`
	Features map[string]string `json:"features,omitempty"`
	Detail   string            `json:"detail"`
	Case     string            `json:"case"` // case id
	// Files to be stored as replay (relative path -> content); plus Cmd
	Files map[string]string `json:"-"`
	Cmd   string            `json:"cmd,omitempty"`
	Known string            `json:"known,omitempty"` // id of the matching known finding
}

// Fingerprint identifies the violation class.
func (v *Violation) Fingerprint() string {
	keys := make([]string, 0, len(v.Features))
	for k := range v.Features {
		keys = append(keys, k)
	}
	sort.Strings(keys)
	var sb strings.Builder
	sb.WriteString(v.Property + "/" + v.Monitor + "/" + v.Symptom)
	for _, k := range keys {
		sb.WriteString(" " + k + "=" + v.Features[k])
	}
	return sb.String()
}

// KnownFinding is one entry of /verif/known_findings.json.
type KnownFinding struct {
	ID       string            `json:"id"`
	Property string            `json:"property"`
	Symptom  string            `json:"symptom"`
	Match    map[string]string `json:"match,omitempty"`
	Witness  string            `json:"witness"`
	What     string            `json:"what"`
}

// KnownFile is the committed file.
type KnownFile struct {
	Findings []KnownFinding `json:"findings"`
	Fixed    []string       `json:"fixed"`
}

// LoadKnown reads known_findings.json (missing file = empty).
func LoadKnown(verif string) (*KnownFile, error) {
	var kf KnownFile
	b, err := os.ReadFile(filepath.Join(verif, "known_findings.json"))
	if err != nil {
		if os.IsNotExist(err) {
			return &kf, nil
		}
		return nil, err
	}
	if err := json.Unmarshal(b, &kf); err != nil {
		return nil, fmt.Errorf("known_findings.json: %v", err)
	}
	return &kf, nil
}

func (k *KnownFinding) matches(v *Violation) bool {
	if k.Property != v.Property {
		return false
	}
	symOK := false
	for _, sy := range strings.Split(k.Symptom, "|") {
		if sy == v.Symptom {
			symOK = true
		}
	}
	if !symOK {
		return false
	}
	for key, want := range k.Match {
		got := v.Features[key]
		if strings.HasPrefix(want, "~") {
			if !strings.Contains(got, want[1:]) {
				return false
			}
		} else if strings.Contains(want, "|") {
			ok := false
			for _, w := range strings.Split(want, "|") {
				if w == got {
					ok = true
				}
			}
			if !ok {
				return false
			}
		} else if got != want {
			return false
		}
	}
	return true
}

// Report accumulates observations of a check run and writes evidence.
type Report struct {
	Env   *Env
	Level string
	Rule  string

	mu           sync.Mutex
	evaluations  int64
	distinct     map[string]int
	samples      []any
	violations   []*Violation
	inconclusive []string
	counters     map[string]int64
	histo        map[string]map[string]int64
	extra        map[string]any
	assumptions  []string
	exhaustive   *bool
	witnessSeen  map[string]bool // known-finding ids whose witness case ran
}

// NewReport creates a report.
func NewReport(e *Env, level, rule string) *Report {
	return &Report{Env: e, Level: level, Rule: rule, distinct: map[string]int{}, counters: map[string]int64{},
		histo: map[string]map[string]int64{}, extra: map[string]any{}, witnessSeen: map[string]bool{}}
}

func (r *Report) Eval(n int) {
	r.mu.Lock()
	r.evaluations += int64(n)
	r.mu.Unlock()
}

// Distinct records one non-trivial case class.
func (r *Report) Distinct(key string) {
	r.mu.Lock()
	r.distinct[key]++
	r.mu.Unlock()
}

func (r *Report) Count(name string, n int) {
	r.mu.Lock()
	r.counters[name] += int64(n)
	r.mu.Unlock()
}

func (r *Report) Histo(dim, val string) {
	r.mu.Lock()
	m := r.histo[dim]
	if m == nil {
		m = map[string]int64{}
		r.histo[dim] = m
	}
	m[val]++
	r.mu.Unlock()
}

// Sample keeps up to max samples.
func (r *Report) Sample(s any, max int) {
	r.mu.Lock()
	if len(r.samples) < max {
		r.samples = append(r.samples, s)
	}
	r.mu.Unlock()
}

func (r *Report) Extra(k string, v any) {
	r.mu.Lock()
	r.extra[k] = v
	r.mu.Unlock()
}

func (r *Report) Assume(s ...string) {
	r.mu.Lock()
	r.assumptions = append(r.assumptions, s...)
	r.mu.Unlock()
}

func (r *Report) Exhaustive(b bool) {
	r.mu.Lock()
	r.exhaustive = &b
	r.mu.Unlock()
}

func (r *Report) Inconclusive(what string) {
	r.mu.Lock()
	r.inconclusive = append(r.inconclusive, what)
	r.mu.Unlock()
}

// Violate records a violation.
func (r *Report) Violate(v *Violation) {
	if v.Property == "" {
		v.Property = r.Env.Prop
	}
	r.mu.Lock()
	r.violations = append(r.violations, v)
	r.mu.Unlock()
}

// NumViolations returns the number of violations so far.
func (r *Report) NumViolations() int {
	r.mu.Lock()
	defer r.mu.Unlock()
	return len(r.violations)
}

// Finish classifies violations, writes replays and evidence, prints verdict lines and
// returns the process exit code.
func (r *Report) Finish() int {
	r.mu.Lock()
	defer r.mu.Unlock()
	e := r.Env
	kf, err := LoadKnown(e.Verif)
	if err != nil {
		fmt.Println("INCONCLUSIVE:", err)
		return 2
	}
	// only violations of this property count (a monitor may tag another property for info)
	var mine []*Violation
	for _, v := range r.violations {
		if v.Property == e.Prop {
			mine = append(mine, v)
		}
	}
	sort.SliceStable(mine, func(i, j int) bool {
		if mine[i].Case != mine[j].Case {
			return mine[i].Case < mine[j].Case
		}
		return mine[i].Fingerprint() < mine[j].Fingerprint()
	})
	knownHits := map[string]int{}
	var fresh []*Violation
	for _, v := range mine {
		for i := range kf.Findings {
			if kf.Findings[i].matches(v) {
				v.Known = kf.Findings[i].ID
				break
			}
		}
		if v.Known != "" {
			knownHits[v.Known]++
		} else {
			fresh = append(fresh, v)
		}
	}
	for _, k := range kf.Findings {
		if k.Property != e.Prop {
			continue
		}
		if knownHits[k.ID] > 0 {
			fmt.Printf("KNOWN-FINDING: property=%s %s [%s; %d occurrence(s) this run]\n", k.Property, k.What, k.ID, knownHits[k.ID])
		} else {
			fmt.Printf("NOTE: known finding %s (%s) was not reproduced in this run (stale entry or witness not run)\n", k.ID, k.Property)
		}
	}
	// replays: one per distinct fingerprint (max 20)
	seenFP := map[string]bool{}
	exit := 0
	nRep := 0
	freshFP := map[string]int{}
	for _, v := range fresh {
		fp := v.Fingerprint()
		freshFP[fp]++
		if seenFP[fp] {
			continue
		}
		seenFP[fp] = true
		exit = 1
		if nRep >= 25 {
			continue
		}
		nRep++
		dir := filepath.Join(e.Verif, "replays", e.Prop, Hash(fp, v.Case))
		_ = os.RemoveAll(dir)
		_ = os.MkdirAll(dir, 0o755)
		_ = WriteTree(filepath.Join(dir, "files"), v.Files)
		vb, _ := json.MarshalIndent(v, "", " ")
		_ = os.WriteFile(filepath.Join(dir, "violation.json"), vb, 0o644)
		fmt.Printf("VIOLATION property=%s replay=%s\n", e.Prop, dir)
		fmt.Printf("  fingerprint: %s\n  case: %s\n  detail: %s\n", fp, v.Case, Trunc(v.Detail, 1500))
	}
	inconcl := len(r.inconclusive)
	if exit == 0 && r.evaluations > 0 && int64(inconcl)*20 > r.evaluations {
		fmt.Printf("INCONCLUSIVE: %d of %d evaluations inconclusive\n", inconcl, r.evaluations)
		for i, s := range r.inconclusive {
			if i < 10 {
				fmt.Println("  ", Trunc(s, 400))
			}
		}
		exit = 2
	}
	if exit == 0 && len(r.distinct) < 2 {
		fmt.Printf("INCONCLUSIVE: only %d distinct non-trivial cases observed\n", len(r.distinct))
		exit = 2
	}
	// evidence
	cov := map[string]any{
		"evaluations":         r.evaluations,
		"distinct_nontrivial": len(r.distinct),
		"rule":                r.Rule,
		"samples":             r.samples,
		"tool_runs":           e.toolRunsLocked(),
		"counters":            r.counters,
		"coverage_histogram":  r.histo,
		"known_findings_hit":  knownHits,
		"inconclusive":        inconcl,
	}
	if len(r.samples) == 0 {
		cov["samples"] = []any{}
	}
	if inconcl > 0 {
		n := inconcl
		if n > 10 {
			n = 10
		}
		cov["inconclusive_examples"] = r.inconclusive[:n]
	}
	if r.exhaustive != nil {
		cov["exhaustive"] = *r.exhaustive
	}
	if len(freshFP) > 0 {
		cov["violation_fingerprints"] = freshFP
	}
	for k, v := range r.extra {
		cov[k] = v
	}
	assumptions := append([]string{"the Go toolchain (go/types, gofmt, compiler, reflect) and the harness's generators/oracles are trusted; only executions produced by this run are covered"}, r.assumptions...)
	ev := map[string]any{
		"property_id": e.Prop,
		"tier":        e.Tier,
		"seed":        e.Seed,
		"level":       r.Level,
		"coverage":    cov,
		"assumptions": assumptions,
		"wall_s":      time.Since(e.Start).Seconds(),
		"violations":  len(fresh),
	}
	b, _ := json.MarshalIndent(ev, "", " ")
	evDir := filepath.Join(e.Verif, "evidence")
	_ = os.MkdirAll(evDir, 0o755)
	if err := os.WriteFile(filepath.Join(evDir, e.Prop+".json"), b, 0o644); err != nil {
		fmt.Println("INCONCLUSIVE: cannot write evidence:", err)
		return 2
	}
	fmt.Printf("%s %s seed=%d: evaluations=%d distinct_nontrivial=%d tool_runs=%d violations=%d known=%d inconclusive=%d wall=%.1fs\n",
		e.Prop, e.Tier, e.Seed, r.evaluations, len(r.distinct), e.toolRunsLocked(), len(fresh), len(mine)-len(fresh), inconcl, time.Since(e.Start).Seconds())
	return exit
}

func (e *Env) toolRunsLocked() int64 {
	e.mu.Lock()
	defer e.mu.Unlock()
	return e.toolRuns
}
