// Package core holds the plumbing shared by all checks: work directory, building the
// tool under test from /repo's working tree, running it as a child process, seeded
// PRNG, parallel map, evidence and known-findings handling.
package core

import (
	"bytes"
	"crypto/sha256"
	"encoding/hex"
	"fmt"
	"os"
	"os/exec"
	"path/filepath"
	"runtime"
	"strconv"
	"strings"
	"sync"
	"syscall"
	"time"
)

// Env is the per-check-run environment.
type Env struct {
	Prop    string
	Tier    string // "quick" | "thorough"
	Seed    int64
	Repo    string // /repo (override: VERIF_REPO)
	Verif   string // /verif (root of this framework)
	Work    string // fresh scratch dir, removed on Close
	Tool    string // built convergen binary
	GoCache string
	Home    string
	Workers int
	Start   time.Time

	mu       sync.Mutex
	toolRuns int64
}

// VerifRoot finds /verif from the executable location or VERIF_ROOT.
func VerifRoot() string {
	if v := os.Getenv("VERIF_ROOT"); v != "" {
		return v
	}
	exe, err := os.Executable()
	if err == nil {
		d := filepath.Dir(filepath.Dir(exe)) // bin/vcheck -> /verif
		if _, err := os.Stat(filepath.Join(d, "properties.jsonl")); err == nil {
			return d
		}
	}
	wd, _ := os.Getwd()
	for d := wd; d != "/" && d != "."; d = filepath.Dir(d) {
		if _, err := os.Stat(filepath.Join(d, "properties.jsonl")); err == nil {
			return d
		}
	}
	return "/verif"
}

// NewEnv creates the scratch dir and builds the tool from the repo's working tree.
func NewEnv(prop, tier string) (*Env, error) {
	e := &Env{Prop: prop, Tier: tier, Start: time.Now()}
	e.Seed = 1
	if s := os.Getenv("VERIF_SEED"); s != "" {
		if n, err := strconv.ParseInt(s, 10, 64); err == nil {
			e.Seed = n
		}
	}
	e.Repo = os.Getenv("VERIF_REPO")
	if e.Repo == "" {
		e.Repo = "/repo"
	}
	e.Verif = VerifRoot()
	e.Workers = runtime.NumCPU()
	if w := os.Getenv("VERIF_WORKERS"); w != "" {
		if n, err := strconv.Atoi(w); err == nil && n > 0 {
			e.Workers = n
		}
	}
	tmp := os.Getenv("TMPDIR")
	if tmp == "" {
		tmp = "/tmp"
	}
	w, err := os.MkdirTemp(tmp, "vchk-"+prop+"-")
	if err != nil {
		return nil, err
	}
	e.Work = w
	e.GoCache = filepath.Join(w, "gocache")
	e.Home = filepath.Join(w, "home")
	_ = os.MkdirAll(e.GoCache, 0o755)
	_ = os.MkdirAll(e.Home, 0o755)
	if err := e.buildTool(); err != nil {
		e.Close()
		return nil, err
	}
	return e, nil
}

// Close removes the scratch directory (unless VERIF_KEEP is set).
func (e *Env) Close() {
	if os.Getenv("VERIF_KEEP") != "" {
		fmt.Fprintln(os.Stderr, "kept work dir:", e.Work)
		return
	}
	// directories made immutable or read-only by C15 are cleaned by the check itself.
	_ = filepath.Walk(e.Work, func(p string, info os.FileInfo, err error) error {
		if err == nil && info.IsDir() {
			_ = os.Chmod(p, 0o755)
		}
		return nil
	})
	_ = os.RemoveAll(e.Work)
}

// GoEnv is the environment for every go child (tool build, scenario builds).
// The tool build uses the ambient (shared) build cache; scenario builds use a private one.
func (e *Env) GoEnv(privateCache bool) []string {
	env := []string{
		"PATH=" + os.Getenv("PATH"),
		"GOFLAGS=-mod=mod", "GOPROXY=off", "GOSUMDB=off", "GOTOOLCHAIN=local",
		"GONOSUMDB=*", "GONOSUMCHECK=1", "GOFLAGS=-mod=mod", "CGO_ENABLED=0",
		"LANG=C", "GOWORK=off",
	}
	if privateCache {
		env = append(env, "GOCACHE="+e.GoCache, "HOME="+e.Home)
	} else {
		home := os.Getenv("HOME")
		if home == "" {
			home = "/root"
		}
		env = append(env, "HOME="+home)
		if gc := os.Getenv("GOCACHE"); gc != "" {
			env = append(env, "GOCACHE="+gc)
		}
	}
	if gp := os.Getenv("GOPATH"); gp != "" {
		env = append(env, "GOPATH="+gp)
	}
	if gm := os.Getenv("GOMODCACHE"); gm != "" {
		env = append(env, "GOMODCACHE="+gm)
	}
	return env
}

// ToolEnv is the environment convergen itself runs in (its `go list` children inherit it).
func (e *Env) ToolEnv() []string {
	return []string{
		"PATH=" + os.Getenv("PATH"),
		"GOFLAGS=-mod=mod", "GOPROXY=off", "GOSUMDB=off", "GOTOOLCHAIN=local",
		"CGO_ENABLED=0", "LANG=C", "GOWORK=off",
		"GOCACHE=" + e.GoCache, "HOME=" + e.Home,
	}
}

func (e *Env) buildTool() error {
	e.Tool = filepath.Join(e.Work, "convergen")
	cmd := exec.Command("go", "build", "-tags", "verif", "-o", e.Tool, ".")
	cmd.Dir = e.Repo
	cmd.Env = e.GoEnv(false)
	out, err := cmd.CombinedOutput()
	if err != nil {
		return fmt.Errorf("building convergen from %s failed: %v\n%s", e.Repo, err, out)
	}
	return nil
}

// BuildAux builds an auxiliary binary from a module directory (already prepared) with -tags verif.
func (e *Env) BuildAux(modDir, pkg, outName string, extraArgs ...string) (string, error) {
	out := filepath.Join(e.Work, outName)
	args := append([]string{"build", "-tags", "verif"}, extraArgs...)
	args = append(args, "-o", out, pkg)
	cmd := exec.Command("go", args...)
	cmd.Dir = modDir
	cmd.Env = e.GoEnv(false)
	b, err := cmd.CombinedOutput()
	if err != nil {
		return "", fmt.Errorf("building %s in %s failed: %v\n%s", pkg, modDir, err, b)
	}
	return out, nil
}

// RunSpec describes one execution of the tool (or any child).
type RunSpec struct {
	Bin     string   // default: the tool
	Args    []string // argv[1:]
	Dir     string
	Env     []string // extra env entries appended to ToolEnv (later wins)
	BaseEnv []string // if set, replaces ToolEnv
	Stdin   string
	WallSec int // watchdog, default 60
	Cred    *syscall.Credential
	Wrap    []string // prefix command, e.g. strace ...
}

// RunResult is what was observed at the process boundary.
type RunResult struct {
	Spec     RunSpec
	Exit     int // -1 = killed by watchdog / signal
	Signal   string
	Stdout   string
	Stderr   string
	CPU      time.Duration
	Wall     time.Duration
	TimedOut bool
	StartErr string
}

// Run executes the child and records the observations.
func (e *Env) Run(spec RunSpec) RunResult {
	bin := spec.Bin
	if bin == "" {
		bin = e.Tool
	}
	argv := append([]string{bin}, spec.Args...)
	if len(spec.Wrap) > 0 {
		argv = append(append([]string{}, spec.Wrap...), argv...)
	}
	cmd := exec.Command(argv[0], argv[1:]...)
	cmd.Dir = spec.Dir
	base := spec.BaseEnv
	if base == nil {
		base = e.ToolEnv()
	}
	cmd.Env = append(append([]string{}, base...), spec.Env...)
	if spec.Stdin != "" {
		cmd.Stdin = strings.NewReader(spec.Stdin)
	}
	var so, se bytes.Buffer
	cmd.Stdout = &so
	cmd.Stderr = &se
	cmd.SysProcAttr = &syscall.SysProcAttr{Setpgid: true}
	if spec.Cred != nil {
		cmd.SysProcAttr.Credential = spec.Cred
	}
	res := RunResult{Spec: spec}
	wall := spec.WallSec
	if wall <= 0 {
		wall = 60
	}
	t0 := time.Now()
	if err := cmd.Start(); err != nil {
		res.Exit = -1
		res.StartErr = err.Error()
		return res
	}
	done := make(chan error, 1)
	go func() { done <- cmd.Wait() }()
	var err error
	select {
	case err = <-done:
	case <-time.After(time.Duration(wall) * time.Second):
		res.TimedOut = true
		_ = syscall.Kill(-cmd.Process.Pid, syscall.SIGKILL)
		err = <-done
	}
	res.Wall = time.Since(t0)
	res.Stdout = so.String()
	res.Stderr = se.String()
	if cmd.ProcessState != nil {
		res.CPU = cmd.ProcessState.UserTime() + cmd.ProcessState.SystemTime()
		if ws, ok := cmd.ProcessState.Sys().(syscall.WaitStatus); ok {
			if ws.Signaled() {
				res.Exit = -1
				res.Signal = ws.Signal().String()
			} else {
				res.Exit = ws.ExitStatus()
			}
		} else {
			res.Exit = cmd.ProcessState.ExitCode()
		}
	} else if err != nil {
		res.Exit = -1
	}
	e.mu.Lock()
	e.toolRuns++
	e.mu.Unlock()
	return res
}

// ToolRuns returns how many children were run.
func (e *Env) ToolRuns() int64 {
	e.mu.Lock()
	defer e.mu.Unlock()
	return e.toolRuns
}

// Crashed says whether stderr/exit show a Go runtime crash.
func (r RunResult) Crashed() bool {
	if r.Exit == 2 || r.Exit == -1 && !r.TimedOut {
		return true
	}
	return strings.Contains(r.Stderr, "panic:") || strings.Contains(r.Stderr, "fatal error:") ||
		strings.Contains(r.Stderr, "goroutine 1 [") || strings.Contains(r.Stderr, "SIGSEGV")
}

// Parallel runs f(i) for i in [0,n) on e.Workers goroutines.
func (e *Env) Parallel(n int, f func(i int)) {
	ParallelN(e.Workers, n, f)
}

// ParallelN runs f(i) for i in [0,n) on w goroutines.
func ParallelN(w, n int, f func(i int)) {
	if w > n {
		w = n
	}
	if w <= 1 {
		for i := 0; i < n; i++ {
			f(i)
		}
		return
	}
	var wg sync.WaitGroup
	ch := make(chan int, n)
	for i := 0; i < n; i++ {
		ch <- i
	}
	close(ch)
	for k := 0; k < w; k++ {
		wg.Add(1)
		go func() {
			defer wg.Done()
			for i := range ch {
				f(i)
			}
		}()
	}
	wg.Wait()
}

// WriteTree writes files (relative path -> content) under root.
func WriteTree(root string, files map[string]string) error {
	for rel, content := range files {
		p := filepath.Join(root, rel)
		if err := os.MkdirAll(filepath.Dir(p), 0o755); err != nil {
			return err
		}
		if err := os.WriteFile(p, []byte(content), 0o644); err != nil {
			return err
		}
	}
	return nil
}

// Hash returns a short hex digest.
func Hash(parts ...string) string {
	h := sha256.New()
	for _, p := range parts {
		h.Write([]byte(p))
		h.Write([]byte{0})
	}
	return hex.EncodeToString(h.Sum(nil))[:16]
}

// CopyTree copies a directory tree (regular files and dirs only).
func CopyTree(src, dst string) error {
	return filepath.Walk(src, func(p string, info os.FileInfo, err error) error {
		if err != nil {
			return err
		}
		rel, _ := filepath.Rel(src, p)
		t := filepath.Join(dst, rel)
		if info.IsDir() {
			return os.MkdirAll(t, 0o755)
		}
		if !info.Mode().IsRegular() {
			return nil
		}
		b, err := os.ReadFile(p)
		if err != nil {
			return err
		}
		return os.WriteFile(t, b, 0o644)
	})
}

// Trunc shortens a string for reports.
func Trunc(s string, n int) string {
	if len(s) <= n {
		return s
	}
	return s[:n] + fmt.Sprintf("...[%d more bytes]", len(s)-n)
}
