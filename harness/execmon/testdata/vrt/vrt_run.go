package vrt

import (
	"bufio"
	"encoding/json"
	"fmt"
	"os"
	"reflect"
	"sort"
	"strconv"
	"strings"

	"vb/vtr"
)

// PlanItem is one observed body item shipped by the harness.
type PlanItem struct {
	Kind      string   `json:"kind"` // assign slice nestinit
	Path      []string `json:"path"`
	RHS       *Expr    `json:"rhs,omitempty"`
	Guards    []*Expr  `json:"guards,omitempty"`
	SliceMode string   `json:"slice_mode,omitempty"`
}

// FuncPlan describes one generated function to execute.
type FuncPlan struct {
	Key       string            `json:"key"`
	Roles     []string          `json:"roles"`      // role of every input of the registered func value
	RootNames map[string]string `json:"root_names"` // variable name in the text -> role
	Style     string            `json:"style"`      // return | arg
	HasErr    bool              `json:"has_err"`
	Items     []PlanItem        `json:"items"`
	PreHook   string            `json:"pre_hook,omitempty"`
	PostHook  string            `json:"post_hook,omitempty"`
	ErrSites  []string          `json:"err_sites,omitempty"`
	Judge     bool              `json:"judge"`
	// OnlyListed restricts the comparison to the leaves below the listed items (kinds assign, slice,
	// nestinit, keep); everything else in the destination is not judged.
	OnlyListed bool `json:"only_listed,omitempty"`
}

// ScenPlan is the plan of one scenario.
type ScenPlan struct {
	ID    string     `json:"id"`
	Funcs []FuncPlan `json:"funcs"`
}

// Job is the driver input.
type Job struct {
	Scenarios   []ScenPlan `json:"scenarios"`
	NRandom     int        `json:"n_random"`
	Seed        uint64     `json:"seed"`
	Faults      bool       `json:"faults"`
	FaultPairs  bool       `json:"fault_pairs"`
	MutateHooks bool       `json:"mutate_hooks"`
	SliceMutate bool       `json:"slice_mutate"`
}

// Mismatch is one leaf that differs from the model.
type Mismatch struct {
	Path string `json:"path"`
	Want string `json:"want"`
	Got  string `json:"got"`
}

// HookObs is what an instrumented hook observed.
type HookObs struct {
	Site      string   `json:"site"`
	Count     int      `json:"count"`
	TracePos  int      `json:"trace_pos"`
	DstIsPtr  bool     `json:"dst_is_ptr"`
	SrcIsPtr  bool     `json:"src_is_ptr"`
	DstSame   string   `json:"dst_same"` // yes no n/a : pointer identity with the function's destination
	SrcSame   string   `json:"src_same"`
	DstDiff   []string `json:"dst_diff,omitempty"` // snapshot vs expected state at entry
	SrcDiff   []string `json:"src_diff,omitempty"`
	ExtraDiff []string `json:"extra_diff,omitempty"`
	NArgs     int      `json:"n_args"`
	Mutated   bool     `json:"mutated"`
}

// Rec is the record of one call.
type Rec struct {
	Scen       string     `json:"scen"`
	Fn         string     `json:"fn"`
	Val        string     `json:"val"`
	Fail       string     `json:"fail,omitempty"`
	FailNth    int        `json:"fail_nth,omitempty"`
	SigErr     string     `json:"sig_err,omitempty"`
	Panic      string     `json:"panic,omitempty"`
	PanicAt    string     `json:"panic_at,omitempty"`
	Trace      []string   `json:"trace"`
	Failed     []string   `json:"failed,omitempty"`
	Err        string     `json:"err"` // none nil injected:<site> other:<text>
	Mismatches []Mismatch `json:"mismatches,omitempty"`
	Checked    int        `json:"checked"`
	Executed   int        `json:"executed"` // items whose guards held
	Fresh      int        `json:"fresh"`    // fresh-storage tokens verified
	SrcMutated []string   `json:"src_mutated,omitempty"`
	Skipped    []string   `json:"skipped,omitempty"`
	Pre        *HookObs   `json:"pre,omitempty"`
	Post       *HookObs   `json:"post,omitempty"`
	SliceAlias []string   `json:"slice_alias,omitempty"`
	// TreeAlias: "dstpath|srcpath" for every non-empty destination slice (found by walking the TYPES,
	// not the plan) whose backing array is also the backing array of a slice of the source operand.
	TreeAlias []string `json:"tree_alias,omitempty"`
	SliceObs   int        `json:"slice_obs,omitempty"`
	NilKept    int        `json:"nil_kept,omitempty"`
	Judged     bool       `json:"judged"`
}

var out *bufio.Writer

func emit(r *Rec) {
	b, _ := json.Marshal(r)
	out.Write(b)
	out.WriteByte('\n')
}

// Main is the driver entry point: vrt.Main(jobPath, outPath).
func Main() {
	if len(os.Args) < 3 {
		fmt.Fprintln(os.Stderr, "usage: driver job.json out.jsonl")
		os.Exit(2)
	}
	jb, err := os.ReadFile(os.Args[1])
	if err != nil {
		fmt.Fprintln(os.Stderr, err)
		os.Exit(2)
	}
	var job Job
	if err := json.Unmarshal(jb, &job); err != nil {
		fmt.Fprintln(os.Stderr, err)
		os.Exit(2)
	}
	f, err := os.Create(os.Args[2])
	if err != nil {
		fmt.Fprintln(os.Stderr, err)
		os.Exit(2)
	}
	out = bufio.NewWriter(f)
	vtr.Snap = func(interface{}) interface{} { return nil }
	for _, sp := range job.Scenarios {
		reg := scenarios[sp.ID]
		if reg == nil {
			emit(&Rec{Scen: sp.ID, SigErr: "scenario not registered"})
			continue
		}
		for i := range sp.Funcs {
			runFunc(&job, reg, &sp.Funcs[i])
			out.Flush()
		}
	}
	out.Flush()
	f.Close()
	fmt.Println("DRIVER-DONE")
}

var valuations = []string{"unique", "zero", "nilptr", "emptyslice", "extreme", "shared"}

func runFunc(job *Job, reg *Reg, fp *FuncPlan) {
	fn, ok := reg.Gens[fp.Key]
	if !ok {
		emit(&Rec{Scen: reg.ID, Fn: fp.Key, SigErr: "generated function not registered"})
		return
	}
	ft := fn.Type()
	if ft.NumIn() != len(fp.Roles) {
		emit(&Rec{Scen: reg.ID, Fn: fp.Key, SigErr: fmt.Sprintf("function has %d inputs, expected roles %v", ft.NumIn(), fp.Roles)})
		return
	}
	vals := append([]string{}, valuations...)
	for i := 0; i < job.NRandom; i++ {
		vals = append(vals, "random"+strconv.Itoa(i))
	}
	for vi, val := range vals {
		ref := callOnce(job, reg, fp, fn, val, uint64(vi)+job.Seed*1000, "", 0)
		emit(ref)
		if job.Faults && ref.Panic == "" && ref.SigErr == "" && fp.HasErr {
			// every error-capable site that actually ran in the reference run
			seen := map[string]int{}
			for _, s := range ref.Trace {
				isErrSite := false
				for _, es := range fp.ErrSites {
					if es == s {
						isErrSite = true
					}
				}
				if !isErrSite {
					continue
				}
				seen[s]++
				if seen[s] > 2 {
					continue
				}
				emit(callOnce(job, reg, fp, fn, val, uint64(vi)+job.Seed*1000, s, seen[s]))
			}
		}
	}
}

// dumpPath converts a destination field path to the dump key below root and returns the leaf type.
func dumpPath(root string, t reflect.Type, path []string) (string, reflect.Type, bool) {
	key := root
	for _, p := range path {
		for t.Kind() == reflect.Ptr {
			key += "->"
			t = t.Elem()
		}
		if t.Kind() != reflect.Struct {
			return key, t, false
		}
		f, ok := t.FieldByName(p)
		if !ok {
			return key, t, false
		}
		key += "." + p
		t = f.Type
	}
	return key, t, true
}

type hookState struct {
	fp       *FuncPlan
	ids      *idTable
	job      *Job
	pre      *HookObs
	post     *HookObs
	preDst   Dump // snapshot at pre entry
	preSrc   Dump
	preX     []Dump
	postDst  Dump
	postSrc  Dump
	postX    []Dump
	baseline Dump // dst state after the pre hook's mutation (nil = none)
	postMark Dump // dst state after the post hook's mutation
	preDstP  uintptr
	preSrcP  uintptr
	postDstP uintptr
	postSrcP uintptr
}

func structOf(v reflect.Value) (reflect.Value, uintptr) {
	if v.Kind() == reflect.Ptr {
		if v.IsNil() {
			return reflect.Value{}, 0
		}
		return v.Elem(), v.Pointer()
	}
	return addressable(v), 0
}

func (h *hookState) hook(site string, args []interface{}) {
	var obs **HookObs
	isPre := false
	switch site {
	case h.fp.PreHook:
		obs, isPre = &h.pre, true
	case h.fp.PostHook:
		obs = &h.post
	default:
		return
	}
	if *obs == nil {
		*obs = &HookObs{Site: site, TracePos: len(vtr.Trace) - 1, NArgs: len(args)}
	}
	o := *obs
	o.Count++
	if o.Count > 1 || len(args) < 2 {
		return
	}
	prev := vtr.Muted
	vtr.Muted = true
	defer func() { vtr.Muted = prev }()
	dv := reflect.ValueOf(args[0])
	sv := reflect.ValueOf(args[1])
	o.DstIsPtr = dv.Kind() == reflect.Ptr
	o.SrcIsPtr = sv.Kind() == reflect.Ptr
	ds, dp := structOf(dv)
	ss, sp := structOf(sv)
	var dd, sd Dump
	if ds.IsValid() {
		dd = DumpValue(h.ids, "D", ds)
	} else {
		dd = Dump{"D": "nil"}
	}
	if ss.IsValid() {
		sd = DumpValue(h.ids, "S", ss)
	} else {
		sd = Dump{"S": "nil"}
	}
	var xs []Dump
	for i := 2; i < len(args); i++ {
		xs = append(xs, DumpValue(h.ids, "X", reflect.ValueOf(args[i])))
	}
	if isPre {
		h.preDst, h.preSrc, h.preX, h.preDstP, h.preSrcP = dd, sd, xs, dp, sp
	} else {
		h.postDst, h.postSrc, h.postX, h.postDstP, h.postSrcP = dd, sd, xs, dp, sp
	}
	if h.job.MutateHooks && o.DstIsPtr && ds.IsValid() {
		f := &Filler{Mode: "unique", N: 700000}
		if !isPre {
			f.N = 800000
		}
		f.Fill(ds)
		o.Mutated = true
		if isPre {
			h.baseline = DumpValue(h.ids, "D", ds)
		} else {
			h.postMark = DumpValue(h.ids, "D", ds)
		}
	}
}

func diffDumps(want, got Dump, maxFresh int, fresh map[string]bool, limit int) (mm []Mismatch, checked, nfresh int) {
	keys := map[string]bool{}
	for k := range want {
		keys[k] = true
	}
	for k := range got {
		keys[k] = true
	}
	ks := make([]string, 0, len(keys))
	for k := range keys {
		ks = append(ks, k)
	}
	sort.Strings(ks)
	for _, k := range ks {
		w, wok := want[k]
		g, gok := got[k]
		checked++
		if wok && gok {
			if w == g {
				continue
			}
			i := strings.Index(w, "@?")
			strict := true
			if i < 0 {
				i = strings.Index(w, "@*")
				strict = false
			}
			if i >= 0 {
				// fresh token: same prefix, id greater than any id seen before the call, same suffix
				pre, suf := w[:i+1], w[i+2:]
				if strings.HasPrefix(g, pre) && strings.HasSuffix(g, suf) {
					idStr := g[len(pre) : len(g)-len(suf)]
					if id, err := strconv.Atoi(idStr); err == nil && id > maxFresh {
						tok := pre + idStr
						if strict && fresh != nil && fresh[tok] && strings.HasPrefix(pre, "slice") {
							mm = append(mm, Mismatch{Path: k, Want: w + " (storage not shared with another destination slice)", Got: g})
						} else {
							if strict && fresh != nil {
								fresh[tok] = true
							}
							if strict {
								nfresh++
							}
							continue
						}
					}
				}
			}
		}
		if !wok {
			w = "<absent>"
		}
		if !gok {
			g = "<absent>"
		}
		if len(mm) < limit {
			mm = append(mm, Mismatch{Path: k, Want: w, Got: g})
		}
	}
	return
}

func diffKeys(a, b Dump) []string {
	mm, _, _ := diffDumps(a, b, 1<<30, nil, 8)
	var r []string
	for _, m := range mm {
		r = append(r, m.Path+": "+m.Want+" -> "+m.Got)
	}
	return r
}

func callOnce(job *Job, reg *Reg, fp *FuncPlan, fn reflect.Value, val string, seed uint64, failSite string, failNth int) (rec *Rec) {
	rec = &Rec{Scen: reg.ID, Fn: fp.Key, Val: val, Fail: failSite, FailNth: failNth, Err: "none", Judged: fp.Judge}
	defer func() {
		// a panic of the oracle itself must not end the batch: record it and go on
		if p := recover(); p != nil {
			rec.SigErr = "driver runtime panic while judging: " + fmt.Sprint(p)
			vtr.Hook = nil
			vtr.FailSite = ""
			vtr.Muted = false
		}
	}()
	ft := fn.Type()
	ids := newIDs()
	mode := val
	if strings.HasPrefix(val, "random") {
		mode = "random"
	}
	fill := &Filler{Mode: mode, Seed: seed*2654435761 + 12345}
	args := make([]reflect.Value, ft.NumIn())
	byRole := map[string]reflect.Value{}
	dstIdx := -1
	for i := 0; i < ft.NumIn(); i++ {
		t := ft.In(i)
		role := fp.Roles[i]
		var fl *Filler
		if role == "dst" {
			dstIdx = i
			fl = &Filler{Mode: "unique", N: 900000} // sentinels: previous values of the destination
		} else {
			fl = fill
		}
		if t.Kind() == reflect.Ptr {
			p := reflect.New(t.Elem())
			fl.Fill(p.Elem())
			args[i] = p
		} else {
			v := reflect.New(t).Elem()
			fl.Fill(v)
			args[i] = v
		}
		byRole[role] = args[i]
	}
	roots := map[string]reflect.Value{}
	for name, role := range fp.RootNames {
		if v, ok := byRole[role]; ok {
			roots[name] = v
		}
	}
	// destination type and "before" dump
	var dstT reflect.Type
	var dstBefore Dump
	if fp.Style == "arg" {
		if dstIdx < 0 || args[dstIdx].Kind() != reflect.Ptr {
			rec.SigErr = "arg style without pointer destination parameter"
			return
		}
		dstT = ft.In(dstIdx).Elem()
		dstBefore = DumpValue(ids, "D", args[dstIdx].Elem())
	} else {
		if ft.NumOut() < 1 {
			rec.SigErr = "return style without results"
			return
		}
		dstT = ft.Out(0)
		for dstT.Kind() == reflect.Ptr {
			dstT = dstT.Elem()
		}
		dstBefore = DumpValue(ids, "D", reflect.New(dstT).Elem())
	}
	before := map[string]Dump{}
	for role, v := range byRole {
		if role != "dst" {
			before[role] = DumpValue(ids, role, v)
		}
	}
	// expected values, evaluated on the state before the call
	type exp struct {
		item    *PlanItem
		key     string
		leafT   reflect.Type
		val     reflect.Value
		run     bool
		unknown bool // the oracle cannot say what the leaf should hold
		nilSrc  bool // a whole-slice conversion of a nil source slice: the leaf stays as it was or is nil
	}
	var exps []exp
	for i := range fp.Items {
		it := &fp.Items[i]
		key, leafT, ok := dumpPath("D", dstT, it.Path)
		e := exp{item: it, key: key, leafT: leafT}
		if !ok {
			rec.Skipped = append(rec.Skipped, strings.Join(it.Path, ".")+": path not in destination type")
			e.unknown = true
			exps = append(exps, e)
			continue
		}
		guardOK := true
		for _, g := range it.Guards {
			gv, err := reg.Eval(g, roots, nil)
			if err != nil {
				if err.Kind == "nilpath" {
					guardOK = false
					break
				}
				// guard over the destination (e.g. dst.P != nil) cannot be evaluated up front: assume it holds
				continue
			}
			switch gv.Kind() {
			case reflect.Ptr, reflect.Slice, reflect.Map, reflect.Interface, reflect.Func, reflect.Chan:
				if gv.IsNil() {
					guardOK = false
				}
			}
		}
		if !guardOK {
			exps = append(exps, e)
			continue
		}
		switch it.Kind {
		case "ignore":
			e.unknown = true
		case "assign", "slice":
			if it.Kind == "assign" && leafT.Kind() == reflect.Slice && it.RHS != nil && it.RHS.Op == "conv" {
				// T(U(src.X)) over a NIL source slice (e.g. []byte(string(src.X))) yields a non-nil
				// empty slice: "when the source slice is nil the destination is left as it was or nil"
				inner := it.RHS
				for inner != nil && inner.Op == "conv" {
					inner = inner.X
				}
				if inner != nil {
					if iv, ierr := reg.Eval(inner, roots, nil); ierr == nil && iv.Kind() == reflect.Slice && iv.IsNil() {
						rec.NilKept++
						e.nilSrc = true
						exps = append(exps, e)
						continue
					}
				}
			}
			v, err := reg.Eval(it.RHS, roots, leafT)
			if err != nil {
				rec.Skipped = append(rec.Skipped, strings.Join(it.Path, ".")+": "+err.Error())
				e.unknown = true
				exps = append(exps, e)
				continue
			}
			if it.Kind == "slice" && (v.Kind() != reflect.Slice || v.IsNil()) {
				if v.Kind() == reflect.Slice && v.IsNil() {
					rec.NilKept++
				}
				exps = append(exps, e)
				continue
			}
			e.val = v
			e.run = true
		case "nestinit":
			e.run = true
		}
		exps = append(exps, e)
	}
	maxBefore := ids.next
	// install fault plan and hook
	hs := &hookState{fp: fp, ids: ids, job: job}
	vtr.Reset()
	vtr.FailSite, vtr.FailNth = failSite, failNth
	vtr.Hook = hs.hook
	var outs []reflect.Value
	func() {
		defer func() {
			if p := recover(); p != nil {
				rec.Panic = fmt.Sprint(p)
				rec.PanicAt = vtr.PanickedAt
			}
		}()
		outs = fn.Call(args)
	}()
	vtr.Hook = nil
	vtr.FailSite = ""
	for _, ev := range vtr.Trace {
		rec.Trace = append(rec.Trace, ev.Site)
	}
	rec.Failed = append(rec.Failed, vtr.Failed...)
	rec.Pre, rec.Post = hs.pre, hs.post
	// source and additional arguments must be unmodified
	for role, v := range byRole {
		if role == "dst" {
			continue
		}
		after := DumpValue(ids, role, v)
		rec.SrcMutated = append(rec.SrcMutated, diffKeys(before[role], after)...)
	}
	sort.Strings(rec.SrcMutated)
	if rec.Panic != "" {
		return
	}
	// error result
	var errV reflect.Value
	if fp.HasErr {
		if len(outs) == 0 {
			rec.SigErr = "no error result"
			return
		}
		errV = outs[len(outs)-1]
		if errV.Kind() != reflect.Interface {
			rec.SigErr = "last result is not an interface"
			return
		}
		if errV.IsNil() {
			rec.Err = "nil"
		} else if e, ok := errV.Interface().(*vtr.Err); ok && e == nil {
			// a typed nil pointer inside a non-nil error interface
			rec.Err = "other:non-nil error holding a nil *vtr.Err (typed nil)"
		} else if ok && e == vtr.ErrOf(e.Site).(*vtr.Err) {
			rec.Err = "injected:" + e.Site
		} else {
			rec.Err = "other:" + fmt.Sprint(errV.Interface())
		}
	}
	if rec.Err != "none" && rec.Err != "nil" {
		return
	}
	// destination after
	var dstV reflect.Value
	if fp.Style == "arg" {
		dstV = args[dstIdx].Elem()
	} else {
		dstV = outs[0]
		for dstV.Kind() == reflect.Ptr {
			if dstV.IsNil() {
				rec.Mismatches = append(rec.Mismatches, Mismatch{Path: "D", Want: "non-nil destination", Got: "nil"})
				return
			}
			dstV = dstV.Elem()
		}
	}
	after := DumpValue(ids, "D", dstV)
	// model
	model := Dump{}
	base := dstBefore
	if hs.baseline != nil {
		base = hs.baseline
	}
	for k, v := range base {
		model[k] = v
	}
	unknown := []string{}
	for _, e := range exps {
		if e.unknown {
			unknown = append(unknown, e.key)
			continue
		}
		if e.nilSrc && after[e.key] == "nil" {
			model.Delete(e.key)
			model[e.key] = "nil"
		}
		if !e.run {
			continue
		}
		rec.Executed++
		switch e.item.Kind {
		case "assign":
			model.Delete(e.key)
			lv := reflect.New(e.leafT).Elem()
			func() {
				defer func() {
					if p := recover(); p != nil {
						unknown = append(unknown, e.key)
					}
				}()
				lv.Set(e.val)
			}()
			for k, v := range DumpValue(ids, e.key, lv) {
				model[k] = relaxFresh(v, maxBefore)
			}
		case "slice":
			model.Delete(e.key)
			n := e.val.Len()
			if n == 0 {
				model[e.key] = "slice@empty len=0"
			} else {
				model[e.key] = "slice@? len=" + strconv.Itoa(n)
			}
			rec.SliceObs++
			et := e.leafT.Elem()
			for i := 0; i < n; i++ {
				ev := reflect.New(et).Elem()
				bad := false
				func() {
					defer func() {
						if p := recover(); p != nil {
							bad = true
						}
					}()
					se := e.val.Index(i)
					if e.item.SliceMode == "cast" {
						if !DefinedConv(se, et) {
							bad = true
							return
						}
						ev.Set(se.Convert(et))
					} else {
						ev.Set(se)
					}
				}()
				if bad {
					unknown = append(unknown, e.key)
					break
				}
				for k, v := range DumpValue(ids, e.key+"["+strconv.Itoa(i)+"]", ev) {
					model[k] = relaxFresh(v, maxBefore)
				}
			}
		case "nestinit":
			model.Delete(e.key)
			t := e.leafT
			if t.Kind() == reflect.Ptr {
				model[e.key] = "ptr@?"
				for k, v := range DumpValue(ids, e.key+"->", reflect.New(t.Elem()).Elem()) {
					model[k] = v
				}
			} else {
				for k, v := range DumpValue(ids, e.key, reflect.New(t).Elem()) {
					model[k] = v
				}
			}
		}
	}
	for _, u := range unknown {
		model.Delete(u)
		after.Delete(u)
	}
	if fp.OnlyListed {
		var keep []string
		for _, e := range exps {
			if !e.unknown && e.key != "" && e.item.Kind != "ignore" {
				keep = append(keep, e.key)
			}
		}
		filter := func(d Dump) {
			for k := range d {
				ok := false
				for _, p := range keep {
					if k == p || (strings.HasPrefix(k, p) && isBoundary(k[len(p)])) {
						ok = true
						break
					}
				}
				if !ok {
					delete(d, k)
				}
			}
		}
		filter(model)
		filter(after)
		if hs.postDst != nil {
			filter(hs.postDst)
		}
	}
	fresh := map[string]bool{}
	target := after
	if hs.post != nil && hs.postDst != nil {
		// the post hook saw the destination when all assignments were done
		target = hs.postDst
		for _, u := range unknown {
			target.Delete(u)
		}
	}
	mm, checked, nfresh := diffDumps(model, target, maxBefore, fresh, 12)
	rec.Mismatches = append(rec.Mismatches, mm...)
	rec.Checked, rec.Fresh = checked, nfresh
	// hook observations
	if hs.pre != nil && hs.pre.Count == 1 {
		o := hs.pre
		o.DstDiff = diffKeys(dstBefore, hs.preDst)
		if s, ok := byRole["src"]; ok {
			sv, spp := structOf(s)
			if sv.IsValid() {
				o.SrcDiff = diffKeys(before["src"].Sub("src", "S").reroot(s), hs.preSrc)
			}
			o.SrcSame = samePtr(s, spp, hs.preSrcP, o.SrcIsPtr)
		}
		if fp.Style == "arg" {
			o.DstSame = samePtr(args[dstIdx], args[dstIdx].Pointer(), hs.preDstP, o.DstIsPtr)
		} else if len(outs) > 0 && outs[0].Kind() == reflect.Ptr && !outs[0].IsNil() {
			o.DstSame = samePtr(outs[0], outs[0].Pointer(), hs.preDstP, o.DstIsPtr)
		} else {
			o.DstSame = "n/a"
		}
		o.ExtraDiff = extraDiff(fp, byRole, before, hs.preX)
	}
	if hs.post != nil && hs.post.Count == 1 {
		o := hs.post
		if s, ok := byRole["src"]; ok {
			sv, spp := structOf(s)
			if sv.IsValid() {
				o.SrcDiff = diffKeys(before["src"].Sub("src", "S").reroot(s), hs.postSrc)
			}
			o.SrcSame = samePtr(s, spp, hs.postSrcP, o.SrcIsPtr)
		}
		if fp.Style == "arg" {
			o.DstSame = samePtr(args[dstIdx], args[dstIdx].Pointer(), hs.postDstP, o.DstIsPtr)
		} else if len(outs) > 0 && outs[0].Kind() == reflect.Ptr && !outs[0].IsNil() {
			o.DstSame = samePtr(outs[0], outs[0].Pointer(), hs.postDstP, o.DstIsPtr)
		} else {
			o.DstSame = "n/a"
		}
		o.ExtraDiff = extraDiff(fp, byRole, before, hs.postX)
		// the final destination must show the post hook's mutation iff it got the real destination
		if o.Mutated && hs.postMark != nil {
			for _, u := range unknown {
				hs.postMark.Delete(u)
			}
			o.DstDiff = diffKeys(hs.postMark, after)
		} else if hs.postDst != nil {
			o.DstDiff = diffKeys(hs.postDst, after)
		}
	}
	if job.SliceMutate && fp.Judge {
		if sv, ok := byRole["src"]; ok && dstV.IsValid() {
			srcPtrs := map[uintptr]string{}
			walkSlices(sv, "", 0, func(path string, v reflect.Value) { srcPtrs[v.Pointer()] = path })
			walkSlices(dstV, "", 0, func(path string, v reflect.Value) {
				if sp, ok := srcPtrs[v.Pointer()]; ok {
					rec.TreeAlias = append(rec.TreeAlias, path+"|"+sp)
				}
			})
		}
	}
	// slice aliasing by mutation (C16): write through every source slice element and re-dump the destination
	if job.SliceMutate && fp.Judge {
		for _, e := range exps {
			if !e.run || !e.val.IsValid() || e.val.Kind() != reflect.Slice || e.val.IsNil() || e.val.Len() == 0 {
				continue
			}
			if e.item.Kind != "slice" && !(e.item.Kind == "assign" && e.leafT.Kind() == reflect.Slice) {
				continue
			}
			sub0 := DumpValue(ids, "x", mustLeaf(dstV, e.item.Path))
			func() {
				defer func() { _ = recover() }()
				sv := e.val
				for i := 0; i < sv.Len(); i++ {
					el := access(sv.Index(i))
					if el.CanSet() {
						(&Filler{Mode: "unique", N: 600000 + int64(i)}).Fill(el)
					}
				}
			}()
			sub1 := DumpValue(ids, "x", mustLeaf(dstV, e.item.Path))
			if d := diffKeys(sub0, sub1); len(d) > 0 {
				rec.SliceAlias = append(rec.SliceAlias, strings.Join(e.item.Path, ".")+": writes to source elements visible in destination: "+strings.Join(d, "; "))
			}
			// and the other direction
			func() {
				defer func() { _ = recover() }()
				srcBefore := DumpValue(ids, "x", e.val)
				dl := mustLeaf(dstV, e.item.Path)
				for i := 0; i < dl.Len(); i++ {
					el := access(dl.Index(i))
					if el.CanSet() {
						(&Filler{Mode: "unique", N: 500000 + int64(i)}).Fill(el)
					}
				}
				srcAfter := DumpValue(ids, "x", e.val)
				if d := diffKeys(srcBefore, srcAfter); len(d) > 0 {
					rec.SliceAlias = append(rec.SliceAlias, strings.Join(e.item.Path, ".")+": writes to destination elements visible in source: "+strings.Join(d, "; "))
				}
			}()
		}
	}
	return
}

// walkSlices calls fn for every non-nil, non-empty slice reachable from v through struct members
// and pointers (not through slice elements, maps or interfaces).
func walkSlices(v reflect.Value, path string, depth int, fn func(path string, v reflect.Value)) {
	if !v.IsValid() || depth > 10 {
		return
	}
	switch v.Kind() {
	case reflect.Ptr:
		if !v.IsNil() {
			walkSlices(v.Elem(), path, depth+1, fn)
		}
	case reflect.Struct:
		t := v.Type()
		for i := 0; i < v.NumField(); i++ {
			p := t.Field(i).Name
			if path != "" {
				p = path + "." + p
			}
			walkSlices(access(v.Field(i)), p, depth+1, fn)
		}
	case reflect.Slice:
		if !v.IsNil() && v.Len() > 0 {
			fn(path, v)
		}
	}
}

func mustLeaf(root reflect.Value, path []string) reflect.Value {
	v := root
	for _, p := range path {
		for v.Kind() == reflect.Ptr {
			v = v.Elem()
		}
		v = access(v.FieldByName(p))
	}
	return v
}

// reroot: a source operand dumped as pointer has its struct below "S->"; normalise to struct root "S".
func (d Dump) reroot(operand reflect.Value) Dump {
	if operand.Kind() != reflect.Ptr {
		return d
	}
	return d.Sub("S->", "S")
}

func samePtr(operand reflect.Value, operandPtr, hookPtr uintptr, hookIsPtr bool) string {
	if !hookIsPtr || operand.Kind() != reflect.Ptr {
		return "n/a"
	}
	if operandPtr == hookPtr {
		return "yes"
	}
	return "no"
}

func extraDiff(fp *FuncPlan, byRole map[string]reflect.Value, before map[string]Dump, got []Dump) []string {
	if len(got) == 0 {
		return nil
	}
	var diffs []string
	for i, g := range got {
		role := "x" + strconv.Itoa(i)
		b, ok := before[role]
		if !ok {
			diffs = append(diffs, role+": hook received an argument the function does not have")
			continue
		}
		exp := b.Sub(role, "X")
		if rv, ok := byRole[role]; ok && rv.IsValid() && rv.Kind() == reflect.Interface {
			exp = unboxRoot(exp, "X")
		}
		diffs = append(diffs, diffKeys(exp, g)...)
	}
	return diffs
}

// unboxRoot drops the interface layer at the root of a dump: a hook argument reaches the trace
// through an interface{} parameter, which keeps the dynamic value of an interface-typed
// operand (error, any) but not its static interface type.
func unboxRoot(d Dump, root string) Dump {
	v, ok := d[root]
	if ok && v == "nil" && len(d) == 1 {
		// a nil interface operand arrives as an untyped nil
		return Dump{root: "<invalid>"}
	}
	if !ok || !strings.HasPrefix(v, "iface(") {
		return d
	}
	out := Dump{}
	for k, val := range d {
		switch {
		case k == root:
		case strings.HasPrefix(k, root+"~"):
			out[root+k[len(root)+1:]] = val
		default:
			out[k] = val
		}
	}
	return out
}

// relaxFresh replaces identities allocated after the inputs were dumped (i.e. by callbacks the
// oracle re-invoked) by a wildcard: the generated code's own invocation allocated its own.
func relaxFresh(v string, maxBefore int) string {
	i := strings.Index(v, "@")
	if i < 0 {
		return v
	}
	j := i + 1
	for j < len(v) && v[j] >= '0' && v[j] <= '9' {
		j++
	}
	if j == i+1 {
		return v
	}
	id, err := strconv.Atoi(v[i+1 : j])
	if err != nil || id <= maxBefore {
		return v
	}
	return v[:i] + "@*" + v[j:]
}
