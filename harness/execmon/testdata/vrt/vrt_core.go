// Package vrt is the driver runtime compiled into every exec batch: registry of callbacks,
// value filling, canonical dumps with identities, reflective evaluation of observed plans
// and the call loop. It is generic (reflect + unsafe) and knows nothing about convergen.
package vrt

import (
	"fmt"
	"math"
	"reflect"
	"sort"
	"strconv"
	"strings"
	"unsafe"

	"vb/vtr"
)

// ---------- registry ----------

type methodKey struct {
	t    reflect.Type // base (non-pointer) receiver type
	name string
}

// Reg is the registry of one scenario.
type Reg struct {
	ID      string
	Funcs   map[string]reflect.Value // converters, hooks by name as written in notations
	Gens    map[string]reflect.Value // generated functions by key
	Methods map[methodKey]reflect.Value
}

var scenarios = map[string]*Reg{}

// Register adds a scenario.
func Register(id string, setup func(r *Reg)) {
	r := &Reg{ID: id, Funcs: map[string]reflect.Value{}, Gens: map[string]reflect.Value{}, Methods: map[methodKey]reflect.Value{}}
	setup(r)
	scenarios[id] = r
}

// Func registers a converter/hook.
func (r *Reg) Func(name string, fn interface{}) { r.Funcs[name] = reflect.ValueOf(fn) }

// Gen registers a generated function (or method expression).
func (r *Reg) Gen(key string, fn interface{}) { r.Gens[key] = reflect.ValueOf(fn) }

// Method registers a method expression T.M or (*T).M.
func (r *Reg) Method(name string, fn interface{}) {
	v := reflect.ValueOf(fn)
	rt := v.Type().In(0)
	for rt.Kind() == reflect.Ptr {
		rt = rt.Elem()
	}
	r.Methods[methodKey{rt, name}] = v
}

// ---------- identities ----------

type idTable struct {
	ids  map[uintptr]int
	next int
}

func newIDs() *idTable { return &idTable{ids: map[uintptr]int{}} }

func (t *idTable) id(p uintptr) int {
	if p == 0 {
		return 0
	}
	if id, ok := t.ids[p]; ok {
		return id
	}
	t.next++
	t.ids[p] = t.next
	return t.next
}

// ---------- access to unexported fields ----------

func access(v reflect.Value) reflect.Value {
	if v.CanInterface() || !v.IsValid() {
		return v
	}
	if v.CanAddr() {
		return reflect.NewAt(v.Type(), unsafe.Pointer(v.UnsafeAddr())).Elem()
	}
	return v
}

// addressable returns an addressable copy of v (or v itself).
func addressable(v reflect.Value) reflect.Value {
	if v.CanAddr() {
		return v
	}
	c := reflect.New(v.Type()).Elem()
	c.Set(v)
	return c
}

// ---------- dump ----------

// Dump is path -> canonical leaf string.
type Dump map[string]string

type dumper struct {
	ids     *idTable
	visited map[uintptr]bool
	out     Dump
}

// DumpValue dumps v under the given root path.
func DumpValue(ids *idTable, root string, v reflect.Value) Dump {
	d := &dumper{ids: ids, visited: map[uintptr]bool{}, out: Dump{}}
	if v.IsValid() {
		d.dump(root, addressable(v))
	} else {
		d.out[root] = "<invalid>"
	}
	return d.out
}

func fmtFloat(f float64, bits int) string { return strconv.FormatFloat(f, 'g', -1, bits) }

func (d *dumper) dump(path string, v reflect.Value) {
	v = access(v)
	switch v.Kind() {
	case reflect.Bool:
		d.out[path] = strconv.FormatBool(v.Bool())
	case reflect.Int, reflect.Int8, reflect.Int16, reflect.Int32, reflect.Int64:
		d.out[path] = strconv.FormatInt(v.Int(), 10)
	case reflect.Uint, reflect.Uint8, reflect.Uint16, reflect.Uint32, reflect.Uint64, reflect.Uintptr:
		d.out[path] = strconv.FormatUint(v.Uint(), 10)
	case reflect.Float32:
		d.out[path] = fmtFloat(v.Float(), 32)
	case reflect.Float64:
		d.out[path] = fmtFloat(v.Float(), 64)
	case reflect.Complex64, reflect.Complex128:
		d.out[path] = fmt.Sprint(v.Complex())
	case reflect.String:
		d.out[path] = strconv.Quote(v.String())
	case reflect.Ptr:
		if v.IsNil() {
			d.out[path] = "nil"
			return
		}
		p := v.Pointer()
		d.out[path] = "ptr@" + strconv.Itoa(d.ids.id(p))
		if d.visited[p] {
			return
		}
		d.visited[p] = true
		d.dump(path+"->", v.Elem())
		delete(d.visited, p) // only cycles are cut, shared sub-structures are expanded every time
	case reflect.Slice:
		if v.IsNil() {
			d.out[path] = "nil"
			return
		}
		p := v.Pointer()
		tok := "slice@" + strconv.Itoa(d.ids.id(p))
		if v.Len() == 0 {
			tok = "slice@empty"
		}
		d.out[path] = tok + " len=" + strconv.Itoa(v.Len())
		for i := 0; i < v.Len(); i++ {
			d.dump(path+"["+strconv.Itoa(i)+"]", v.Index(i))
		}
	case reflect.Array:
		d.out[path] = "array len=" + strconv.Itoa(v.Len())
		for i := 0; i < v.Len(); i++ {
			d.dump(path+"["+strconv.Itoa(i)+"]", v.Index(i))
		}
	case reflect.Map:
		if v.IsNil() {
			d.out[path] = "nil"
			return
		}
		d.out[path] = "map@" + strconv.Itoa(d.ids.id(v.Pointer())) + " len=" + strconv.Itoa(v.Len())
		keys := v.MapKeys()
		ks := make([]string, len(keys))
		byS := map[string]reflect.Value{}
		for i, k := range keys {
			ks[i] = fmt.Sprint(k.Interface())
			byS[ks[i]] = k
		}
		sort.Strings(ks)
		for _, k := range ks {
			d.dump(path+"{"+k+"}", addressable(v.MapIndex(byS[k])))
		}
	case reflect.Interface:
		if v.IsNil() {
			d.out[path] = "nil"
			return
		}
		e := v.Elem()
		d.out[path] = "iface(" + e.Type().String() + ")"
		d.dump(path+"~", addressable(e))
	case reflect.Func:
		if v.IsNil() {
			d.out[path] = "nil"
		} else {
			d.out[path] = "func"
		}
	case reflect.Chan:
		if v.IsNil() {
			d.out[path] = "nil"
		} else {
			d.out[path] = "chan@" + strconv.Itoa(d.ids.id(v.Pointer()))
		}
	case reflect.Struct:
		d.out[path] = "struct " + v.Type().String()
		t := v.Type()
		for i := 0; i < v.NumField(); i++ {
			d.dump(path+"."+t.Field(i).Name, v.Field(i))
		}
	case reflect.UnsafePointer:
		d.out[path] = "unsafe"
	default:
		d.out[path] = "?" + v.Kind().String()
	}
}

// Sub returns the entries below prefix re-rooted at newRoot.
func (d Dump) Sub(prefix, newRoot string) Dump {
	out := Dump{}
	for k, v := range d {
		if k == prefix {
			out[newRoot] = v
		} else if strings.HasPrefix(k, prefix) && isBoundary(k[len(prefix)]) {
			out[newRoot+k[len(prefix):]] = v
		}
	}
	return out
}

func isBoundary(c byte) bool { return c == '.' || c == '-' || c == '[' || c == '{' || c == '~' }

// Delete removes prefix and everything below it.
func (d Dump) Delete(prefix string) {
	for k := range d {
		if k == prefix || (strings.HasPrefix(k, prefix) && isBoundary(k[len(prefix)])) {
			delete(d, k)
		}
	}
}

// ---------- fill ----------

// Filler fills values deterministically.
type Filler struct {
	N        int64  // leaf counter
	Mode     string // unique zero nilptr emptyslice extreme shared random
	Seed     uint64
	depth    int
	backings map[reflect.Type]reflect.Value
}

func (f *Filler) rnd() uint64 {
	f.Seed = f.Seed*6364136223846793005 + 1442695040888963407
	return f.Seed >> 33
}

// Fill sets every leaf reachable from v (v must be settable or accessible).
func (f *Filler) Fill(v reflect.Value) {
	v = access(v)
	if !v.CanSet() {
		return
	}
	mode := f.Mode
	if mode == "random" {
		mode = []string{"unique", "unique", "zero", "nilptr", "emptyslice", "extreme", "unique"}[f.rnd()%7]
	}
	if f.depth > 6 {
		return
	}
	f.depth++
	defer func() { f.depth-- }()
	switch v.Kind() {
	case reflect.Bool:
		f.N++
		if mode == "zero" {
			v.SetBool(false)
		} else {
			v.SetBool(f.N%2 == 1)
		}
	case reflect.Int, reflect.Int8, reflect.Int16, reflect.Int32, reflect.Int64:
		f.N++
		bits := v.Type().Bits()
		var x int64
		switch mode {
		case "zero":
			x = 0
		case "extreme":
			switch f.N % 3 {
			case 0:
				x = -1
			case 1:
				x = math.MaxInt64 >> (64 - bits)
			default:
				x = math.MinInt64 >> (64 - bits)
			}
		default:
			x = f.N
			if bits == 8 {
				x = f.N%100 + 1
			}
		}
		v.SetInt(x)
	case reflect.Uint, reflect.Uint8, reflect.Uint16, reflect.Uint32, reflect.Uint64, reflect.Uintptr:
		f.N++
		bits := v.Type().Bits()
		var x uint64
		switch mode {
		case "zero":
		case "extreme":
			x = math.MaxUint64 >> (64 - bits)
		default:
			x = uint64(f.N)
			if bits == 8 {
				x = uint64(f.N%200 + 1)
			}
		}
		v.SetUint(x)
	case reflect.Float32, reflect.Float64:
		f.N++
		switch mode {
		case "zero":
			v.SetFloat(0)
		case "extreme":
			v.SetFloat([]float64{math.NaN(), math.Inf(1), math.Inf(-1), math.MaxFloat32, -0.0}[f.N%5])
		default:
			v.SetFloat(float64(f.N) + 0.5)
		}
	case reflect.Complex64, reflect.Complex128:
		f.N++
		v.SetComplex(complex(float64(f.N), 1))
	case reflect.String:
		f.N++
		switch mode {
		case "zero":
			v.SetString("")
		case "extreme":
			v.SetString([]string{"", "\x00\xff", "ünï©ode-" + strconv.FormatInt(f.N, 10), strings.Repeat("x", 300)}[f.N%4])
		default:
			v.SetString("v" + strconv.FormatInt(f.N, 10))
		}
	case reflect.Ptr:
		if mode == "zero" || mode == "nilptr" {
			v.Set(reflect.Zero(v.Type()))
			return
		}
		p := reflect.New(v.Type().Elem())
		f.Fill(p.Elem())
		v.Set(p)
	case reflect.Slice:
		switch mode {
		case "zero":
			v.Set(reflect.Zero(v.Type()))
			return
		case "emptyslice":
			v.Set(reflect.MakeSlice(v.Type(), 0, 0))
			return
		}
		n := 2 + int(f.N%2)
		if mode == "shared" {
			if f.backings == nil {
				f.backings = map[reflect.Type]reflect.Value{}
			}
			if b, ok := f.backings[v.Type()]; ok {
				v.Set(b.Slice(1, 3))
				return
			}
			b := reflect.MakeSlice(v.Type(), 4, 8)
			for i := 0; i < 4; i++ {
				f.Fill(b.Index(i))
			}
			f.backings[v.Type()] = b
			v.Set(b.Slice(0, 2))
			return
		}
		s := reflect.MakeSlice(v.Type(), n, n+2)
		for i := 0; i < n; i++ {
			f.Fill(s.Index(i))
		}
		v.Set(s)
	case reflect.Array:
		for i := 0; i < v.Len(); i++ {
			f.Fill(v.Index(i))
		}
	case reflect.Map:
		if mode == "zero" {
			v.Set(reflect.Zero(v.Type()))
			return
		}
		m := reflect.MakeMap(v.Type())
		for i := 0; i < 2; i++ {
			k := reflect.New(v.Type().Key()).Elem()
			f.Fill(k)
			e := reflect.New(v.Type().Elem()).Elem()
			f.Fill(e)
			func() {
				defer func() { _ = recover() }()
				m.SetMapIndex(k, e)
			}()
		}
		v.Set(m)
	case reflect.Interface:
		if mode == "zero" {
			v.Set(reflect.Zero(v.Type()))
			return
		}
		f.N++
		cands := []reflect.Value{
			reflect.ValueOf(&vtr.Err{Site: "v" + strconv.FormatInt(f.N, 10)}),
			reflect.ValueOf(int(f.N)),
			reflect.ValueOf("v" + strconv.FormatInt(f.N, 10)),
		}
		if v.Type().NumMethod() == 0 {
			cands = []reflect.Value{cands[1+int(f.N%2)], cands[0]}
		}
		for _, c := range cands {
			if c.Type().AssignableTo(v.Type()) {
				v.Set(c)
				return
			}
		}
	case reflect.Func:
		if mode == "zero" || mode == "nilptr" {
			v.Set(reflect.Zero(v.Type()))
			return
		}
		t := v.Type()
		v.Set(reflect.MakeFunc(t, func(args []reflect.Value) []reflect.Value {
			out := make([]reflect.Value, t.NumOut())
			for i := range out {
				out[i] = reflect.Zero(t.Out(i))
			}
			return out
		}))
	case reflect.Chan:
		if mode == "zero" || mode == "nilptr" {
			v.Set(reflect.Zero(v.Type()))
			return
		}
		if v.Type().ChanDir() == reflect.BothDir {
			v.Set(reflect.MakeChan(v.Type(), 1))
		}
	case reflect.Struct:
		for i := 0; i < v.NumField(); i++ {
			f.Fill(v.Field(i))
		}
	}
}
