package vrt

import (
	"fmt"
	"reflect"
	"strconv"
	"strings"

	"vb/vtr"
)

// Expr mirrors outmon.Expr.
type Expr struct {
	Op   string `json:"op"`
	Name string `json:"name,omitempty"`
	X    *Expr  `json:"x,omitempty"`
	Text string `json:"text,omitempty"`
}

// EvalErr says why an expression could not be evaluated by the oracle.
type EvalErr struct {
	Kind string // nilpath unsupported panic
	Msg  string
}

func (e *EvalErr) Error() string { return e.Kind + ": " + e.Msg }

func unsupported(f string, a ...interface{}) *EvalErr {
	return &EvalErr{Kind: "unsupported", Msg: fmt.Sprintf(f, a...)}
}

// Eval evaluates e over the operand roots; want is the type the context expects (may be nil).
func (r *Reg) Eval(e *Expr, roots map[string]reflect.Value, want reflect.Type) (res reflect.Value, err *EvalErr) {
	prev := vtr.Muted
	vtr.Muted = true
	defer func() {
		vtr.Muted = prev
		if p := recover(); p != nil {
			err = &EvalErr{Kind: "panic", Msg: fmt.Sprint(p)}
		}
	}()
	return r.eval(e, roots, want)
}

func (r *Reg) eval(e *Expr, roots map[string]reflect.Value, want reflect.Type) (reflect.Value, *EvalErr) {
	switch e.Op {
	case "root":
		v, ok := roots[e.Name]
		if !ok {
			return reflect.Value{}, unsupported("unknown root %q", e.Name)
		}
		return v, nil
	case "field":
		x, err := r.eval(e.X, roots, nil)
		if err != nil {
			return x, err
		}
		x = access(x)
		for x.Kind() == reflect.Ptr {
			if x.IsNil() {
				return x, &EvalErr{Kind: "nilpath", Msg: "nil pointer before ." + e.Name}
			}
			x = access(x.Elem())
		}
		if x.Kind() != reflect.Struct {
			return x, unsupported("field %s of non-struct %s", e.Name, x.Type())
		}
		f := x.FieldByName(e.Name)
		if !f.IsValid() {
			return x, unsupported("no field %s in %s", e.Name, x.Type())
		}
		if !f.CanInterface() && !f.CanAddr() {
			f = addressable(x).FieldByName(e.Name)
		}
		return access(f), nil
	case "method":
		x, err := r.eval(e.X, roots, nil)
		if err != nil {
			return x, err
		}
		x = access(x)
		bt := x.Type()
		for bt.Kind() == reflect.Ptr {
			bt = bt.Elem()
		}
		fn, ok := r.Methods[methodKey{bt, e.Name}]
		if !ok {
			return x, unsupported("method %s.%s not registered", bt, e.Name)
		}
		in0 := fn.Type().In(0)
		var recv reflect.Value
		if in0.Kind() == reflect.Ptr {
			if x.Kind() == reflect.Ptr {
				recv = x
			} else {
				recv = addressable(x).Addr()
			}
		} else {
			if x.Kind() == reflect.Ptr {
				if x.IsNil() {
					return x, &EvalErr{Kind: "nilpath", Msg: "nil pointer receiver for value method " + e.Name}
				}
				recv = x.Elem()
			} else {
				recv = x
			}
		}
		if !recv.Type().AssignableTo(in0) {
			return x, unsupported("receiver %s not assignable to %s", recv.Type(), in0)
		}
		out := fn.Call([]reflect.Value{recv})
		if len(out) == 0 {
			return x, unsupported("method %s has no result", e.Name)
		}
		return out[0], nil
	case "call":
		fn, ok := r.Funcs[e.Name]
		if !ok {
			if g, ok2 := r.Gens[e.Name]; ok2 {
				fn = g
			} else {
				return reflect.Value{}, unsupported("function %s not registered", e.Name)
			}
		}
		if fn.Type().NumIn() != 1 {
			return reflect.Value{}, unsupported("function %s arity", e.Name)
		}
		in0 := fn.Type().In(0)
		x, err := r.eval(e.X, roots, in0)
		if err != nil {
			return x, err
		}
		if !x.Type().AssignableTo(in0) {
			return x, unsupported("argument %s not assignable to %s", x.Type(), in0)
		}
		out := fn.Call([]reflect.Value{x})
		return out[0], nil
	case "conv":
		if want == nil {
			return reflect.Value{}, unsupported("conversion without target type")
		}
		x, err := r.eval(e.X, roots, nil)
		if err != nil {
			return x, err
		}
		if want.Kind() == reflect.Interface {
			return x, unsupported("conversion into interface context")
		}
		if !x.Type().ConvertibleTo(want) {
			return x, unsupported("%s not convertible to %s", x.Type(), want)
		}
		if !DefinedConv(x, want) {
			return x, unsupported("float to integer conversion of this value is implementation-defined")
		}
		return x.Convert(want), nil
	case "addr":
		x, err := r.eval(e.X, roots, nil)
		if err != nil {
			return x, err
		}
		return addressable(x).Addr(), nil
	case "deref":
		x, err := r.eval(e.X, roots, nil)
		if err != nil {
			return x, err
		}
		if x.Kind() != reflect.Ptr {
			return x, unsupported("deref of %s", x.Type())
		}
		if x.IsNil() {
			return x, &EvalErr{Kind: "nilpath", Msg: "deref of nil"}
		}
		return x.Elem(), nil
	case "lit":
		return evalLit(e.Text, want)
	}
	return reflect.Value{}, unsupported("op %s", e.Op)
}

func evalLit(text string, want reflect.Type) (reflect.Value, *EvalErr) {
	if want == nil {
		return reflect.Value{}, unsupported("literal without target type")
	}
	t := strings.TrimSpace(text)
	// T(<lit>)
	if i := strings.Index(t, "("); i > 0 && strings.HasSuffix(t, ")") && !strings.ContainsAny(t[:i], "\"' ") {
		t = strings.TrimSpace(t[i+1 : len(t)-1])
	}
	v := reflect.New(want).Elem()
	switch {
	case t == "nil":
		return v, nil
	case t == "true" || t == "false":
		if want.Kind() != reflect.Bool {
			break
		}
		v.SetBool(t == "true")
		return v, nil
	case strings.HasPrefix(t, "\""):
		s, err := strconv.Unquote(t)
		if err != nil || want.Kind() != reflect.String {
			break
		}
		v.SetString(s)
		return v, nil
	default:
		if n, err := strconv.ParseInt(t, 0, 64); err == nil {
			switch want.Kind() {
			case reflect.Int, reflect.Int8, reflect.Int16, reflect.Int32, reflect.Int64:
				v.SetInt(n)
				return v, nil
			case reflect.Uint, reflect.Uint8, reflect.Uint16, reflect.Uint32, reflect.Uint64:
				v.SetUint(uint64(n))
				return v, nil
			case reflect.Float32, reflect.Float64:
				v.SetFloat(float64(n))
				return v, nil
			}
		}
	}
	return v, unsupported("literal %q for %s", text, want)
}

// DefinedConv reports whether Go defines the result of converting x to t (float->integer
// conversions of NaN, infinities and out-of-range values are implementation-defined).
func DefinedConv(x reflect.Value, t reflect.Type) bool {
	switch x.Kind() {
	case reflect.Float32, reflect.Float64:
	default:
		return true
	}
	f := x.Float()
	switch t.Kind() {
	case reflect.Int, reflect.Int8, reflect.Int16, reflect.Int32, reflect.Int64:
		bits := t.Bits()
		lim := float64(uint64(1) << (bits - 1))
		return f == f && f > -lim-1 && f < lim
	case reflect.Uint, reflect.Uint8, reflect.Uint16, reflect.Uint32, reflect.Uint64, reflect.Uintptr:
		bits := t.Bits()
		lim := float64(uint64(1)<<(bits-1)) * 2
		return f == f && f > -1 && f < lim
	}
	return true
}
