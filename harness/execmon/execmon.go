// Package execmon compiles generated code together with instrumented callbacks and a generic
// driver runtime (testdata/vrt, embedded), executes every generated function on many values
// and fault plans in a child process, and returns the recorded observations.
package execmon

import (
	"bufio"
	"embed"
	"encoding/json"
	"fmt"
	"os"
	"os/exec"
	"path/filepath"
	"regexp"
	"sort"
	"strings"

	"vh/core"
	"vh/outmon"
	"vh/scen"
)

//go:embed testdata/vrt/*.go
var vrtFS embed.FS

// PlanItem mirrors vrt.PlanItem.
type PlanItem struct {
	Kind      string         `json:"kind"`
	Path      []string       `json:"path"`
	RHS       *outmon.Expr   `json:"rhs,omitempty"`
	Guards    []*outmon.Expr `json:"guards,omitempty"`
	SliceMode string         `json:"slice_mode,omitempty"`
}

// FuncPlan mirrors vrt.FuncPlan.
type FuncPlan struct {
	Key        string            `json:"key"`
	Roles      []string          `json:"roles"`
	RootNames  map[string]string `json:"root_names"`
	Style      string            `json:"style"`
	HasErr     bool              `json:"has_err"`
	Items      []PlanItem        `json:"items"`
	PreHook    string            `json:"pre_hook,omitempty"`
	PostHook   string            `json:"post_hook,omitempty"`
	ErrSites   []string          `json:"err_sites,omitempty"`
	Judge      bool              `json:"judge"`
	OnlyListed bool              `json:"only_listed,omitempty"`
}

// ScenPlan mirrors vrt.ScenPlan.
type ScenPlan struct {
	ID    string     `json:"id"`
	Funcs []FuncPlan `json:"funcs"`
}

// Job mirrors vrt.Job.
type Job struct {
	Scenarios   []ScenPlan `json:"scenarios"`
	NRandom     int        `json:"n_random"`
	Seed        uint64     `json:"seed"`
	Faults      bool       `json:"faults"`
	FaultPairs  bool       `json:"fault_pairs"`
	MutateHooks bool       `json:"mutate_hooks"`
	SliceMutate bool       `json:"slice_mutate"`
}

// Mismatch mirrors vrt.Mismatch.
type Mismatch struct {
	Path string `json:"path"`
	Want string `json:"want"`
	Got  string `json:"got"`
}

// HookObs mirrors vrt.HookObs.
type HookObs struct {
	Site      string   `json:"site"`
	Count     int      `json:"count"`
	TracePos  int      `json:"trace_pos"`
	DstIsPtr  bool     `json:"dst_is_ptr"`
	SrcIsPtr  bool     `json:"src_is_ptr"`
	DstSame   string   `json:"dst_same"`
	SrcSame   string   `json:"src_same"`
	DstDiff   []string `json:"dst_diff,omitempty"`
	SrcDiff   []string `json:"src_diff,omitempty"`
	ExtraDiff []string `json:"extra_diff,omitempty"`
	NArgs     int      `json:"n_args"`
	Mutated   bool     `json:"mutated"`
}

// Rec mirrors vrt.Rec.
type Rec struct {
	Scen       string     `json:"scen"`
	Fn         string     `json:"fn"`
	Val        string     `json:"val"`
	Fail       string     `json:"fail,omitempty"`
	FailNth    int        `json:"fail_nth,omitempty"`
	SigErr     string     `json:"sig_err,omitempty"`
	Panic      string     `json:"panic,omitempty"`
	PanicAt    string     `json:"panic_at,omitempty"`
	Trace      []string   `json:"trace"`
	Failed     []string   `json:"failed,omitempty"`
	Err        string     `json:"err"`
	Mismatches []Mismatch `json:"mismatches,omitempty"`
	Checked    int        `json:"checked"`
	Executed   int        `json:"executed"`
	Fresh      int        `json:"fresh"`
	SrcMutated []string   `json:"src_mutated,omitempty"`
	Skipped    []string   `json:"skipped,omitempty"`
	Pre        *HookObs   `json:"pre,omitempty"`
	Post       *HookObs   `json:"post,omitempty"`
	SliceAlias []string   `json:"slice_alias,omitempty"`
	TreeAlias  []string   `json:"tree_alias,omitempty"`
	SliceObs   int        `json:"slice_obs,omitempty"`
	NilKept    int        `json:"nil_kept,omitempty"`
	Judged     bool       `json:"judged"`
}

// Unit is one scenario prepared for execution.
type Unit struct {
	S     *scen.Scenario
	Plan  ScenPlan
	GenFn map[string]string // key -> Go expression of the generated function value
}

// Result of a batch execution.
type Result struct {
	Recs       []*Rec
	Dropped    map[string]string // scenario id -> build error (real compiler disagreed / infrastructure)
	DriverErr  string            // driver crashed / timed out
	DriverTail string
}

var rePkgErr = regexp.MustCompile(`(?m)^# vb/(\S+)`)
var reFileErr = regexp.MustCompile(`(?m)^(\S+?)/[^/\s]+\.go:\d+`)

// Exec builds and runs a batch. root is the batch module root (already containing the scenario
// packages and the generated files). units are the scenarios to execute.
func Exec(e *core.Env, root string, units []*Unit, job Job, tag string) *Result {
	res := &Result{Dropped: map[string]string{}}
	// runtime
	ents, _ := vrtFS.ReadDir("testdata/vrt")
	for _, en := range ents {
		b, _ := vrtFS.ReadFile("testdata/vrt/" + en.Name())
		p := filepath.Join(root, "vrt", en.Name())
		_ = os.MkdirAll(filepath.Dir(p), 0o755)
		_ = os.WriteFile(p, b, 0o644)
	}
	active := append([]*Unit{}, units...)
	for _, u := range active {
		writeStub(root, u)
	}
	bin := filepath.Join(root, "drv-"+tag)
	for attempt := 0; attempt < 6; attempt++ {
		writeMain(root, tag, active)
		cmd := exec.Command("go", "build", "-tags", "verifdrv", "-gcflags=-e", "-o", bin, "./drvmain_"+tag)
		cmd.Dir = root
		cmd.Env = e.GoEnv(true)
		out, err := cmd.CombinedOutput()
		if err == nil {
			break
		}
		// find offending scenario packages and drop them
		bad := map[string]bool{}
		for _, m := range rePkgErr.FindAllStringSubmatch(string(out), -1) {
			bad[strings.Split(m[1], "/")[0]] = true
		}
		for _, m := range reFileErr.FindAllStringSubmatch(string(out), -1) {
			bad[strings.Split(m[1], "/")[0]] = true
		}
		var keep []*Unit
		dropped := 0
		for _, u := range active {
			if bad[u.S.PkgRel] || bad[strings.Split(u.S.PkgRel, "/")[0]] {
				res.Dropped[u.S.ID] = core.Trunc(extractErr(string(out), u.S.PkgRel), 1500)
				dropped++
			} else {
				keep = append(keep, u)
			}
		}
		if dropped == 0 || attempt == 5 {
			res.DriverErr = "driver build failed: " + core.Trunc(string(out), 3000)
			return res
		}
		active = keep
	}
	job.Scenarios = nil
	for _, u := range active {
		job.Scenarios = append(job.Scenarios, u.Plan)
	}
	jb, _ := json.Marshal(job)
	jobPath := filepath.Join(root, "job-"+tag+".json")
	outPath := filepath.Join(root, "out-"+tag+".jsonl")
	_ = os.WriteFile(jobPath, jb, 0o644)
	logPath := filepath.Join(root, "drv-"+tag+".log")
	// child with QUIT watchdog; output to file so a goroutine dump survives
	sh := fmt.Sprintf("timeout -s QUIT 600 %s %s %s > %s 2>&1", bin, jobPath, outPath, logPath)
	r := e.Run(core.RunSpec{Bin: "/bin/sh", Args: []string{"-c", sh}, Dir: root, WallSec: 700, BaseEnv: e.GoEnv(true)})
	logb, _ := os.ReadFile(logPath)
	if r.Exit != 0 || !strings.Contains(string(logb), "DRIVER-DONE") {
		res.DriverErr = fmt.Sprintf("driver exit=%d", r.Exit)
		tail := string(logb)
		if len(tail) > 4000 {
			tail = tail[:2000] + "\n...\n" + tail[len(tail)-2000:]
		}
		res.DriverTail = tail
	}
	f, err := os.Open(outPath)
	if err == nil {
		sc := bufio.NewScanner(f)
		sc.Buffer(make([]byte, 1<<20), 1<<26)
		for sc.Scan() {
			var rec Rec
			if json.Unmarshal(sc.Bytes(), &rec) == nil {
				res.Recs = append(res.Recs, &rec)
			}
		}
		f.Close()
	}
	return res
}

func extractErr(out, pkgRel string) string {
	var sb strings.Builder
	for _, l := range strings.Split(out, "\n") {
		if strings.Contains(l, pkgRel+"/") || strings.Contains(l, "vb/"+pkgRel) {
			sb.WriteString(l + "\n")
		}
	}
	return sb.String()
}

func writeStub(root string, u *Unit) {
	s := u.S
	var sb strings.Builder
	sb.WriteString("//go:build verifdrv\n\npackage " + s.PkgName + "\n\n")
	var body strings.Builder
	keys := make([]string, 0, len(u.GenFn))
	for k := range u.GenFn {
		keys = append(keys, k)
	}
	sort.Strings(keys)
	for _, k := range keys {
		fmt.Fprintf(&body, "\t\tr.Gen(%q, %s)\n", k, u.GenFn[k])
	}
	for _, f := range dedup(append(append([]string{}, s.RegFuncs...), scen.PreludeRegFuncs...)) {
		fmt.Fprintf(&body, "\t\tr.Func(%q, %s)\n", f, f)
	}
	for _, m := range dedup(append(append([]string{}, s.RegMethods...), scen.PreludeRegMethods...)) {
		name := m[strings.LastIndex(m, ".")+1:]
		if strings.Contains(m, "m.") && name[0] >= 'a' && name[0] <= 'z' && (strings.HasPrefix(m, "m.") || strings.HasPrefix(m, "(*m.")) {
			continue // unexported method of the imported package: not reachable from here (nor from generated code)
		}
		fmt.Fprintf(&body, "\t\tr.Method(%q, %s)\n", name, m)
	}
	bs := body.String()
	sb.WriteString("import (\n\t\"vb/ext\"\n\t\"vb/vrt\"\n")
	if regexp.MustCompile(`[ (*]m\.[A-Z]`).MatchString(bs) {
		sb.WriteString("\tm \"" + s.PkgPath() + "/m\"\n")
	}
	sb.WriteString(")\n\nvar _ ext.MInt\n\nfunc init() {\n")
	fmt.Fprintf(&sb, "\tvrt.Register(%q, func(r *vrt.Reg) {\n%s\t})\n}\n", s.ID, bs)
	_ = os.WriteFile(filepath.Join(root, s.PkgRel, "zz_drv.go"), []byte(sb.String()), 0o644)
}

func dedup(in []string) []string {
	seen := map[string]bool{}
	var out []string
	for _, s := range in {
		if !seen[s] {
			seen[s] = true
			out = append(out, s)
		}
	}
	return out
}

func writeMain(root, tag string, units []*Unit) {
	var sb strings.Builder
	sb.WriteString("//go:build verifdrv\n\npackage main\n\nimport (\n\t\"vb/vrt\"\n")
	for _, u := range units {
		fmt.Fprintf(&sb, "\t_ %q\n", u.S.PkgPath())
	}
	sb.WriteString(")\n\nfunc main() { vrt.Main() }\n")
	dir := filepath.Join(root, "drvmain_"+tag)
	_ = os.MkdirAll(dir, 0o755)
	_ = os.WriteFile(filepath.Join(dir, "main.go"), []byte(sb.String()), 0o644)
}
